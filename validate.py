#!/opt/veriftools/pyvenv/bin/python3
import json,jsonschema,sys,glob
m=json.load(open('/verif/MANIFEST.json'))
jsonschema.validate(m,json.load(open('/root/.vp/MANIFEST.schema.json')))
props=[json.loads(l)['id'] for l in open('/verif/properties.jsonl')]
claimed=[c['property_id'] for c in m['checks']]
na=[c['property_id'] for c in m.get('not_applicable',[])]
missing=[p for p in props if p not in claimed and p not in na]
print("manifest ok; claimed",len(claimed),"na",len(na),"unlisted",missing)
es=json.load(open('/root/.vp/EVIDENCE.schema.json'))
for f in sorted(glob.glob('/verif/evidence/*.json')):
    e=json.load(open(f)); jsonschema.validate(e,es)
    print(f.split('/')[-1], e['tier'], 'paths',e['coverage']['evaluations'],'nontriv',e['coverage']['distinct_nontrivial'],'obl',e['coverage']['obligations'],'viol',e.get('violations'), 'wall',e['wall_s'])
