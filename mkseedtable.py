#!/usr/bin/env python3
# prints the markdown table of seeded changes (DESIGN.md section 7) from seeded/*/meta.json
import json, glob, os
short = {
 'C01-b': ('`syncIPLocked` walks `Allocatable()` only', 'address removed in the cloud while a pod holds it, then DEL and a new ADD'),
 'C02-b': ('take-over loop and free-assignment loop fused', 'reported-but-unbound address + another pending pod + map order'),
 'C03-b': ('`cleanRuntimeNode` loses the `continue` on a failed pod lookup', 'stale initial record + API error in that GC round'),
 'C04-b': ('reply channel of the cache-hit path made buffered', 'context cancelled before the commit goroutine runs'),
 'C05-b': ('`load` builds the owner key as name/namespace', 'restart, then retried ADD or DEL'),
 'C06-b': ('`Dispose` step 2 drops the in-use guard for invalid addresses', 'held address marked invalid by a transient metadata answer, then pool shrink'),
 'C07-b': ('dispose worker deletes `Deleting()` instead of the confirmed batch', 'second Dispose during an in-flight unassign, or more than one batch'),
 'C08-b': ('`handleStatus` truncates only the unassign call, not the delete loop', 'more Deleting addresses than one batch (EFLO: 2)'),
 'C09-b': ('sticky-IP branch ends with `break`', 'two vanished sticky pods in one window'),
 'C10-b': ('`podENICreate` writes the phase with `Status().Patch`', 'record changed during attach'),
 'C11-b': ('collector writes its verdict with `Status().Patch`', 'pod re-created and record rebound between list and write'),
 'C12-b': ('IPv6 UID guard in `CRDV2.multiIP` compares PodID', 'stale IPv6 record of a previous same-named pod on another interface'),
 'C13-b': ('policy-route teardown resolves the ENI before deleting rules', 'ENI gone before the DEL'),
 'C14-b': ('`MatchSrc` shares one package-level selector', 'second filter built in the same process (dual stack)'),
 'C15-b': ('`RecordPodEvent` tolerates NotFound + `getPod` returns nil on error', 'malformed annotation while the cached pod lookup misses'),
 'C16-b': ('`err :=` shadows the deferred roll-back condition in the EFLO create', 'HTTP success with non-zero business code, then retry'),
 'C17-b': ('`GetOne` applies options onto a shared default object', 'earlier call with fallback / other policy'),
 'C18-b': ('previous zone inserted into the vSwitch-zone set', 're-created fixed-IP pod whose old zone lost its vSwitch'),
 'C19-b': ('failed metadata lookup no longer aborts `initInstanceLimit`', 'stale annotation after resize + metadata hiccup at start'),
 'C20-b': ('`MergeConfigAndUnmarshal` decodes onto a shared pre-allocated value', 'two merges in one process'),
 'C01-c': ('`IP.Release` guard joined with AND instead of OR', 'stale repeated DEL naming an address now held by another pod'),
 'C02-c': ('`buildIPMap` links a binding only when the UID matches', 'same-name re-create / legacy record without UID'),
 'C03-c': ('`multiIP` cancels the pending DEL report under the PodID key', 'DEL then ADD of the same UID before the 3 s flush'),
 'C04-c': ('`PeekAvailable` folded into one loop', 'repeated ADD with idle addresses + map order'),
 'C05-c': ('`AllocIP` skips the record write when resources and config are unchanged', 'sandbox re-created (same UID, same address), late DEL of the old sandbox'),
 'C06-c': ('fast path of `Allocate` no longer tags the address under the lock', 'balancer tick between `Allocate` and its commit goroutine'),
 'C07-c': ('`Local.sync` queries metadata with the pool lock released', 'address committed between snapshot and application'),
 'C08-c': ('`syncWithAPI` guard tests the cloud status instead of the record status', 'interface recorded as Deleting, still attached, then a full sync'),
 'C09-c': ('`gcPods` drops the service lock around the rule cleanup', 'CNI request for the same pod parked on the lock'),
 'C10-c': ('`Remote.Allocate` replaces the time-out error by the last recorded reason', 'record stays Bind with a foreign UID for the whole wait'),
 'C11-c': ('`podLastSeen` stamped only when it is zero', 're-bind of a retained record, pod gone again before the next GC tick'),
 'C12-c': ('`getDatePath` caches by IP type only', 'two interfaces with different trunk flags in one ADD'),
 'C13-c': ('IPv6 from-pod rule gets the to-pod priority', 'two pods in sequence, or setup then teardown'),
 'C14-c': ('`DeriveGatewayIP` caches by network address without the prefix length', 'two subnets sharing a base address'),
 'C15-c': ('empty-selection guard moved into the preferred-index branch', 'NUMA hint >= 2 on a multi-card node'),
 'C16-c': ('`GenerateKey` reads the cache before taking the mutex', 'two same-parameter requests / a PutBack between lookup and lock'),
 'C17-c': ('looked-up vSwitch cached only when the flight was not shared', 'concurrent cold lookups, then Block'),
 'C18-c': ('previous-zone and vSwitch-zone requirements merged into one union', 're-created fixed-IP pod whose old zone lost its vSwitch'),
 'C19-c': ('flavor computed after the changed/unchanged snapshot', 'instance type changed, configuration unchanged'),
 'C20-c': ('chainer guard tests `edtSupport`', 'kernel with eBPF but without the EDT helper'),
 'C01-d': ('`allocWorker` keeps the peeked address across `cond.Wait`', 'dual stack, IPv6 arrives later, another request takes the IPv4 meanwhile'),
 'C02-d': ('dual-stack roll-back no longer clears the in-memory IPv4 reference', 'roll-back in the first pass, IPv6 added in the same reconcile'),
 'C03-d': ('`ReleaseIP` prefers the API UID over the recorded one', 'same-name pod re-created before the old sandbox\'s DEL'),
 'C04-d': ('`ReleaseIP` registers the pending-mark delete before the `LoadOrStore` check', 'rejected DEL during an in-flight ADD, then a third request'),
 'C05-d': ('`load` trims to the cap before re-applying stored bindings', 'restart with a smaller per-ENI cap'),
 'C06-d': ('`load` compares the primary address via `AddrFromSlice` of a 16-byte `net.IP`', 'restart, idle primary, pool shrink'),
 'C07-d': ('`AssignNIPv4` returns no address when the metadata wait fails', 'assign executed, metadata lags'),
 'C08-d': ('`if err :=` shadows the roll-back condition at the attach call', 'attach refused after create'),
 'C09-d': ('`gcPods` logs a failed pod lookup and falls through', 'API error for a record outside the running set'),
 'C10-d': ('`if err := Create` shadows the roll-back condition in `podCreate`', 'record create fails after the interfaces were created'),
 'C11-d': ('collector writes its verdict with `Status().Patch`', 're-bind between list and write'),
 'C12-d': ('IPv6 UID guard removed in `CRDV2.multiIP`', 'stale IPv6 record of a previous same-named pod'),
 'C13-d': ('`FindIPRule` also filters by table', 'left-over from-rule of a previous holder of the address'),
 'C14-d': ('`found` flag hoisted out of the key loop in `FilterBySrcIP`', 'second IPv6 pod sharing the first address word'),
 'C15-d': ('emptiness guard tests `len(n.NetworkCards)`', 'NUMA hint or recorded card index outside the cards'),
 'C16-d': ('explicit roll-back added next to the deferred one in the EFLO create', 'business error, retry, then one more create'),
 'C17-d': ('looked-up vSwitch cached only when the flight was not shared', 'concurrent cold lookups, then Block'),
 'C18-d': ('missing `eni-config` tolerated when filling defaults', 'config map deleted while a pod needs defaults'),
 'C19-d': ('failed metadata lookup no longer aborts `initInstanceLimit`', 'stale annotation + metadata hiccup'),
 'C20-d': ('chainer guard tests `edtSupport`', 'eBPF kernel without the EDT helper'),
 'C01-e': ('`canDispose` tests the IPv4 set twice', 'interface whose only held addresses are IPv6, pool shrink'),
 'C02-e': ('`releaseUnUsedIP` computes the IPv6 usage from the IPv4 map', 'interface with IPv6-only owners, surplus larger than the interface'),
 'C03-e': ('same operand slip as C02-e', 'IPv6-only node, two gc rounds'),
 'C04-e': ('repeated-ADD lookup uses the wrong resource type', 'two interfaces, repeated ADD of a pod on the second one'),
 'C05-e': ('`load` looks the stored IPv6 address up in the IPv4 set', 'dual stack, restart'),
 'C06-e': ('`canDispose` tests the IPv4 queue twice', 'IPv6 request pending, no IPv4 request, no address in use'),
 'C07-e': ('dispose worker unassigns a truncated batch but forgets the whole list', 'more deleting addresses than one batch'),
 'C08-e': ('IPv6 left quota computed from the IPv4 per-adapter limit', 'IPv6 limit below IPv4 limit, interface at its IPv6 limit'),
 'C09-e': ('lookup-error branch inverted in `gcPods`', 'API error for an exited pod'),
 'C10-e': ('`continue` turned into `break` when subtracting referenced interfaces', 'multi-interface record whose first interface is not a candidate'),
 'C11-e': ('`haveFixedIP` overwritten per allocation', 'mixed fixed/elastic allocations, elastic last'),
 'C12-e': ('default-route flag overwritten instead of accumulated', 'three interfaces, default route not on the last'),
 'C13-e': ('IPv6 default route added regardless of the default-route flag (exclusive ENI)', 'secondary interface of a multi-network IPv6 pod'),
 'C14-e': ('number of key words rounded down', 'IPv6 prefix not a multiple of 32'),
 'C15-e': ('unit index taken on the untrimmed string', 'leading white space before a value with unit'),
 'C16-e': ('tags sorted by value instead of key', 'two tags with equal values, map order'),
 'C17-e': ('`<= 1` for "no free address" in the in-zone loop', 'candidate with exactly one free address'),
 'C18-e': ('intersection re-seeded whenever it is empty', 'three networks with an empty prefix intersection'),
 'C19-e': ('low-watermark clamp tests the configured instead of the computed minimum', 'min_eni set, min_eni x addresses above the maximum'),
 'C20-e': ('chainer guard tests `edtSupport`', 'eBPF kernel without the EDT helper'),
}
rows = []
for d in sorted(glob.glob('/verif/seeded/*')):
    n = os.path.basename(d)
    if n.endswith('-a') or not os.path.exists(d + '/meta.json'):
        continue
    m = json.load(open(d + '/meta.json'))
    runs = m.get('framework_runs', {})
    caught = []
    for k, v in sorted(runs.items()):
        if v.get('detected'):
            hs = ', '.join('`%s`' % h for h in v.get('harnesses_reporting', [])[:3])
            caught.append(hs + ('' if k.split(':')[0] == n.split('-')[0] else ' (%s check)' % k.split(':')[0]))
    ch, needs = short.get(n, (m.get('summary', '')[:80], m.get('needs', '')[:80]))
    rows.append('| %s | %s | %s | %s |' % (n, ch, needs, '; '.join(dict.fromkeys(caught)) or '**missed**'))
print('\n'.join(rows))
