#!/usr/bin/env python3
"""Run the pinned baseline (guard off) in a repo dir and compare with BASELINE.json stable_pass."""
import json, subprocess, sys, os
repo = sys.argv[1] if len(sys.argv) > 1 else "/repo"
base = json.load(open("/root/.vp/BASELINE.json"))
want = set(base["stable_pass"])
env = dict(os.environ, GOFLAGS="-mod=mod", GOPROXY="off")
r = subprocess.run(["go", "test", "-mod=mod", "-json", "-vet=off", "-count=1", "-timeout", "25m", "./..."], cwd=repo, env=env, stdout=subprocess.PIPE, stderr=subprocess.DEVNULL, text=True)
got = {}
for l in r.stdout.splitlines():
    try:
        e = json.loads(l)
    except Exception:
        continue
    if e.get("Test") and e.get("Action") in ("pass", "fail", "skip"):
        got[e["Package"] + "::" + e["Test"]] = e["Action"]
bad = sorted(t for t in want if got.get(t) != "pass")
print("baseline: %d/%d pinned tests pass" % (len(want) - len(bad), len(want)))
for t in bad[:20]:
    print("  NOT PASSING:", t, got.get(t))
sys.exit(1 if bad else 0)
