#!/bin/sh
# usage: verify_seed.sh <seed-dir-name>  — confirms a seeded change in a scratch worktree:
# builds, pinned baseline passes, demo fails with the change and passes without it.
name=$1
wt=/tmp/vs-$name
git -C /repo worktree remove --force $wt 2>/dev/null
git -C /repo worktree add -q $wt HEAD || exit 2
export GOFLAGS=-mod=mod GOPROXY=off
cd $wt
mkdir -p zz_seed && cp -r /verif/seeded/$name/* zz_seed/
res=""
git apply zz_seed/patch.diff && res="$res applies=yes" || res="$res applies=NO"
go build -tags default_build ./... >/tmp/vs-$name.build 2>&1 && res="$res builds=yes" || res="$res builds=NO"
python3 /verif/baseline.py $wt >/tmp/vs-$name.base 2>&1 && res="$res baseline=101/101" || res="$res baseline=FAIL"
sh zz_seed/demo.sh >/tmp/vs-$name.demo1 2>&1; d1=$?
git apply -R zz_seed/patch.diff
sh zz_seed/demo.sh >/tmp/vs-$name.demo0 2>&1; d0=$?
res="$res demo_with_change_exit=$d1 demo_without_exit=$d0"
cd /
git -C /repo worktree remove --force $wt
echo "$name:$res"
python3 - "$name" "$res" <<'PY'
import json,sys
name,res=sys.argv[1],sys.argv[2]
p='/verif/seeded/%s/meta.json'%name
m=json.load(open(p))
m['confirmed_by_framework_author']=res.strip()
json.dump(m,open(p,'w'),indent=1)
PY
