#!/usr/bin/env python3
# lists functions inside the anchor line ranges of each property that no harness of that property executed
import json, re, os, sys
REPO='/repo'
def funcs(path):
    out=[]
    try: lines=open(os.path.join(REPO,path)).read().split('\n')
    except Exception: return out
    starts=[]
    for i,l in enumerate(lines,1):
        m=re.match(r'^func\s+(\([^)]*\)\s*)?([A-Za-z0-9_]+)',l)
        if m:
            recv=m.group(1) or ''
            rt=re.search(r'\*?([A-Za-z0-9_]+)\s*\)',recv)
            starts.append((i,m.group(2),rt.group(1) if rt else None))
    for k,(ln,name,recv) in enumerate(starts):
        end=starts[k+1][0]-1 if k+1<len(starts) else len(lines)
        out.append((ln,end,name,recv))
    return out
props=[json.loads(l) for l in open('/verif/properties.jsonl')]
for p in props:
    pid=p['id']
    try: ev=json.load(open('/verif/evidence/%s.json'%pid))
    except Exception: continue
    enc=ev['coverage'].get('functions_encoded',[])
    encs=' '.join(enc)
    ranges=[]
    for m in p['anchors'].get('mechanism',[])+p['anchors'].get('state',[]):
        w=m.get('where','')
        for part in w.split(','):
            part=part.strip()
            mm=re.match(r'([\w/.\-]+\.go):(\d+)(?:-(\d+))?',part)
            if mm: ranges.append((mm.group(1),int(mm.group(2)),int(mm.group(3) or mm.group(2))))
            else:
                mm=re.match(r'([\w/.\-]+\.go)',part)
                if mm: ranges.append((mm.group(1),1,10**6))
    last=None
    unc=[]
    for f,a,b in ranges:
        for (ln,end,name,recv) in funcs(f):
            if end<a or ln>b: continue
            pkg=os.path.dirname(f)
            key=('.%s).%s'%(recv,name)) if recv else ('/%s.%s'%(os.path.basename(pkg),name))
            pat=re.compile(re.escape(key)+r'(\s|$|\$|\[)')
            if not pat.search(encs+' '):
                unc.append('%s:%d %s%s'%(f,ln,(recv+'.' if recv else ''),name))
    unc=sorted(set(unc))
    print(pid, 'encoded=%d'%len(enc), 'anchor functions not executed: %d'%len(unc))
    for u in unc: print('    ',u)
