//go:build verif

package datapath

import (
	"net"

	"github.com/vishvananda/netlink"

	zz "github.com/AliyunContainerService/terway/internal/zzverif"
)

// C14(a) / C13, ipvlan datapath: the destination classifier that redirects
// host-stack and service traffic to the ipvl slave.  For every IPv4 CIDR the
// key selects exactly the packets whose destination word lies in the CIDR
// (offset 16, the IPv4 destination address); the filter built from a rule is
// recognised by that rule (so that a second setup installs nothing new) and
// not by the rule of another CIDR or another target device.
func ZZ_C14_dst_redirect_rule() {
	p := zz.Fork("prefix", 33)
	n := zz.Uint32("net")
	a := zz.Uint32("addr")
	cidr := &net.IPNet{IP: net.IP{byte(n >> 24), byte(n >> 16), byte(n >> 8), byte(n)}, Mask: net.CIDRMask(p, 32)}
	dst := zz.IntRange("slave.index", 1, 1<<20)
	r, err := dstIPRule(3, cidr, dst, netlink.TCA_INGRESS_REDIR)
	zz.Assert(err == nil && r != nil, "an IPv4 CIDR yields a rule")
	if r == nil {
		return
	}
	in := p == 0 || (a^n)>>uint(32-p) == 0
	zz.Assert((a&r.mask == r.value) == in, "the classifier selects exactly the destinations inside the CIDR")
	zz.Assert(r.offset == 16 && r.proto == 0x0800, "the key reads the IPv4 destination address word")
	f := r.toU32Filter()
	zz.Assert(r.isMatch(f), "a rule recognises the filter built from it (a second setup installs nothing new)")
	zz.Assert(len(f.Sel.Keys) == 1 && f.Sel.Keys[0].Mask == r.mask && f.Sel.Keys[0].Val == r.value && f.Sel.Keys[0].Off == 16, "the filter carries exactly the rule's key")
	other, _ := dstIPRule(3, cidr, dst+1, netlink.TCA_INGRESS_REDIR)
	zz.Assert(other != nil && !other.isMatch(f), "a rule for another target device does not recognise the filter")
	// an IPv6 CIDR is refused (this classifier is IPv4 only)
	_, err6 := dstIPRule(3, &net.IPNet{IP: net.ParseIP("fd00::"), Mask: net.CIDRMask(64, 128)}, dst, netlink.TCA_INGRESS_REDIR)
	zz.Assert(err6 != nil, "an IPv6 CIDR is refused")
}

// C14 (every CIDR is served by its own classifier): which installed filter a
// rule accepts as "already there".  For every pair of IPv4 CIDRs (any two
// prefix lengths, any two addresses - nested, overlapping, disjoint): the
// rule of one CIDR recognises the filter installed for the other only when
// both denote the same set of destinations; otherwise the wanted filter would
// never be installed and the one left in place classifies differently.
func ZZ_C14_redirect_filter_identity() {
	p1, p2 := zz.IntRange("prefix.wanted", 0, 32), zz.IntRange("prefix.installed", 0, 32)
	n1, n2 := zz.Uint32("net.wanted"), zz.Uint32("net.installed")
	mk := func(n uint32, p int) *net.IPNet {
		return &net.IPNet{IP: net.IP{byte(n >> 24), byte(n >> 16), byte(n >> 8), byte(n)}, Mask: net.CIDRMask(p, 32)}
	}
	want, e1 := dstIPRule(3, mk(n1, p1), 7, netlink.TCA_INGRESS_REDIR)
	inst, e2 := dstIPRule(3, mk(n2, p2), 7, netlink.TCA_INGRESS_REDIR)
	zz.Assert(e1 == nil && e2 == nil && want != nil && inst != nil, "both CIDRs yield rules")
	if want == nil || inst == nil {
		return
	}
	f := inst.toU32Filter()
	sameSet := p1 == p2 && (p1 == 0 || (n1^n2)>>uint(32-p1) == 0)
	zz.Assert(want.isMatch(f) == sameSet, "a rule accepts an installed filter as its own exactly when the filter serves the same CIDR")
}
