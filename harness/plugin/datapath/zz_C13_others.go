//go:build verif

package datapath

import (
	"context"
	"net"

	"github.com/vishvananda/netlink"

	zz "github.com/AliyunContainerService/terway/internal/zzverif"
	"github.com/AliyunContainerService/terway/plugin/driver/nic"
	"github.com/AliyunContainerService/terway/plugin/driver/types"
	"github.com/AliyunContainerService/terway/plugin/driver/utils"
	terwayTypes "github.com/AliyunContainerService/terway/types"
)

func zzFam(ip net.IP) bool { return ip.To4() == nil } // true: IPv6

// zzCheckPodSide: the routing intent of the configuration programmed inside
// the pod for the datapaths whose pod interface is attached to the ENI
// directly (exclusive ENI, ipvlan, vlan).
//   - per family with an address: exactly one address (the pod's), exactly
//     one main-table default route iff this interface carries the default
//     route, via the family's gateway on this interface;
//   - multi-network: replies leave through the interface that owns the
//     address: a source rule for the pod address and an oif rule, both to the
//     interface's own table, whose default route uses the same gateway;
//   - nothing at all for a family without an address.
func zzCheckPodSide(c *nic.Conf, cfg *types.SetupConfig, has4, has6 bool, idx int, maxMaskAddr bool) {
	table := utils.GetRouteTableID(idx)
	for _, v6 := range []bool{false, true} {
		enabled := (v6 && has6) || (!v6 && has4)
		var pod, gw net.IP
		if enabled && v6 {
			pod, gw = cfg.ContainerIPNet.IPv6.IP, cfg.GatewayIP.IPv6
		} else if enabled {
			pod, gw = cfg.ContainerIPNet.IPv4.IP, cfg.GatewayIP.IPv4
		}
		nDef, nTableDef, nAddr, nSrcRule := 0, 0, 0, 0
		for _, r := range c.Routes {
			if r.Dst == nil || zzFam(r.Dst.IP) != v6 {
				continue
			}
			extra := false
			for i := range cfg.ExtraRoutes {
				extra = extra || r.Dst == &cfg.ExtraRoutes[i].Dst
			}
			if extra {
				continue // routes listed in the CNI configuration are programmed as configured
			}
			zz.Assert(enabled, "no route of a family without address is programmed in the pod")
			zz.Assert(r.LinkIndex == idx, "every pod route uses the pod's interface")
			if zzIsDefault(r.Dst, v6) {
				zz.Assert(enabled && r.Gw != nil && zzIPEq(r.Gw.To16(), gw.To16()), "a default route goes via the gateway of the interface that owns the address")
				if r.Table == 0 {
					nDef++
				} else {
					zz.Assert(r.Table == table && cfg.MultiNetwork, "a per-interface table is only used for multi-network pods and is this interface's table")
					nTableDef++
				}
			}
		}
		for _, a := range c.Addrs {
			if zzFam(a.IP) != v6 {
				continue
			}
			nAddr++
			zz.Assert(enabled && zzIPEq(a.IP.To16(), pod.To16()), "the address configured in the pod is the pod's address")
			if maxMaskAddr {
				ones, bits := a.Mask.Size()
				zz.Assert(ones == bits, "the pod address is configured as a host address")
			}
		}
		for _, r := range c.Rules {
			if r.Src == nil || zzFam(r.Src.IP) != v6 {
				continue
			}
			nSrcRule++
			zz.Assert(enabled && cfg.MultiNetwork && zzIsHostPrefix(r.Src, r.Src.IP) && zzIPEq(r.Src.IP.To16(), pod.To16()) && r.Table == table && r.Priority == toContainerPriority, "the source rule selects exactly the pod address and this interface's table")
		}
		wantDef, wantOne, wantMulti := 0, 0, 0
		if enabled {
			wantOne = 1
			if cfg.DefaultRoute {
				wantDef = 1
			}
			if cfg.MultiNetwork {
				wantMulti = 1
			}
		}
		zz.Assert(nDef == wantDef, "exactly one default route per family that has an address (none when the interface does not carry the default route or the family is disabled)")
		zz.Assert(nAddr == wantOne, "one address per enabled family, none for a disabled one")
		zz.Assert(nSrcRule == wantMulti && nTableDef == wantMulti, "a multi-network pod gets one source rule and one per-interface default route per enabled family")
	}
	nOif := 0
	for _, r := range c.Rules {
		if r.Src == nil {
			nOif++
			zz.Assert(cfg.MultiNetwork && r.OifName == cfg.ContainerIfName && r.Table == table && r.Priority == toContainerPriority, "the interface rule sends traffic bound to this interface to its own table")
		}
	}
	zz.Assert((nOif == 1) == cfg.MultiNetwork && nOif <= 1, "one interface rule for multi-network pods, none otherwise")
	zz.Assert((c.SysCtl != nil) == has6, "IPv6 sysctls only for pods with an IPv6 address")
	zz.Assert(c.IfName == cfg.ContainerIfName && c.MTU == cfg.MTU, "interface name and MTU are taken from the configuration")
}

func zzHostIPs(cfg *types.SetupConfig, has4, has6 bool) {
	if has4 {
		cfg.HostIPSet.IPv4 = &net.IPNet{IP: zzV4("host4"), Mask: net.CIDRMask(24, 32)}
	}
	if has6 {
		cfg.HostIPSet.IPv6 = &net.IPNet{IP: zzV6("host6"), Mask: net.CIDRMask(64, 128)}
	}
}

// zzHostRoutesToPod: the host-side link carries exactly one link-scope host
// route per enabled family, to the pod's address - traffic for the pod is
// delivered to the pod's interface, nothing for a disabled family.
func zzHostRoutesToPod(c *nic.Conf, cfg *types.SetupConfig, has4, has6 bool, idx int) {
	for _, v6 := range []bool{false, true} {
		enabled := (v6 && has6) || (!v6 && has4)
		n := 0
		for _, r := range c.Routes {
			if r.Dst == nil || zzFam(r.Dst.IP) != v6 {
				continue
			}
			n++
			pod := cfg.ContainerIPNet.IPv4
			if v6 {
				pod = cfg.ContainerIPNet.IPv6
			}
			zz.Assert(enabled && pod != nil && zzIsHostPrefix(r.Dst, r.Dst.IP) && zzIPEq(r.Dst.IP.To16(), pod.IP.To16()) && r.LinkIndex == idx && r.Scope == netlink.SCOPE_LINK && r.Gw == nil, "the host reaches the pod through a link-scope host route to exactly the pod address on the pod's link")
		}
		want := 0
		if enabled {
			want = 1
		}
		zz.Assert(n == want, "one host route to the pod per enabled family, none for a disabled one")
	}
}

// C13, exclusive-ENI datapath (configuration level).
func ZZ_C13_exclusive_eni() {
	cfg, has4, has6 := zzSetupCfg()
	zzHostIPs(cfg, has4, has6)
	idx := zz.IntRange("eni.index", 1, 1<<20)
	eni := &netlink.Device{LinkAttrs: netlink.LinkAttrs{Index: idx, Name: "eth1"}}
	c := generateContCfgForExclusiveENI(cfg, eni)
	zzCheckPodSide(c, cfg, has4, has6, idx, !cfg.MultiNetwork)
	// the gateway of an IPv6 pod is reachable on-link
	nGwRoute := 0
	for _, r := range c.Routes {
		if r.Dst != nil && has6 && zzIsHostPrefix(r.Dst, cfg.GatewayIP.IPv6) && r.Scope == netlink.SCOPE_LINK {
			nGwRoute++
		}
	}
	zz.Assert(zz.Implies(has6, nGwRoute >= 1), "an IPv6 pod has an on-link route to its gateway")

	// host <-> pod path over the auxiliary veth pair
	hIdx := zz.IntRange("hostveth.index", 1, 1<<20)
	host := generateHostSlaveCfg(cfg, &netlink.Veth{LinkAttrs: netlink.LinkAttrs{Index: hIdx, Name: cfg.HostVETHName}})
	zzHostRoutesToPod(host, cfg, has4, has6, hIdx)
	zz.Assert(host.IfName == cfg.HostVETHName && (host.SysCtl != nil) == has6, "the host end keeps its name; IPv6 sysctls only with IPv6")
	for _, a := range host.Addrs {
		zz.Assert(zz.Implies(zzFam(a.IP), has6) && zz.Implies(!zzFam(a.IP), has4), "no link address of a disabled family on the host end")
	}
	vIdx := zz.IntRange("veth1.index", 1, 1<<20)
	mac := net.HardwareAddr{0xee, 0xff, 0xff, 0xff, 0xff, 0xff}
	v1 := generateVeth1Cfg(cfg, &netlink.Veth{LinkAttrs: netlink.LinkAttrs{Index: vIdx, Name: "veth1"}}, mac)
	for _, r := range v1.Routes {
		zz.Assert(r.LinkIndex == vIdx, "routes of the auxiliary interface use that interface")
		if r.Dst != nil {
			zz.Assert(!zzIsDefault(r.Dst, zzFam(r.Dst.IP)), "the auxiliary interface never carries a default route")
			zz.Assert(zz.Implies(zzFam(r.Dst.IP), has6) && zz.Implies(!zzFam(r.Dst.IP), has4), "no route of a disabled family on the auxiliary interface")
		}
	}
	n4, n6 := 0, 0
	for _, n := range v1.Neighs {
		if zzFam(n.IP) {
			n6++
		} else {
			n4++
		}
		zz.Assert(n.State == netlink.NUD_PERMANENT && n.LinkIndex == vIdx, "the host end is a permanent neighbour on the auxiliary interface")
	}
	zz.Assert((n4 == 1) == has4 && (n6 == 1) == has6 && n4 <= 1 && n6 <= 1, "one permanent neighbour per enabled family")
}

// C13, ipvlan datapath (configuration level).
func ZZ_C13_ipvlan() {
	cfg, has4, has6 := zzSetupCfg()
	zzHostIPs(cfg, has4, has6)
	idx := zz.IntRange("ipvl.index", 1, 1<<20)
	mac := net.HardwareAddr{0x02, 0x00, 0x00, 0x00, 0x00, 0x01}
	link := &netlink.IPVlan{LinkAttrs: netlink.LinkAttrs{Index: idx, Name: "eth0", HardwareAddr: mac}}
	// extra routes are not programmed by this datapath
	cfg.ExtraRoutes = nil
	c := generateContCfgForIPVlan(cfg, link)
	zzCheckPodSide(c, cfg, has4, has6, idx, cfg.StripVlan)
	// host address reachable on-link with a permanent neighbour, per enabled family only
	for _, v6 := range []bool{false, true} {
		enabled := (v6 && has6) || (!v6 && has4)
		nHostNeigh, nGwNeigh := 0, 0
		for _, n := range c.Neighs {
			if zzFam(n.IP) != v6 {
				continue
			}
			zz.Assert(enabled && n.State == netlink.NUD_PERMANENT && n.LinkIndex == idx, "neighbours only for enabled families, permanent, on the pod interface")
			host, gw := cfg.HostIPSet.IPv4, cfg.GatewayIP.IPv4
			if v6 {
				host, gw = cfg.HostIPSet.IPv6, cfg.GatewayIP.IPv6
			}
			if zzIPEq(n.IP.To16(), host.IP.To16()) {
				nHostNeigh++
			} else if zzIPEq(n.IP.To16(), gw.To16()) {
				nGwNeigh++
			}
		}
		if enabled {
			zz.Assert(nHostNeigh >= 1, "the host address is a permanent neighbour of the pod")
			zz.Assert(zz.Implies(cfg.StripVlan, nGwNeigh >= 1 || nHostNeigh >= 2), "on a trunk the gateway is a permanent neighbour")
		}
	}
	sIdx := zz.IntRange("slave.index", 1, 1<<20)
	slave := generateSlaveLinkCfgForIPVlan(cfg, &netlink.IPVlan{LinkAttrs: netlink.LinkAttrs{Index: sIdx, Name: "ipvl_1"}})
	zzHostRoutesToPod(slave, cfg, has4, has6, sIdx)
	eniCfg := generateENICfgForIPVlan(cfg, &netlink.Device{LinkAttrs: netlink.LinkAttrs{Index: 2, Name: "eth1"}})
	zz.Assert(eniCfg.StripVlan == cfg.StripVlan && (eniCfg.SysCtl != nil) == has6 && len(eniCfg.Routes) == 0 && len(eniCfg.Addrs) == 0, "the ENI itself gets no addresses or routes; VLAN stripping follows the trunk flag")
}

// C13, vlan datapath (configuration level).
func ZZ_C13_vlan() {
	cfg, has4, has6 := zzSetupCfg()
	idx := zz.IntRange("vlan.index", 1, 1<<20)
	link := &netlink.Vlan{LinkAttrs: netlink.LinkAttrs{Index: idx, Name: "eth0"}}
	c := generateContCfgForVlan(cfg, link)
	zzCheckPodSide(c, cfg, has4, has6, idx, false)
	e := generateENICfgForVlan(cfg)
	zz.Assert(e.MTU == cfg.MTU && len(e.Routes) == 0 && len(e.Addrs) == 0 && len(e.Rules) == 0, "the trunk interface only gets its MTU")
	_ = terwayTypes.IPSet{}
}

// C13 teardown, ipvlan datapath: the host routes that setup programmed for
// the pod (one link-scope host route per family on the ipvl slave) are found
// and deleted by teardown through selectors that name exactly the pod's own
// address as a host prefix - the routes of another pod on the same interface
// are never selected; nothing is looked up for a family the pod does not have.
// zz:noreplay the kernel route table and link operations are replaced through engine-side overrides
func ZZ_C13_ipvlan_teardown() {
	cfg, has4, has6 := zzSetupCfg()
	zzHostIPs(cfg, has4, has6)
	sIdx := 7
	slave := generateSlaveLinkCfgForIPVlan(cfg, &netlink.IPVlan{LinkAttrs: netlink.LinkAttrs{Index: sIdx, Name: "ipvl_1"}})
	// the kernel's table: this pod's routes and those of another pod on the same slave link
	other4 := &net.IPNet{IP: zzV4("other4"), Mask: net.CIDRMask(32, 32)}
	other6 := &net.IPNet{IP: zzV6("other6"), Mask: net.CIDRMask(128, 128)}
	if has4 {
		zz.Assume(!zzIPEq(other4.IP, cfg.ContainerIPNet.IPv4.IP))
	}
	if has6 {
		zz.Assume(!zzIPEq(other6.IP, cfg.ContainerIPNet.IPv6.IP))
	}
	table := []netlink.Route{{LinkIndex: sIdx, Scope: netlink.SCOPE_LINK, Dst: other4}, {LinkIndex: sIdx, Scope: netlink.SCOPE_LINK, Dst: other6}}
	for _, r := range slave.Routes {
		table = append(table, *r)
	}
	var lookups []*net.IPNet
	var deleted []netlink.Route
	zz.Override("github.com/AliyunContainerService/terway/plugin/driver/utils.FoundRoutes", func(expected *netlink.Route) ([]netlink.Route, error) {
		lookups = append(lookups, expected.Dst)
		zz.Assert(expected.LinkIndex == 0 && expected.Gw == nil && expected.Table == 0, "the lookup is by destination only")
		var out []netlink.Route
		for _, r := range table {
			if r.Dst.Mask.String() == expected.Dst.Mask.String() && zzIPEq(r.Dst.IP.To16(), expected.Dst.IP.To16()) {
				out = append(out, r)
			}
		}
		return out, nil
	})
	zz.Override("github.com/AliyunContainerService/terway/plugin/driver/utils.RouteDel", func(ctx context.Context, route *netlink.Route) error {
		deleted = append(deleted, *route)
		return nil
	})
	zz.Override("github.com/AliyunContainerService/terway/plugin/driver/utils.DelLinkByName", func(ctx context.Context, name string) error { return nil })
	d := &IPvlanDriver{}
	err := d.Teardown(context.Background(), &types.TeardownCfg{HostVETHName: "cali1234", ContainerIPNet: cfg.ContainerIPNet, ENIIndex: 0}, nil)
	zz.Assert(err == nil, "teardown succeeds when the kernel calls succeed")
	want := 0
	if has4 {
		want++
	}
	if has6 {
		want++
	}
	zz.Assert(len(lookups) == want && len(deleted) == want, "one lookup and one deletion per family the pod has")
	for _, n := range lookups {
		pod := cfg.ContainerIPNet.IPv4
		if zzFam(n.IP) {
			pod = cfg.ContainerIPNet.IPv6
		}
		zz.Assert(pod != nil && zzIsHostPrefix(n, n.IP) && zzIPEq(n.IP.To16(), pod.IP.To16()), "teardown only ever selects routes to this pod's own address")
	}
	for _, r := range slave.Routes {
		n := 0
		for _, dr := range deleted {
			if dr.Dst.Mask.String() == r.Dst.Mask.String() && zzIPEq(dr.Dst.IP.To16(), r.Dst.IP.To16()) {
				n++
			}
		}
		zz.Assert(n == 1, "every host route that setup generated for the pod is deleted exactly once")
	}
	for _, dr := range deleted {
		zz.Assert(!(zzIPEq(dr.Dst.IP.To16(), other4.IP.To16()) || zzIPEq(dr.Dst.IP.To16(), other6.IP.To16())), "a route of another pod is never deleted")
	}
}
