//go:build verif

package datapath

import (
	"context"
	"net"

	cniTypes "github.com/containernetworking/cni/pkg/types"
	"github.com/vishvananda/netlink"
	"golang.org/x/sys/unix"

	zz "github.com/AliyunContainerService/terway/internal/zzverif"
	"github.com/AliyunContainerService/terway/plugin/driver/types"
	"github.com/AliyunContainerService/terway/plugin/driver/utils"
	terwayTypes "github.com/AliyunContainerService/terway/types"
)

func zzV4(name string) net.IP {
	return net.IP{zz.Uint8(name + ".0"), zz.Uint8(name + ".1"), zz.Uint8(name + ".2"), zz.Uint8(name + ".3")}
}

func zzV6(name string) net.IP {
	ip := make(net.IP, 16)
	ip[0], ip[1] = 0xfd, 0x00
	ip[14], ip[15] = zz.Uint8(name+".14"), zz.Uint8(name+".15")
	return ip
}

func zzIPEq(a, b net.IP) bool {
	if len(a) != len(b) {
		return false
	}
	ok := true
	for i := range a {
		ok = zz.And(ok, a[i] == b[i])
	}
	return ok
}

func zzIsHostPrefix(n *net.IPNet, ip net.IP) bool {
	if n == nil {
		return false
	}
	ones, bits := n.Mask.Size()
	return ones == bits && bits == 8*len(ip) && zzIPEq(n.IP, ip)
}

func zzIsDefault(n *net.IPNet, v6 bool) bool {
	if n == nil {
		return false
	}
	ones, bits := n.Mask.Size()
	return ones == 0 && ((v6 && bits == 128) || (!v6 && bits == 32))
}

// zzSetupCfg: symbolic pod addresses, gateways and options for one pod on a shared ENI.
func zzSetupCfg() (*types.SetupConfig, bool, bool) {
	fam := zz.Fork("family", 3) // 0 IPv4, 1 IPv6, 2 dual
	has4, has6 := fam != 1, fam != 0
	cfg := &types.SetupConfig{ContainerIfName: "eth0", HostVETHName: "cali1234", MTU: 1500,
		ContainerIPNet: &terwayTypes.IPNetSet{}, GatewayIP: &terwayTypes.IPSet{}, ENIGatewayIP: &terwayTypes.IPSet{}, HostIPSet: &terwayTypes.IPNetSet{},
		DefaultRoute: zz.Bool("defaultRoute"), MultiNetwork: zz.Bool("multiNetwork"), StripVlan: zz.Bool("trunk")}
	if has4 {
		cfg.ContainerIPNet.IPv4 = &net.IPNet{IP: zzV4("pod4"), Mask: net.CIDRMask(24, 32)}
		cfg.GatewayIP.IPv4 = zzV4("gw4")
		cfg.ENIGatewayIP.IPv4 = zzV4("enigw4")
	}
	if has6 {
		cfg.ContainerIPNet.IPv6 = &net.IPNet{IP: zzV6("pod6"), Mask: net.CIDRMask(64, 128)}
		cfg.GatewayIP.IPv6 = zzV6("gw6")
		cfg.ENIGatewayIP.IPv6 = zzV6("enigw6")
	}
	if zz.Bool("extraRoute") {
		_, dst, _ := net.ParseCIDR("192.168.0.0/16")
		cfg.ExtraRoutes = []cniTypes.Route{{Dst: *dst}}
	}
	return cfg, has4, has6
}

// C13 (configuration level), policy-route datapath, host side: traffic to the
// pod address is steered (priority 512, main table) to a host route on the
// pod's veth; traffic sourced from the pod address is steered (priority 2048)
// to the ENI's table, whose default route leaves through that ENI via the
// ENI's gateway (the trunk ENI's own gateway for trunk pods); nothing is
// created for a disabled family.
func ZZ_C13_policy_host_side() {
	cfg, has4, has6 := zzSetupCfg()
	vethIdx, eniIdx := zz.IntRange("veth.index", 1, 1<<20), zz.IntRange("eni.index", 1, 1<<20)
	veth := &netlink.Veth{LinkAttrs: netlink.LinkAttrs{Index: vethIdx, Name: "cali1234"}}
	eni := &netlink.Device{LinkAttrs: netlink.LinkAttrs{Index: eniIdx, Name: "eth1"}}
	table := utils.GetRouteTableID(eniIdx)

	host := GenerateHostPeerCfgForPolicy(cfg, veth, table)
	eniCfg := GenerateENICfgForPolicy(cfg, eni, table)

	for _, v6 := range []bool{false, true} {
		enabled := (v6 && has6) || (!v6 && has4)
		var pod, gw net.IP
		if enabled {
			if v6 {
				pod, gw = cfg.ContainerIPNet.IPv6.IP, cfg.GatewayIP.IPv6
				if cfg.StripVlan {
					gw = cfg.ENIGatewayIP.IPv6
				}
			} else {
				pod, gw = cfg.ContainerIPNet.IPv4.IP, cfg.GatewayIP.IPv4
				if cfg.StripVlan {
					gw = cfg.ENIGatewayIP.IPv4
				}
			}
		}
		// host veth: route to the pod, rules to / from the pod
		nRoute, nTo, nFrom := 0, 0, 0
		for _, r := range host.Routes {
			isFam := (r.Dst.IP.To4() == nil) == v6
			if !isFam {
				continue
			}
			nRoute++
			zz.Assert(enabled && zzIsHostPrefix(r.Dst, pod) && r.LinkIndex == vethIdx && r.Scope == netlink.SCOPE_LINK && r.Table == 0, "the host route for the pod address is a /32 (/128) link route in the main table on the pod's host-side interface")
		}
		for _, r := range host.Rules {
			n := r.Dst
			if n == nil {
				n = r.Src
			}
			if (n.IP.To4() == nil) != v6 {
				continue
			}
			if r.Dst != nil {
				nTo++
				zz.Assert(enabled && r.Priority == 512 && zzIsHostPrefix(r.Dst, pod) && r.Table == unix.RT_TABLE_MAIN && r.Src == nil, "traffic to the pod address is looked up in the main table at priority 512")
			} else {
				nFrom++
				zz.Assert(enabled && r.Priority == 2048 && zzIsHostPrefix(r.Src, pod) && r.Table == table, "traffic sourced from the pod address is looked up in the table of the interface that owns the address at priority 2048")
			}
		}
		want := 0
		if enabled {
			want = 1
		}
		zz.Assert(nRoute == want && nTo == want && nFrom == want, "exactly one host route and one rule pair per enabled family, none for a disabled family")
		// ENI table: one default route via the ENI's gateway
		nDef := 0
		for _, r := range eniCfg.Routes {
			if (r.Dst.IP.To4() == nil) != v6 {
				continue
			}
			zz.Assert(enabled, "nothing is programmed on the ENI for a disabled family")
			if zzIsDefault(r.Dst, v6) {
				nDef++
				zz.Assert(r.Table == table && r.LinkIndex == eniIdx && zzIPEq(r.Gw, gw) && r.Flags&int(netlink.FLAG_ONLINK) != 0, "the ENI table's default route leaves through that ENI via its gateway (the trunk ENI's gateway for trunk pods)")
			} else {
				zz.Assert(v6 && zzIsHostPrefix(r.Dst, gw) && r.LinkIndex == eniIdx, "the only other ENI route is the on-link route to the IPv6 gateway")
			}
		}
		zz.Assert(nDef == want, "exactly one default route per enabled family in the ENI table")
	}
	zz.Assert((host.SysCtl != nil) == has6 && (eniCfg.SysCtl != nil) == has6, "IPv6 sysctls are only written when the pod has an IPv6 address")
	zz.Assert(eniCfg.StripVlan == cfg.StripVlan, "VLAN stripping follows the trunk flag")
}

// C13, pod side: exactly one default route per family that has an address
// (when this interface carries the default route), none for a family without
// address; the gateway is the link-local next hop with a permanent neighbour.
func ZZ_C13_policy_pod_side() {
	cfg, has4, has6 := zzSetupCfg()
	idx := zz.IntRange("cont.index", 1, 1<<20)
	link := &netlink.Veth{LinkAttrs: netlink.LinkAttrs{Index: idx, Name: "eth0"}}
	mac := net.HardwareAddr{0xee, 0xff, 0xff, 0xff, 0xff, 0xff}
	c := generateContCfgForPolicy(cfg, link, mac)
	for _, v6 := range []bool{false, true} {
		enabled := (v6 && has6) || (!v6 && has4)
		nDef, nNeigh, nAddr := 0, 0, 0
		for _, r := range c.Routes {
			if r.Dst == nil || (r.Dst.IP.To4() == nil) != v6 {
				continue
			}
			if zzIsDefault(r.Dst, v6) && r.Table == 0 {
				nDef++
				zz.Assert(enabled && cfg.DefaultRoute && r.LinkIndex == idx && r.Gw != nil, "the pod's default route uses this interface and a gateway")
			}
			if !enabled {
				zz.Assert(!(r.Gw == nil && r.Scope == netlink.SCOPE_UNIVERSE), "no route of a disabled family is programmed in the pod")
			}
		}
		for _, n := range c.Neighs {
			if (n.IP.To4() == nil) == v6 {
				nNeigh++
			}
		}
		for _, a := range c.Addrs {
			if (a.IP.To4() == nil) == v6 {
				nAddr++
				ones, bits := a.Mask.Size()
				zz.Assert(ones == bits, "the pod address is configured as a host address")
			}
		}
		wantDef := 0
		if enabled && cfg.DefaultRoute {
			wantDef = 1
		}
		zz.Assert(nDef == wantDef, "exactly one default route per family that has an address (none when the interface does not carry the default route or the family is disabled)")
		wantOne := 0
		if enabled {
			wantOne = 1
		}
		zz.Assert(nNeigh == wantOne && nAddr == wantOne, "one address and one permanent gateway neighbour per enabled family, none for a disabled one")
	}
	zz.Assert((c.SysCtl != nil) == has6, "IPv6 sysctls only for pods with an IPv6 address")
	zz.Assert(c.IfName == "eth0" && c.MTU == 1500, "interface name and MTU are taken from the configuration")
}

// C13 teardown: the rule selectors used by teardown match exactly the host
// rules that setup generated for this pod's addresses (same priority, same
// /32 or /128), and never name another address.
// zz:noreplay netlink (rule listing / deletion, link deletion) is summarised through engine-side overrides
func ZZ_C13_policy_teardown_selectors() {
	cfg, has4, has6 := zzSetupCfg()
	veth := &netlink.Veth{LinkAttrs: netlink.LinkAttrs{Index: 9, Name: "cali1234"}}
	host := GenerateHostPeerCfgForPolicy(cfg, veth, 1009)
	var templates []*netlink.Rule
	zz.Override("github.com/AliyunContainerService/terway/plugin/driver/utils.FindIPRule", func(rule *netlink.Rule) ([]netlink.Rule, error) {
		templates = append(templates, rule)
		return nil, nil
	})
	zz.Override("github.com/AliyunContainerService/terway/plugin/driver/utils.DelLinkByName", func(ctx context.Context, name string) error { return nil })
	p := &PolicyRoute{}
	err := p.Teardown(context.Background(), &types.TeardownCfg{HostVETHName: "cali1234", ContainerIPNet: cfg.ContainerIPNet, ENIIndex: 0}, nil)
	zz.Assert(err == nil, "teardown succeeds when the kernel calls succeed")
	want := 0
	if has4 {
		want += 2
	}
	if has6 {
		want += 2
	}
	zz.Assert(len(templates) == want, "teardown looks up one to-pod and one from-pod rule per family the pod has")
	for _, r := range host.Rules {
		matched := 0
		for _, t := range templates {
			if t.Priority != r.Priority {
				continue
			}
			if r.Dst != nil && t.Dst != nil && zzIPEq(t.Dst.IP, r.Dst.IP) && t.Dst.Mask.String() == r.Dst.Mask.String() {
				matched++
			}
			if r.Src != nil && t.Src != nil && zzIPEq(t.Src.IP, r.Src.IP) && t.Src.Mask.String() == r.Src.Mask.String() {
				matched++
			}
		}
		zz.Assert(matched == 1, "every host rule that setup generated for the pod is selected by exactly one teardown lookup")
	}
	for _, t := range templates {
		n := t.Dst
		if n == nil {
			n = t.Src
		}
		pod := cfg.ContainerIPNet.IPv4
		if n.IP.To4() == nil {
			pod = cfg.ContainerIPNet.IPv6
		}
		zz.Assert(pod != nil && zzIsHostPrefix(n, pod.IP) && (t.Priority == 512 || t.Priority == 2048), "teardown only ever selects rules of this pod's own addresses at the two pod priorities")
	}
}
