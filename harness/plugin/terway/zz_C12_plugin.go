//go:build verif

package main

import (
	"github.com/containernetworking/cni/pkg/skel"

	zz "github.com/AliyunContainerService/terway/internal/zzverif"
	"github.com/AliyunContainerService/terway/plugin/driver/types"
	"github.com/AliyunContainerService/terway/rpc"
)

// C12(d): the datapath is a total function of IP type, VLAN mode and trunking only.
func ZZ_C12_datapath_total() {
	ipType := []rpc.IPType{rpc.IPType_TypeVPCIP, rpc.IPType_TypeVPCENI, rpc.IPType_TypeENIMultiIP}[zz.Fork("iptype", 3)]
	strip := types.VlanStripType(zz.OneOf("strip", "", string(types.VlanStripTypeFilter), string(types.VlanStripTypeVlan), "junk"))
	trunk := zz.Bool("trunk")
	// an earlier interface of the same ADD/CHECK (same process) may have had other flags: the selection has no memory
	_ = getDatePath(ipType, types.VlanStripType(zz.OneOf("prev.strip", "", string(types.VlanStripTypeFilter), string(types.VlanStripTypeVlan))), zz.Bool("prev.trunk"))
	dp := getDatePath(ipType, strip, trunk)
	dp2 := getDatePath(ipType, strip, trunk)
	zz.Assert(dp == dp2, "the datapath is determined solely by IP type, VLAN mode and trunking")
	switch ipType {
	case rpc.IPType_TypeVPCIP:
		zz.Assert(dp == types.VPCRoute, "VPC IP uses the VPC route datapath")
	case rpc.IPType_TypeVPCENI:
		zz.Assert(dp == types.DataPath(zz.IteInt(trunk, int(types.Vlan), int(types.ExclusiveENI))), "exclusive ENI: vlan datapath iff trunking")
	case rpc.IPType_TypeENIMultiIP:
		zz.Assert(dp == types.DataPath(zz.IteInt(zz.And(trunk, strip == types.VlanStripTypeVlan), int(types.Vlan), int(types.IPVlan))), "shared ENI: vlan datapath iff trunking with vlan mode, else ipvlan/policy")
	}
}

// C12(d): the plugin recovers exactly the addresses, routes and limits the daemon sent.
func ZZ_C12_parse_setup_conf() {
	ingress, egress := zz.Uint64("pod.ingress"), zz.Uint64("pod.egress")
	rateIn, rateOut := zz.IntRange("rt.ingress", -1, 1<<40), zz.IntRange("rt.egress", -1, 1<<40)
	defRoute := zz.Bool("defaultRoute")
	vid := zz.Uint32("vid")
	trunk := zz.Bool("trunk")
	erdma := zz.Bool("erdma")
	dual := zz.Bool("dual")
	alloc := &rpc.NetConf{
		BasicInfo: &rpc.BasicInfo{
			PodIP:       &rpc.IPSet{IPv4: "10.1.2.3"},
			PodCIDR:     &rpc.IPSet{IPv4: "10.1.0.0/16"},
			GatewayIP:   &rpc.IPSet{IPv4: "10.1.255.253"},
			ServiceCIDR: &rpc.IPSet{IPv4: "172.16.0.0/12"},
		},
		ENIInfo:      &rpc.ENIInfo{Trunk: trunk, Vid: vid, ERDMA: erdma, GatewayIP: &rpc.IPSet{IPv4: "10.1.255.253"}},
		Pod:          &rpc.Pod{Ingress: ingress, Egress: egress, NetworkPriority: zz.OneOf("prio", "", "best-effort", "burstable", "guaranteed")},
		IfName:       zz.OneOf("ifname", "", "eth1"),
		DefaultRoute: defRoute,
		ExtraRoutes:  []*rpc.Route{{Dst: "192.168.0.0/24"}},
	}
	if dual {
		alloc.BasicInfo.PodIP.IPv6 = "fd00::3"
		alloc.BasicInfo.PodCIDR.IPv6 = "fd00::/64"
		alloc.BasicInfo.GatewayIP.IPv6 = "fd00::ffff:ffff:ffff:fffd"
		alloc.ExtraRoutes = append(alloc.ExtraRoutes, &rpc.Route{Dst: "fd01::/64"})
	}
	conf := &types.CNIConf{MTU: 1500}
	conf.RuntimeConfig.Bandwidth.IngressRate = rateIn
	conf.RuntimeConfig.Bandwidth.EgressRate = rateOut
	ipType := []rpc.IPType{rpc.IPType_TypeVPCENI, rpc.IPType_TypeENIMultiIP}[zz.Fork("iptype", 2)]
	sc, err := parseSetupConf(&skel.CmdArgs{IfName: "eth0"}, alloc, conf, ipType)
	zz.Assert(err == nil && sc != nil, "a well-formed daemon reply is accepted")
	zz.Assert(sc.ContainerIPNet.IPv4.IP.String() == "10.1.2.3", "the IPv4 address is the daemon's pod IP")
	ones, bits := sc.ContainerIPNet.IPv4.Mask.Size()
	zz.Assert(ones == 16 && bits == 32, "the IPv4 address carries the daemon's subnet mask")
	zz.Assert(sc.GatewayIP.IPv4.String() == "10.1.255.253", "the gateway is the daemon's gateway")
	zz.Assert((sc.ContainerIPNet.IPv6 != nil) == dual, "IPv6 is configured exactly when the daemon sent an IPv6 address")
	if dual {
		zz.Assert(sc.ContainerIPNet.IPv6.IP.String() == "fd00::3" && sc.GatewayIP.IPv6.String() == "fd00::ffff:ffff:ffff:fffd", "the IPv6 address and gateway are the daemon's")
		zz.Assert(len(sc.ExtraRoutes) == 2 && sc.ExtraRoutes[1].GW.Equal(sc.GatewayIP.IPv6), "an IPv6 extra route uses the IPv6 gateway")
	}
	zz.Assert(sc.ExtraRoutes[0].Dst.String() == "192.168.0.0/24" && sc.ExtraRoutes[0].GW.Equal(sc.GatewayIP.IPv4), "an IPv4 extra route keeps its destination and uses the IPv4 gateway")
	zz.Assert(sc.Ingress == uint64(zz.IteInt(rateIn > 0, rateIn/8, int(ingress))), "ingress limit: daemon's value unless the runtime override is positive (then rate/8)")
	zz.Assert(sc.Egress == uint64(zz.IteInt(rateOut > 0, rateOut/8, int(egress))), "egress limit: daemon's value unless the runtime override is positive (then rate/8)")
	zz.Assert(zz.And(sc.DefaultRoute == defRoute, sc.Vid == int(vid), sc.StripVlan == trunk, sc.ERDMA == erdma), "default-route flag, VLAN id, trunk flag and ERDMA are copied unchanged")
	zz.Assert(sc.ContainerIfName == zz.IteStr(alloc.IfName == "", "eth0", alloc.IfName), "the interface name is the daemon's, defaulting to the runtime's")
	zz.Assert(sc.DP == getDatePath(ipType, conf.VlanStripType, trunk), "the datapath follows from IP type, VLAN mode and trunking")
}

// C12(d), CHECK path: the periodic check verifies the same values the ADD
// programmed - addresses, gateways, default-route flag, interface name and
// datapath are recovered from the daemon's reply exactly as by the setup
// parser; a malformed address is refused.
func ZZ_C12_parse_check_conf() {
	defRoute := zz.Bool("defaultRoute")
	trunk := zz.Bool("trunk")
	dual := zz.Bool("dual")
	alloc := &rpc.NetConf{
		BasicInfo:    &rpc.BasicInfo{PodIP: &rpc.IPSet{IPv4: "10.1.2.3"}, PodCIDR: &rpc.IPSet{IPv4: "10.1.0.0/16"}, GatewayIP: &rpc.IPSet{IPv4: "10.1.255.253"}, ServiceCIDR: &rpc.IPSet{IPv4: "172.16.0.0/12"}},
		ENIInfo:      &rpc.ENIInfo{Trunk: trunk, GatewayIP: &rpc.IPSet{IPv4: "10.1.255.253"}},
		Pod:          &rpc.Pod{},
		IfName:       zz.OneOf("ifname", "", "eth1"),
		DefaultRoute: defRoute,
	}
	if dual {
		alloc.BasicInfo.PodIP.IPv6 = "fd00::3"
		alloc.BasicInfo.PodCIDR.IPv6 = "fd00::/64"
		alloc.BasicInfo.GatewayIP.IPv6 = "fd00::ffff:ffff:ffff:fffd"
	}
	bad := zz.Bool("malformed.address")
	if bad {
		alloc.BasicInfo.PodIP.IPv4 = "10.1.2"
	}
	conf := &types.CNIConf{MTU: 1500}
	ipType := []rpc.IPType{rpc.IPType_TypeVPCENI, rpc.IPType_TypeENIMultiIP}[zz.Fork("iptype", 2)]
	cc, err := parseCheckConf(&skel.CmdArgs{IfName: "eth0"}, alloc, conf, ipType)
	if bad {
		zz.Assert(err != nil && cc == nil, "a malformed address in the reply is refused")
		return
	}
	zz.Assert(err == nil && cc != nil, "a well-formed daemon reply is accepted")
	sc, err2 := parseSetupConf(&skel.CmdArgs{IfName: "eth0"}, alloc, conf, ipType)
	zz.Assert(err2 == nil && sc != nil, "the setup parser accepts the same reply")
	zz.Assert(cc.ContainerIPNet.IPv4.String() == sc.ContainerIPNet.IPv4.String() && cc.GatewayIP.IPv4.Equal(sc.GatewayIP.IPv4), "CHECK verifies the IPv4 address and gateway that ADD programmed")
	zz.Assert((cc.ContainerIPNet.IPv6 != nil) == dual, "IPv6 is checked exactly when the daemon sent an IPv6 address")
	if dual {
		zz.Assert(cc.ContainerIPNet.IPv6.String() == sc.ContainerIPNet.IPv6.String() && cc.GatewayIP.IPv6.Equal(sc.GatewayIP.IPv6), "CHECK verifies the IPv6 address and gateway that ADD programmed")
	}
	zz.Assert(cc.DP == sc.DP && cc.ContainerIfName == sc.ContainerIfName && cc.DefaultRoute == defRoute && cc.TrunkENI == trunk && cc.MTU == 1500, "datapath, interface name, default-route flag, trunk flag and MTU agree with the setup")
}
