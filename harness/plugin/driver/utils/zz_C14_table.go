//go:build verif

package utils

import (
	zz "github.com/AliyunContainerService/terway/internal/zzverif"
)

// C14(c): the routing-table number is 1000+ifindex and unique per interface.
func ZZ_C14_route_table() {
	i, j := zz.Int("i"), zz.Int("j")
	zz.Assert(GetRouteTableID(i) == 1000+i, "table id is 1000 + link index")
	zz.Assert(zz.Implies(i != j, GetRouteTableID(i) != GetRouteTableID(j)), "distinct interfaces get distinct routing tables")
}
