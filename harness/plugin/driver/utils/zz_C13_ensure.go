//go:build verif

package utils

import (
	"context"
	"net"

	"github.com/vishvananda/netlink"

	zz "github.com/AliyunContainerService/terway/internal/zzverif"
)

func zzSameNet(a, b *net.IPNet) bool {
	if a == nil || b == nil {
		return a == b
	}
	return a.IP.Equal(b.IP) && a.Mask.String() == b.Mask.String()
}

// zzKernelRules: the kernel's policy-rule list with the filter semantics of
// netlink.RuleListFiltered (a rule is returned when every field selected by
// the mask equals the template's) and add / delete.
type zzKernelRules struct {
	rules []netlink.Rule
}

func (k *zzKernelRules) install() {
	zz.Override("github.com/vishvananda/netlink.RuleListFiltered", func(family int, filter *netlink.Rule, mask uint64) ([]netlink.Rule, error) {
		var out []netlink.Rule
		for _, r := range k.rules {
			switch {
			case mask&netlink.RT_FILTER_SRC != 0 && !zzSameNet(r.Src, filter.Src):
			case mask&netlink.RT_FILTER_DST != 0 && !zzSameNet(r.Dst, filter.Dst):
			case mask&netlink.RT_FILTER_TABLE != 0 && filter.Table != 0 && r.Table != filter.Table:
			case mask&netlink.RT_FILTER_PRIORITY != 0 && filter.Priority >= 0 && r.Priority != filter.Priority:
			case mask&netlink.RT_FILTER_OIF != 0 && r.OifName != filter.OifName:
			default:
				out = append(out, r)
			}
		}
		return out, nil
	})
	zz.Override("github.com/vishvananda/netlink.RuleAdd", func(r *netlink.Rule) error {
		k.rules = append(k.rules, *r)
		return nil
	})
	zz.Override("github.com/vishvananda/netlink.RuleDel", func(r *netlink.Rule) error {
		for i := range k.rules {
			x := k.rules[i]
			if zzSameNet(x.Src, r.Src) && zzSameNet(x.Dst, r.Dst) && x.Table == r.Table && x.Priority == r.Priority {
				k.rules = append(k.rules[:i:i], k.rules[i+1:]...)
				return nil
			}
		}
		return nil
	})
}

// C13 (idempotent ensure-style application): after EnsureIPRule for the
// from-pod rule of an address, the kernel holds exactly one rule for that
// source at the pod priority and it points to the wanted table - whatever was
// there before: nothing, the same rule (second setup), or a left-over rule of
// a previous pod that held the address on another interface (its table is
// another one; equal-priority rules are evaluated in insertion order, so a
// left-over would keep winning).  Rules of other addresses are untouched.
// zz:noreplay the kernel's rule list is replaced through engine-side overrides
func ZZ_C13_ensure_rule() {
	v6 := zz.Bool("ipv6")
	mk := func(last byte) *net.IPNet {
		if v6 {
			ip := net.ParseIP("fd00::")
			ip[15] = last
			return &net.IPNet{IP: ip, Mask: net.CIDRMask(128, 128)}
		}
		return &net.IPNet{IP: net.IP{10, 0, 0, last}, Mask: net.CIDRMask(32, 32)}
	}
	pod, other := mk(5), mk(6)
	want := zz.IntRange("wanted.table", 1001, 1010)
	k := &zzKernelRules{}
	// another pod's rule, always present
	ro := netlink.NewRule()
	ro.Src, ro.Table, ro.Priority = other, zz.IntRange("other.table", 1001, 1010), 2048
	k.rules = append(k.rules, *ro)
	switch zz.Fork("before", 3) {
	case 1: // the same rule already exists
		r := netlink.NewRule()
		r.Src, r.Table, r.Priority = pod, want, 2048
		k.rules = append(k.rules, *r)
	case 2: // left-over of a previous pod on another interface
		r := netlink.NewRule()
		r.Src, r.Table, r.Priority = pod, zz.IntRange("stale.table", 1001, 1010), 2048
		zz.Assume(r.Table != want)
		k.rules = append(k.rules, *r)
	}
	k.install()
	exp := netlink.NewRule()
	exp.Src, exp.Table, exp.Priority = pod, want, 2048
	_, err := EnsureIPRule(context.Background(), exp)
	zz.Assert(err == nil, "ensuring the rule succeeds")
	nPod, nOther := 0, 0
	for _, r := range k.rules {
		if zzSameNet(r.Src, pod) && r.Priority == 2048 {
			nPod++
			zz.Assert(r.Table == want, "no rule for the pod address points to another table afterwards (a left-over of a previous holder of the address is removed)")
		}
		if zzSameNet(r.Src, other) {
			nOther++
			zz.Assert(r.Table == ro.Table && r.Priority == 2048, "the rule of another address is untouched")
		}
	}
	zz.Assert(nPod == 1 && nOther == 1, "exactly one from-rule for the pod address, and the other pod keeps its rule")
	// idempotence
	before := len(k.rules)
	changed, err2 := EnsureIPRule(context.Background(), exp)
	zz.Assert(err2 == nil && !changed && len(k.rules) == before, "ensuring again changes nothing")
}

// C13 (idempotent ensure-style application), routes: after EnsureRoute the
// kernel holds exactly one route for the destination in the wanted table and
// it is the wanted one (device, gateway, scope) - whatever was there before:
// nothing, the same route, or a route for the same destination through
// another device (left behind by a previous pod).  `ip route replace`
// semantics are modelled: a route with the same destination and table is
// replaced.
// zz:noreplay the kernel's route table is replaced through engine-side overrides
func ZZ_C13_ensure_route() {
	dst := &net.IPNet{IP: net.IP{10, 0, 0, 5}, Mask: net.CIDRMask(32, 32)}
	otherDst := &net.IPNet{IP: net.IP{10, 0, 0, 6}, Mask: net.CIDRMask(32, 32)}
	wantLink := zz.IntRange("wanted.link", 2, 9)
	table := []int{0, 1005}[zz.Fork("table", 2)]
	var kernel []netlink.Route
	kernel = append(kernel, netlink.Route{Dst: otherDst, LinkIndex: 3, Scope: netlink.SCOPE_LINK, Table: table})
	switch zz.Fork("before", 3) {
	case 1:
		kernel = append(kernel, netlink.Route{Dst: dst, LinkIndex: wantLink, Scope: netlink.SCOPE_LINK, Table: table})
	case 2:
		stale := zz.IntRange("stale.link", 2, 9)
		zz.Assume(stale != wantLink)
		kernel = append(kernel, netlink.Route{Dst: dst, LinkIndex: stale, Scope: netlink.SCOPE_LINK, Table: table})
	}
	zz.Override("github.com/vishvananda/netlink.RouteListFiltered", func(family int, filter *netlink.Route, mask uint64) ([]netlink.Route, error) {
		var out []netlink.Route
		for _, r := range kernel {
			switch {
			case mask&netlink.RT_FILTER_DST != 0 && !zzSameNet(r.Dst, filter.Dst):
			case mask&netlink.RT_FILTER_OIF != 0 && r.LinkIndex != filter.LinkIndex:
			case mask&netlink.RT_FILTER_SCOPE != 0 && r.Scope != filter.Scope:
			case mask&netlink.RT_FILTER_TABLE != 0 && r.Table != filter.Table:
			case mask&netlink.RT_FILTER_TABLE == 0 && r.Table != 0: // without a table filter only the main table is listed
			case mask&netlink.RT_FILTER_GW != 0 && !r.Gw.Equal(filter.Gw):
			default:
				out = append(out, r)
			}
		}
		return out, nil
	})
	zz.Override("github.com/vishvananda/netlink.RouteReplace", func(r *netlink.Route) error {
		var keep []netlink.Route
		for _, x := range kernel {
			if !(zzSameNet(x.Dst, r.Dst) && x.Table == r.Table) {
				keep = append(keep, x)
			}
		}
		kernel = append(keep, *r)
		return nil
	})
	exp := &netlink.Route{Dst: dst, LinkIndex: wantLink, Scope: netlink.SCOPE_LINK, Table: table}
	_, err := EnsureRoute(context.Background(), exp)
	zz.Assert(err == nil, "ensuring the route succeeds")
	n, nOther := 0, 0
	for _, r := range kernel {
		if zzSameNet(r.Dst, dst) && r.Table == table {
			n++
			zz.Assert(r.LinkIndex == wantLink && r.Scope == netlink.SCOPE_LINK, "the route for the pod address goes through the wanted device afterwards (a left-over through another device is replaced)")
		}
		if zzSameNet(r.Dst, otherDst) {
			nOther++
			zz.Assert(r.LinkIndex == 3, "the route of another address is untouched")
		}
	}
	zz.Assert(n == 1 && nOther == 1, "exactly one route for the destination; other routes stay")
	changed, err2 := EnsureRoute(context.Background(), exp)
	zz.Assert(err2 == nil && !changed, "ensuring again changes nothing")
}

// C13 (idempotent ensure-style application), addresses: after EnsureAddr the
// link carries exactly one global-unicast address of the wanted family and it
// is the wanted one - whatever was there before: nothing, the same address
// (second setup), the address of a previous holder of the link, or both.  The
// link-local address and the address of the other family stay.
// zz:noreplay the kernel's address list is replaced through engine-side overrides
func ZZ_C13_ensure_addr() {
	v6 := zz.Bool("ipv6")
	mk := func(last byte, v6 bool) *net.IPNet {
		if v6 {
			ip := net.ParseIP("fd00::")
			ip[15] = last
			return &net.IPNet{IP: ip, Mask: net.CIDRMask(128, 128)}
		}
		return &net.IPNet{IP: net.IP{10, 0, 0, last}, Mask: net.CIDRMask(32, 32)}
	}
	wantLast := zz.IntRange("want.last", 1, 200)
	want := mk(byte(wantLast), v6)
	otherFamily := mk(7, !v6)
	linkLocal := &net.IPNet{IP: net.ParseIP("fe80::1"), Mask: net.CIDRMask(64, 128)}
	var kernel []netlink.Addr
	kernel = append(kernel, netlink.Addr{IPNet: otherFamily}, netlink.Addr{IPNet: linkLocal})
	before := zz.Fork("before", 4)
	if before&1 != 0 { // address of a previous holder of the link
		staleLast := zz.IntRange("stale.last", 1, 200)
		zz.Assume(staleLast != wantLast)
		kernel = append(kernel, netlink.Addr{IPNet: mk(byte(staleLast), v6)})
	}
	if before&2 != 0 { // the wanted address is already there
		kernel = append(kernel, netlink.Addr{IPNet: want})
	}
	fam := func(a netlink.Addr) int { return NetlinkFamily(a.IP) }
	zz.Override("github.com/vishvananda/netlink.AddrList", func(link netlink.Link, family int) ([]netlink.Addr, error) {
		var out []netlink.Addr
		for _, a := range kernel {
			if family == netlink.FAMILY_ALL || fam(a) == family {
				out = append(out, a)
			}
		}
		return out, nil
	})
	zz.Override("github.com/vishvananda/netlink.AddrDel", func(link netlink.Link, addr *netlink.Addr) error {
		for i := range kernel {
			if zzSameNet(kernel[i].IPNet, addr.IPNet) {
				kernel = append(kernel[:i:i], kernel[i+1:]...)
				return nil
			}
		}
		return nil
	})
	zz.Override("github.com/vishvananda/netlink.AddrReplace", func(link netlink.Link, addr *netlink.Addr) error {
		for i := range kernel {
			if zzSameNet(kernel[i].IPNet, addr.IPNet) {
				kernel[i] = *addr
				return nil
			}
		}
		kernel = append(kernel, *addr)
		return nil
	})
	link := &netlink.Dummy{LinkAttrs: netlink.LinkAttrs{Name: "eth0", Index: 2}}
	changed, err := EnsureAddr(context.Background(), link, &netlink.Addr{IPNet: want})
	zz.Assert(err == nil, "ensuring the address succeeds")
	zz.Assert(changed == (before != 2), "a change is reported exactly when the link did not already carry just the wanted address")
	nWant, nOther, nLL := 0, 0, 0
	for _, a := range kernel {
		switch {
		case zzSameNet(a.IPNet, otherFamily):
			nOther++
		case zzSameNet(a.IPNet, linkLocal):
			nLL++
		default:
			zz.Assert(zzSameNet(a.IPNet, want), "no other global address of the family stays on the link (the address of a previous holder is removed)")
			nWant++
		}
	}
	zz.Assert(nWant == 1, "exactly one address of the wanted family, the wanted one")
	zz.Assert(nOther == 1 && nLL == 1, "the other family's address and the link-local address are untouched")
	n := len(kernel)
	changed2, err2 := EnsureAddr(context.Background(), link, &netlink.Addr{IPNet: want})
	zz.Assert(err2 == nil && !changed2 && len(kernel) == n, "ensuring again changes nothing")
}
