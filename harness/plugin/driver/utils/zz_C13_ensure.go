//go:build verif

package utils

import (
	"context"
	"net"

	"github.com/vishvananda/netlink"

	zz "github.com/AliyunContainerService/terway/internal/zzverif"
)

func zzSameNet(a, b *net.IPNet) bool {
	if a == nil || b == nil {
		return a == b
	}
	return a.IP.Equal(b.IP) && a.Mask.String() == b.Mask.String()
}

// zzKernelRules: the kernel's policy-rule list with the filter semantics of
// netlink.RuleListFiltered (a rule is returned when every field selected by
// the mask equals the template's) and add / delete.
type zzKernelRules struct {
	rules []netlink.Rule
}

func (k *zzKernelRules) install() {
	zz.Override("github.com/vishvananda/netlink.RuleListFiltered", func(family int, filter *netlink.Rule, mask uint64) ([]netlink.Rule, error) {
		var out []netlink.Rule
		for _, r := range k.rules {
			switch {
			case mask&netlink.RT_FILTER_SRC != 0 && !zzSameNet(r.Src, filter.Src):
			case mask&netlink.RT_FILTER_DST != 0 && !zzSameNet(r.Dst, filter.Dst):
			case mask&netlink.RT_FILTER_TABLE != 0 && filter.Table != 0 && r.Table != filter.Table:
			case mask&netlink.RT_FILTER_PRIORITY != 0 && filter.Priority >= 0 && r.Priority != filter.Priority:
			case mask&netlink.RT_FILTER_OIF != 0 && r.OifName != filter.OifName:
			default:
				out = append(out, r)
			}
		}
		return out, nil
	})
	zz.Override("github.com/vishvananda/netlink.RuleAdd", func(r *netlink.Rule) error {
		k.rules = append(k.rules, *r)
		return nil
	})
	zz.Override("github.com/vishvananda/netlink.RuleDel", func(r *netlink.Rule) error {
		for i := range k.rules {
			x := k.rules[i]
			if zzSameNet(x.Src, r.Src) && zzSameNet(x.Dst, r.Dst) && x.Table == r.Table && x.Priority == r.Priority {
				k.rules = append(k.rules[:i:i], k.rules[i+1:]...)
				return nil
			}
		}
		return nil
	})
}

// C13 (idempotent ensure-style application): after EnsureIPRule for the
// from-pod rule of an address, the kernel holds exactly one rule for that
// source at the pod priority and it points to the wanted table - whatever was
// there before: nothing, the same rule (second setup), or a left-over rule of
// a previous pod that held the address on another interface (its table is
// another one; equal-priority rules are evaluated in insertion order, so a
// left-over would keep winning).  Rules of other addresses are untouched.
// zz:noreplay the kernel's rule list is replaced through engine-side overrides
func ZZ_C13_ensure_rule() {
	v6 := zz.Bool("ipv6")
	mk := func(last byte) *net.IPNet {
		if v6 {
			ip := net.ParseIP("fd00::")
			ip[15] = last
			return &net.IPNet{IP: ip, Mask: net.CIDRMask(128, 128)}
		}
		return &net.IPNet{IP: net.IP{10, 0, 0, last}, Mask: net.CIDRMask(32, 32)}
	}
	pod, other := mk(5), mk(6)
	want := zz.IntRange("wanted.table", 1001, 1010)
	k := &zzKernelRules{}
	// another pod's rule, always present
	ro := netlink.NewRule()
	ro.Src, ro.Table, ro.Priority = other, zz.IntRange("other.table", 1001, 1010), 2048
	k.rules = append(k.rules, *ro)
	switch zz.Fork("before", 3) {
	case 1: // the same rule already exists
		r := netlink.NewRule()
		r.Src, r.Table, r.Priority = pod, want, 2048
		k.rules = append(k.rules, *r)
	case 2: // left-over of a previous pod on another interface
		r := netlink.NewRule()
		r.Src, r.Table, r.Priority = pod, zz.IntRange("stale.table", 1001, 1010), 2048
		zz.Assume(r.Table != want)
		k.rules = append(k.rules, *r)
	}
	k.install()
	exp := netlink.NewRule()
	exp.Src, exp.Table, exp.Priority = pod, want, 2048
	_, err := EnsureIPRule(context.Background(), exp)
	zz.Assert(err == nil, "ensuring the rule succeeds")
	nPod, nOther := 0, 0
	for _, r := range k.rules {
		if zzSameNet(r.Src, pod) && r.Priority == 2048 {
			nPod++
			zz.Assert(r.Table == want, "no rule for the pod address points to another table afterwards (a left-over of a previous holder of the address is removed)")
		}
		if zzSameNet(r.Src, other) {
			nOther++
			zz.Assert(r.Table == ro.Table && r.Priority == 2048, "the rule of another address is untouched")
		}
	}
	zz.Assert(nPod == 1 && nOther == 1, "exactly one from-rule for the pod address, and the other pod keeps its rule")
	// idempotence
	before := len(k.rules)
	changed, err2 := EnsureIPRule(context.Background(), exp)
	zz.Assert(err2 == nil && !changed && len(k.rules) == before, "ensuring again changes nothing")
}
