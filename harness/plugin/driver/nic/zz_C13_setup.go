//go:build verif

package nic

import (
	"context"
	"errors"
	"net"

	"github.com/vishvananda/netlink"

	zz "github.com/AliyunContainerService/terway/internal/zzverif"
)

var errZZNetlink = errors.New("netlink error")

// C13 (idempotent ensure-style application), the applier: everything a
// configuration generator produced is handed to the kernel - every address,
// neighbour, route and rule exactly once, the link renamed, sized and brought
// up - in an order the kernel accepts (addresses before the link goes up,
// routes and rules after it); a failing step aborts the setup with an error
// (the CNI ADD then fails and is retried) and nothing is skipped silently.
// zz:noreplay the netlink wrappers are replaced through engine-side overrides
func ZZ_C13_nic_setup() {
	var log []string
	failAt := zz.Fork("fail.at", 12) - 1 // -1: no failure; k: the k-th kernel operation fails
	step := func(what string) error {
		log = append(log, what)
		if len(log)-1 == failAt {
			return errZZNetlink
		}
		return nil
	}
	const u = "github.com/AliyunContainerService/terway/plugin/driver/utils."
	zz.Override(u+"EnsureLinkName", func(ctx context.Context, l netlink.Link, name string) (bool, error) { return false, step("name") })
	zz.Override(u+"EnsureLinkMTU", func(ctx context.Context, l netlink.Link, mtu int) (bool, error) { return false, step("mtu") })
	zz.Override("github.com/AliyunContainerService/terway/pkg/sysctl.EnsureConf", func(k, v string) error { return step("sysctl") })
	zz.Override(u+"EnsureAddr", func(ctx context.Context, l netlink.Link, a *netlink.Addr) (bool, error) { return true, step("addr:" + a.IP.String()) })
	zz.Override(u+"EnsureLinkUp", func(ctx context.Context, l netlink.Link) (bool, error) { return true, step("up") })
	zz.Override(u+"EnsureNeigh", func(ctx context.Context, n *netlink.Neigh) (bool, error) { return true, step("neigh:" + n.IP.String()) })
	zz.Override(u+"EnsureRoute", func(ctx context.Context, r *netlink.Route) (bool, error) { return true, step("route:" + r.Dst.String()) })
	zz.Override(u+"EnsureIPRule", func(ctx context.Context, r *netlink.Rule) (bool, error) { return true, step("rule:" + r.Src.String()) })
	zz.Override(u+"EnsureVlanUntagger", func(ctx context.Context, l netlink.Link) error { return step("untag") })

	mk := func(s string) *net.IPNet { _, n, _ := net.ParseCIDR(s); return n }
	conf := &Conf{IfName: "eth0", MTU: 1500, StripVlan: zz.Bool("trunk")}
	dual := zz.Bool("dual")
	conf.Addrs = []*netlink.Addr{{IPNet: &net.IPNet{IP: net.IP{10, 0, 0, 5}, Mask: net.CIDRMask(32, 32)}}}
	conf.Routes = []*netlink.Route{{Dst: mk("0.0.0.0/0")}}
	conf.Neighs = []*netlink.Neigh{{IP: net.IP{10, 0, 0, 253}}}
	if dual {
		conf.Addrs = append(conf.Addrs, &netlink.Addr{IPNet: &net.IPNet{IP: net.ParseIP("fd00::5"), Mask: net.CIDRMask(128, 128)}})
		conf.Routes = append(conf.Routes, &netlink.Route{Dst: mk("::/0")})
		conf.SysCtl = map[string][]string{"a": {"/proc/sys/net/ipv6/conf/eth0/disable_ipv6", "0"}}
	}
	if zz.Bool("multiNetwork") {
		r := netlink.NewRule()
		r.Src = &net.IPNet{IP: net.IP{10, 0, 0, 5}, Mask: net.CIDRMask(32, 32)}
		conf.Rules = []*netlink.Rule{r}
	}
	err := Setup(context.Background(), &netlink.Dummy{LinkAttrs: netlink.LinkAttrs{Index: 3, Name: "tmp0"}}, conf)
	total := 2 + len(conf.SysCtl) + len(conf.Addrs) + 1 + len(conf.Neighs) + len(conf.Routes) + len(conf.Rules)
	if conf.StripVlan {
		total++
	}
	failed := failAt >= 0 && failAt < total
	zz.Assert((err != nil) == failed, "a failing kernel operation fails the setup; without a failure the setup succeeds")
	if failed {
		zz.Assert(len(log) == failAt+1, "the setup stops at the failing operation")
		return
	}
	zz.Assert(len(log) == total, "every item of the configuration is applied exactly once")
	pos := func(what string) int {
		n, at := 0, -1
		for i, s := range log {
			if s == what {
				n++
				at = i
			}
		}
		if n != 1 {
			return -1
		}
		return at
	}
	up := pos("up")
	zz.Assert(up >= 0, "the link is brought up once")
	for _, a := range conf.Addrs {
		p := pos("addr:" + a.IP.String())
		zz.Assert(p >= 0 && p < up, "every address is configured exactly once, before the link goes up")
	}
	for _, r := range conf.Routes {
		p := pos("route:" + r.Dst.String())
		zz.Assert(p > up, "every route is programmed exactly once, after the link is up")
	}
	for _, r := range conf.Rules {
		p := pos("rule:" + r.Src.String())
		zz.Assert(p > up, "every rule is programmed exactly once")
	}
	for _, n := range conf.Neighs {
		zz.Assert(pos("neigh:"+n.IP.String()) > up, "every permanent neighbour is programmed exactly once")
	}
	zz.Assert(pos("name") == 0 && pos("mtu") == 1, "the link is renamed and sized first")
	zz.Assert((pos("untag") >= 0) == conf.StripVlan, "VLAN stripping is set up exactly on trunk interfaces")
}
