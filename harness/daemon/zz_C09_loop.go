//go:build verif

package daemon

import (
	"context"
	"time"

	"k8s.io/apimachinery/pkg/util/wait"

	zz "github.com/AliyunContainerService/terway/internal/zzverif"
)

// C09 (released within two passes, for all API lookup failures): the periodic
// loop around the collector.  wait.PollUntilContextCancel stops as soon as its
// condition reports done or an error; the collector's loop must therefore
// report neither, whatever a pass returns - a pass that failed (a transient
// listing error, one record whose cleanup cannot proceed) is followed by the
// next pass, for the life of the daemon.  Three ticks, any of them failing.
// zz:noreplay the poll helper and the pass are replaced through engine-side overrides
func ZZ_C09_gc_loop_survives_failures() {
	ticks := 3
	fails := []bool{zz.Bool("pass0.fails"), zz.Bool("pass1.fails"), zz.Bool("pass2.fails")}
	passes := 0
	zz.Override("(*github.com/AliyunContainerService/terway/daemon.networkService).gcPods", func(n *networkService, ctx context.Context) error {
		passes++
		if fails[passes-1] {
			return errZZAPI
		}
		return nil
	})
	stoppedAt := -1
	var period time.Duration
	zz.Override("k8s.io/apimachinery/pkg/util/wait.PollUntilContextCancel", func(ctx context.Context, interval time.Duration, immediate bool, condition wait.ConditionWithContextFunc) error {
		period = interval
		for i := 0; i < ticks; i++ {
			done, err := condition(ctx)
			if err != nil || done {
				stoppedAt = i
				return err
			}
		}
		return nil // the daemon's context ends
	})
	svc := &networkService{}
	svc.startGarbageCollectionLoop(context.Background())
	zz.Assert(stoppedAt == -1 && passes == ticks, "the collector keeps running after a pass that failed: every tick runs a pass")
	zz.Assert(period == gcPeriod && period > 0, "the passes are one gc period apart")
}
