//go:build verif

package daemon

import zz "github.com/AliyunContainerService/terway/internal/zzverif"

// C07 (with a healthy cloud the idle reserve returns to the min/max watermark
// band): the band the balancer is given exists - 0 <= min <= max <= capacity
// for every configuration (min_eni, max_eni, pool sizes) and limit vector;
// with min above max every round trims and refills and the pool never comes
// to rest.  Same exploration as ZZ_C19_pool_config.
func ZZ_C07_watermark_band_exists() {
	_ = zz.Shard(13) // same sharding as the exploration it wraps
	ZZ_C19_pool_config()
}
