//go:build verif

package daemon

import (
	"errors"

	corev1 "k8s.io/api/core/v1"
	metav1 "k8s.io/apimachinery/pkg/apis/meta/v1"

	zz "github.com/AliyunContainerService/terway/internal/zzverif"
	"github.com/AliyunContainerService/terway/pkg/aliyun/client"
	"github.com/AliyunContainerService/terway/pkg/aliyun/instance"
	"github.com/AliyunContainerService/terway/types/daemon"
)

type zzMeta struct {
	instance.Interface
	typ   string
	calls int
	fails []bool // outcome of the i-th GetInstanceType call
}

var errZZMeta = errors.New("metadata service unavailable")

func (m *zzMeta) GetInstanceType() (string, error) {
	i := m.calls
	m.calls++
	if i < len(m.fails) && m.fails[i] {
		return "", errZZMeta
	}
	return m.typ, nil
}
func (m *zzMeta) GetInstanceID() (string, error) { return "i-1", nil }

type zzLimitProvider struct {
	anno    *client.Limits // what the node annotation describes (nil: no annotation)
	annoErr bool
	byType  map[string]*client.Limits
	apiErr  bool
	asked   []string
}

func (p *zzLimitProvider) GetLimit(c interface{}, instanceType string) (*client.Limits, error) {
	p.asked = append(p.asked, instanceType)
	if p.apiErr {
		return nil, errZZAPI
	}
	return p.byType[instanceType], nil
}
func (p *zzLimitProvider) GetLimitFromAnno(anno map[string]string) (*client.Limits, error) {
	if p.annoErr {
		return nil, errZZAPI
	}
	return p.anno, nil
}

type zzNodeK8s struct {
	*zzK8s
	node *corev1.Node
}

func (k *zzNodeK8s) Node() *corev1.Node { return k.node }

// C19 (limits are those of the instance type actually running): the daemon
// takes its limits from the node annotation only when the annotated instance
// type equals the type the metadata service reports now; a stale annotation
// (instance resized) or one that cannot be verified (metadata lookup fails)
// is never used - start-up either fails or uses the limits of the reported
// type.  Features are then gated on those limits.
func ZZ_C19_limit_source() {
	big := &client.Limits{InstanceTypeID: "ecs.big", Adapters: 8, TotalAdapters: 8, IPv4PerAdapter: 20, IPv6PerAdapter: 20, MemberAdapterLimit: 10, MaxMemberAdapterLimit: 10}
	small := &client.Limits{InstanceTypeID: "ecs.small", Adapters: 2, TotalAdapters: 2, IPv4PerAdapter: 10, IPv6PerAdapter: 0, MemberAdapterLimit: 0}
	actual := zz.OneOf("running.type", "ecs.big", "ecs.small")
	meta := &zzMeta{typ: actual, fails: []bool{zz.Bool("meta.call0.fails"), zz.Bool("meta.call1.fails")}}
	instance.Init(meta)
	prov := &zzLimitProvider{byType: map[string]*client.Limits{"ecs.big": big, "ecs.small": small}, annoErr: zz.Bool("annotation.unparsable"), apiErr: zz.Bool("api.fails")}
	switch zz.Fork("annotation", 3) {
	case 1:
		prov.anno = big
	case 2:
		prov.anno = small
	}
	client.LimitProviders["ecs"] = prov
	svc, _, kc, _ := zzService(daemon.ModeENIMultiIP)
	svc.k8s = &zzNodeK8s{zzK8s: kc, node: &corev1.Node{ObjectMeta: metav1.ObjectMeta{Name: "n1", Annotations: map[string]string{}}}}
	cfg := &daemon.Config{IPStack: "dual", EnableENITrunking: true}
	b := &NetworkServiceBuilder{service: svc, daemonMode: daemon.ModeENIMultiIP, config: cfg}
	err := b.initInstanceLimit()
	if err != nil {
		zz.Reach("start-up refused")
		zz.Assert(meta.fails[0] || meta.fails[1] || prov.apiErr, "start-up only fails when the metadata service or the cloud API failed")
		return
	}
	zz.Reach("limits chosen")
	zz.Assert(b.limit != nil && b.limit.InstanceTypeID == actual, "the limits in use are those of the instance type the metadata service reports now (a stale or unverifiable annotation is not used)")
	for _, t := range prov.asked {
		zz.Assert(t == actual, "the cloud API is asked about the running instance type")
	}
	if b.limit == nil {
		return
	}
	zz.Assert(zz.Implies(svc.enableIPv6, b.limit.IPv6PerAdapter > 0 && b.limit.IPv6PerAdapter == b.limit.IPv4PerAdapter), "IPv6 stays enabled only on a type with as many IPv6 as IPv4 addresses per interface")
	zz.Assert(zz.Implies(cfg.EnableENITrunking, b.limit.MemberAdapterLimit > 0), "trunking stays enabled only with a positive member-adapter limit")
	zz.Assert(svc.enableIPv4, "IPv4 is on for a dual-stack configuration")
}
