//go:build verif

package daemon

import (
	"context"
	"github.com/AliyunContainerService/terway/types"

	zz "github.com/AliyunContainerService/terway/internal/zzverif"
	"github.com/AliyunContainerService/terway/rpc"
	"github.com/AliyunContainerService/terway/types/daemon"
)

// durable database contents after a crash that cuts the effect log at index c
// (pool state is volatile: it is rebuilt from the database and the cloud by
// Local.load, whose contract is decided by ZZ_C05_load).
func zzDurable(initial map[string]daemon.PodResources, log []zzEffect, c int) map[string]daemon.PodResources {
	db := map[string]daemon.PodResources{}
	for k, v := range initial {
		db[k] = v
	}
	for i := 0; i < c && i < len(log); i++ {
		switch log[i].kind {
		case "put":
			db[log[i].key] = log[i].rec
		case "delete":
			delete(db, log[i].key)
		}
	}
	return db
}

// C05(a): crash cuts of an ADD.  For every prefix of the request's effects:
// an acknowledged ADD is durable (its record, with this sandbox id and the
// allocated resources, is in the database); a crash before the database write
// leaves no record of the new allocation, so after a restart (ZZ_C05_load:
// no address is owned unless a record names it) the address is reusable.
// zz:noreplay Manager.Allocate/Release are summarised through engine-side overrides
func ZZ_C05_crash_cuts_add() {
	svc, w, kc, st := zzService(daemon.ModeENIMultiIP)
	kc.pod = zzPodInfo("p0")
	st.failPut = zz.Bool("put.fails")
	initial := map[string]daemon.PodResources{}
	reply, err := svc.AllocIP(context.Background(), &rpc.AllocIPRequest{K8SPodNamespace: "ns", K8SPodName: "p0", K8SPodInfraContainerId: "c1"})
	acked := err == nil && reply != nil && reply.Success
	var allocated int
	for _, e := range w.log {
		if e.kind == "allocate" {
			allocated = len(e.res)
		}
	}
	for c := 0; c <= len(w.log); c++ {
		db := zzDurable(initial, w.log, c)
		rec, has := db["ns/p0"]
		if c == len(w.log) && acked {
			zz.Assert(has && rec.ContainerID != nil && *rec.ContainerID == "c1" && len(rec.Resources) == allocated, "an acknowledged ADD is durable: the record with its sandbox id and resources is in the database")
		}
		if has {
			// the record never appears before the pool granted the resources it names
			grantedBefore := false
			for i := 0; i < c && i < len(w.log); i++ {
				if w.log[i].kind == "allocate" {
					grantedBefore = true
				}
			}
			zz.Assert(grantedBefore, "a record is written only after the pool granted the addresses it names")
		}
	}
	if !acked {
		_, has := st.recs["ns/p0"]
		zz.Assert(!has, "an ADD that is not acknowledged leaves no record")
	}
	zz.Reach("add-cuts")
}

// C05(a) across a sandbox re-creation: the runtime re-creates the pod's
// sandbox (same pod UID, new sandbox id and netns); the second ADD is
// answered with the same address.  The acknowledged second ADD is durable:
// the database record names the new sandbox, so that a late DEL for the old
// sandbox is recognised as stale and a restart re-binds the address to the
// live sandbox.
// zz:noreplay Manager.Allocate/Release are summarised through engine-side overrides
func ZZ_C05_readd_new_sandbox() {
	svc, w, kc, st := zzService(daemon.ModeENIMultiIP)
	kc.pod = zzPodInfo("p0")
	w.sameOnPinned = true
	w.noReleaseFaults = true
	r1, err1 := svc.AllocIP(context.Background(), &rpc.AllocIPRequest{K8SPodNamespace: "ns", K8SPodName: "p0", K8SPodInfraContainerId: "c1", Netns: "/proc/11/ns/net"})
	if err1 != nil || r1 == nil || !r1.Success {
		return
	}
	rec1, has1 := st.recs["ns/p0"]
	zz.Assert(has1 && rec1.ContainerID != nil && *rec1.ContainerID == "c1" && len(rec1.Resources) >= 1, "the first ADD is recorded")
	nPut1 := zzCount(w, "put")
	// the sandbox is re-created
	r2, err2 := svc.AllocIP(context.Background(), &rpc.AllocIPRequest{K8SPodNamespace: "ns", K8SPodName: "p0", K8SPodInfraContainerId: "c2", Netns: "/proc/22/ns/net"})
	if err2 != nil || r2 == nil || !r2.Success {
		return
	}
	zz.Reach("second ADD acknowledged")
	rec2, has2 := st.recs["ns/p0"]
	zz.Assert(has2 && rec2.ContainerID != nil && *rec2.ContainerID == "c2", "an acknowledged ADD for a re-created sandbox is durable: the record names the new sandbox")
	zz.Assert(has2 && rec2.NetNs != nil && *rec2.NetNs == "/proc/22/ns/net", "the record names the new network namespace")
	zz.Assert(zzCount(w, "put") == nPut1+1, "every acknowledged ADD writes its record")
	// a late DEL for the old sandbox is stale: it neither releases the address nor drops the record
	nRel := zzCount(w, "release")
	_, err3 := svc.ReleaseIP(context.Background(), &rpc.ReleaseIPRequest{K8SPodNamespace: "ns", K8SPodName: "p0", K8SPodInfraContainerId: "c1"})
	_, still := st.recs["ns/p0"]
	zz.Assert(err3 == nil && still && zzCount(w, "release") == nRel, "a late DEL for the old sandbox leaves the live sandbox's address and record alone")
}

// C05(a): crash cuts of a DEL: an acknowledged DEL is durable (record gone);
// at every cut before the record deletion the record is still complete, so a
// restart re-binds the addresses to the pod (never offered to another pod)
// and the runtime's retry of the DEL finds them.
// zz:noreplay Manager.Allocate/Release are summarised through engine-side overrides
func ZZ_C05_crash_cuts_del() {
	svc, w, kc, st := zzService(daemon.ModeENIMultiIP)
	kc.pod = zzPodInfo("p0")
	// a pod with IP reservation keeps its allocation across a DEL under daemon-side IPAM
	if zz.Bool("pod.reserves.ip") {
		kc.pod.IPStickTime = 1
	}
	svc.ipamType = types.IPAMType(zz.OneOf("ipam", "default", "crd"))
	keeps := svc.ipamType != types.IPAMTypeCRD && kc.pod.IPStickTime != 0
	cid := "c1"
	full := daemon.PodResources{PodInfo: kc.pod, ContainerID: &cid, Resources: zzLocalRes("eni-1", 5).ToStore()}
	st.recs["ns/p0"] = full
	initial := map[string]daemon.PodResources{"ns/p0": full}
	st.failDel = zz.Bool("delete.fails")
	reply, err := svc.ReleaseIP(context.Background(), &rpc.ReleaseIPRequest{K8SPodNamespace: "ns", K8SPodName: "p0", K8SPodInfraContainerId: "c1"})
	acked := err == nil && reply != nil && reply.Success
	for c := 0; c <= len(w.log); c++ {
		db := zzDurable(initial, w.log, c)
		rec, has := db["ns/p0"]
		if c == len(w.log) && acked {
			zz.Assert(has == keeps, "an acknowledged DEL is durable: the record is gone from the database (kept for a pod with IP reservation)")
			// memory equals disk: the binding in the pool and the record go together -
			// a released address whose record stays would be re-bound to the old pod
			// by the next restart although it may have been handed to another pod
			zz.Assert((zzCount(w, "release") > 0) == !has, "at quiescence after an acknowledged DEL the pool binding was released exactly when the record is gone")
		}
		if has {
			zz.Assert(len(rec.Resources) == 1 && rec.ContainerID != nil && *rec.ContainerID == "c1", "until the record is deleted it stays complete (a restart restores the binding)")
		} else {
			released := false
			for i := 0; i < c && i < len(w.log); i++ {
				if w.log[i].kind == "release" {
					released = true
				}
			}
			zz.Assert(released, "the record disappears only after the pool release was issued")
		}
	}
	zz.Reach("del-cuts")
}

// C05(d): on start, stored items whose interface is no longer attached are
// dropped; an item whose interface is attached is never dropped nor reordered.
// (A vanished item that survives the filter is harmless: Local.load ignores
// records of other interfaces - ZZ_C05_load.)
func ZZ_C05_filter_eni_not_found() {
	n := zz.Fork("items", 4)
	attached := map[string]*daemon.ENI{"eni-1": {ID: "eni-1", MAC: "00:00:00:00:00:01"}}
	var items []daemon.ResourceItem
	keep := make([]bool, n)
	for i := 0; i < n; i++ {
		switch zz.Fork("item", 5) {
		case 0:
			items = append(items, daemon.ResourceItem{Type: daemon.ResourceTypeENIIP, ENIID: "eni-1", IPv4: "10.0.0.2"})
			keep[i] = true
		case 1:
			items = append(items, daemon.ResourceItem{Type: daemon.ResourceTypeENIIP, ENIID: "eni-gone", IPv4: "10.0.9.2"})
		case 2:
			items = append(items, daemon.ResourceItem{Type: daemon.ResourceTypeENIIP, ID: "00:00:00:00:00:01.10.0.0.3"})
			keep[i] = true
		case 3:
			items = append(items, daemon.ResourceItem{Type: daemon.ResourceTypeENIIP, ID: "00:00:00:00:00:09.10.0.9.3"})
		default:
			items = append(items, daemon.ResourceItem{Type: "other"})
			keep[i] = true
		}
	}
	orig := append([]daemon.ResourceItem(nil), items...)
	out := filterENINotFound([]daemon.PodResources{{PodInfo: zzPodInfo("p0"), Resources: items}}, attached)
	zz.Assert(len(out) == 1, "records are kept")
	got := out[0].Resources
	// every attached item survives, in order; everything dropped was vanished
	k := 0
	for i := 0; i < n; i++ {
		if keep[i] {
			for k < len(got) && got[k] != orig[i] {
				k++
			}
			zz.Assert(k < len(got), "an item whose interface is attached is never dropped or reordered")
			k++
		}
	}
	zz.Assert(len(got) <= n, "the filter never adds items")
}
