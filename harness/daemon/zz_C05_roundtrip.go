//go:build verif

package daemon

import (
	"net/netip"

	zz "github.com/AliyunContainerService/terway/internal/zzverif"
	"github.com/AliyunContainerService/terway/pkg/eni"
	"github.com/AliyunContainerService/terway/types"
	"github.com/AliyunContainerService/terway/types/daemon"
)

// C05 (an acknowledged ADD is durable): what is written to the database for
// an allocation, and what is read back from it after a restart.  For every
// family mix of the allocation (IPv4 only, IPv6 only, dual stack): the record
// holds exactly one item that names the interface (id and MAC) and every
// address of the allocation, and reading that item back yields the same
// interface and addresses - an allocation is never recorded as "nothing".
func ZZ_C05_record_round_trip() {
	res := &eni.LocalIPResource{ENI: daemon.ENI{ID: "eni-1", MAC: "00:00:00:00:00:01"}}
	fam := zz.Fork("family", 3)
	if fam != 1 {
		res.IP.IPv4 = netip.AddrFrom4([4]byte{10, 0, 0, byte(zz.IntRange("v4.last", 2, 250))})
	}
	if fam != 0 {
		res.IP.IPv6 = netip.AddrFrom16([16]byte{0xfd, 15: byte(zz.IntRange("v6.last", 2, 250))})
	}
	items := res.ToStore()
	zz.Assert(len(items) == 1, "an allocation is recorded as exactly one item, whatever its families")
	if len(items) != 1 {
		return
	}
	it := items[0]
	zz.Assert(it.Type == daemon.ResourceTypeENIIP && it.ENIID == "eni-1" && it.ENIMAC == "00:00:00:00:00:01", "the item names the interface")
	zz.Assert((it.IPv4 != "") == res.IP.IPv4.IsValid() && (it.IPv6 != "") == res.IP.IPv6.IsValid(), "the item names an address of exactly the families the allocation has")
	back := parseNetworkResource(it)
	lr, ok := back.(*eni.LocalIPResource)
	zz.Assert(ok && lr != nil, "the item reads back as an address allocation")
	if !ok || lr == nil {
		return
	}
	zz.Assert(lr.ENI.ID == "eni-1" && lr.ENI.MAC == "00:00:00:00:00:01" && lr.IP == (types.IPSet2{IPv4: res.IP.IPv4, IPv6: res.IP.IPv6}), "reading the record back yields the interface and the addresses that were acknowledged")
	v4, v6, id := extractIPs(it)
	zz.Assert(v4 == res.IP.IPv4 && v6 == res.IP.IPv6 && id == "eni-1", "the pin of a repeated ADD is taken from the same record")
}
