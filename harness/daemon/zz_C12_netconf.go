//go:build verif

package daemon

import (
	"strconv"

	zz "github.com/AliyunContainerService/terway/internal/zzverif"
	"github.com/AliyunContainerService/terway/rpc"
)

// C12(a): every configuration list the daemon returns names exactly one
// default-route interface and includes the pod's primary interface; nothing
// is added, removed or reordered.
func ZZ_C12_default_route() {
	n := zz.Fork("n", 5)
	confs := make([]*rpc.NetConf, n)
	names := make([]string, n)
	pre := make([]bool, n)
	for i := 0; i < n; i++ {
		is := strconv.Itoa(i)
		names[i] = zz.OneOf("if"+is, "", "eth0", "eth1", "eth2")
		pre[i] = zz.Bool("default" + is)
		confs[i] = &rpc.NetConf{IfName: names[i], DefaultRoute: pre[i]}
	}
	keep := append([]*rpc.NetConf(nil), confs...)
	err := defaultForNetConf(confs)

	nPre, nPost := 0, 0
	primary := false
	firstPrimary := -1
	for i := 0; i < n; i++ {
		nPre += zz.IteInt(pre[i], 1, 0)
		nPost += zz.IteInt(confs[i].DefaultRoute, 1, 0)
		isPrim := zz.Or(names[i] == "", names[i] == "eth0")
		primary = zz.Or(primary, isPrim)
	}
	_ = firstPrimary
	same := len(confs) == n
	for i := 0; i < n && i < len(confs); i++ {
		same = zz.And(same, confs[i] == keep[i], confs[i].IfName == names[i])
	}
	zz.Assert(same, "no configuration entry is added, removed, reordered or renamed")
	if n == 0 {
		zz.Assert(err == nil, "an empty list is accepted unchanged")
		return
	}
	zz.Assert((err != nil) == zz.Or(nPre > 1, !primary), "an error is returned iff two entries ask for the default route or no primary interface exists")
	zz.Assert(zz.Implies(err == nil, nPost == 1), "an accepted list names exactly one default-route interface")
	zz.Assert(zz.Implies(err == nil, primary), "an accepted list includes the pod's primary interface")
	for i := 0; i < n; i++ {
		zz.Assert(zz.Implies(zz.And(err == nil, pre[i]), confs[i].DefaultRoute), "a requested default route is kept")
		zz.Assert(zz.Implies(zz.And(err == nil, nPre == 0, confs[i].DefaultRoute), zz.Or(names[i] == "", names[i] == "eth0")), "the defaulted default route goes to the primary interface")
	}
}

// C12: the addresses reported back for the pod are those of the primary interface(s).
func ZZ_C12_pod_ips() {
	n := zz.Fork("n", 4)
	confs := make([]*rpc.NetConf, n)
	for i := 0; i < n; i++ {
		is := strconv.Itoa(i)
		confs[i] = &rpc.NetConf{IfName: zz.OneOf("if"+is, "", "eth0", "eth1"), BasicInfo: &rpc.BasicInfo{PodIP: &rpc.IPSet{IPv4: "10.0.0." + is}}}
		if zz.Bool("nobasic" + is) {
			confs[i].BasicInfo = nil
		}
	}
	ips := getPodIPs(confs)
	for _, ip := range ips {
		ok := false
		for i := 0; i < n; i++ {
			ok = zz.Or(ok, zz.And(ip == "10.0.0."+strconv.Itoa(i), zz.Or(confs[i].IfName == "", confs[i].IfName == "eth0")))
		}
		zz.Assert(ok, "only addresses of the primary interface are reported as pod IPs")
	}
	zz.Reach("done")
}
