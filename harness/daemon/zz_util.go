//go:build verif

package daemon

import "encoding/json"

func jsonMarshal(v any) ([]byte, error) { return json.Marshal(v) }
