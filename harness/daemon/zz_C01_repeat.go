//go:build verif

package daemon

// C01 (a repeated ADD for a pod that already holds an address receives that
// same address): the daemon pins the repeated request to the recorded
// interface and addresses, for every family mix of the record - otherwise an
// interface asked earlier hands out a second address.  Same exploration as
// ZZ_C04_alloc.
// zz:noreplay Manager.Allocate/Release are summarised through engine-side overrides
func ZZ_C01_repeated_add_is_pinned() { ZZ_C04_alloc() }
