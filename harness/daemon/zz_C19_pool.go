//go:build verif

package daemon

import (
	zz "github.com/AliyunContainerService/terway/internal/zzverif"
	"github.com/AliyunContainerService/terway/pkg/aliyun/client"
	"github.com/AliyunContainerService/terway/types"
	"github.com/AliyunContainerService/terway/types/daemon"
)

// symbolic instance limits within ranges that exceed every published ECS type
func zzLimitsNoMul() *client.Limits {
	l := &client.Limits{
		Adapters:           zz.IntRange("Adapters", 1, 64),
		IPv4PerAdapter:     zz.IntRange("IPv4PerAdapter", 0, 64),
		IPv6PerAdapter:     zz.IntRange("IPv6PerAdapter", 0, 64),
		MemberAdapterLimit: zz.IntRange("MemberAdapterLimit", 0, 256),
		ERdmaAdapters:      zz.IntRange("ERdmaAdapters", 0, 8),
	}
	l.TotalAdapters = l.Adapters + l.MemberAdapterLimit
	l.MaxMemberAdapterLimit = zz.IntRange("MaxMemberAdapterLimit", 0, 256)
	return l
}

var zzQuickIPPer = []int{0, 1, 10}

func zzLimits(shard, nshards int) *client.Limits {
	// addresses per interface are made concrete per path so that every product
	// in the capacity arithmetic is linear for the solver (64-bit symbolic x
	// symbolic products did not finish); quick tier: boundary values, thorough: 0..64
	var ipPer int
	if zz.Tier() == 0 {
		ipPer = zzQuickIPPer[zz.Fork("IPv4PerAdapterIdx", len(zzQuickIPPer))]
	} else {
		ipPer = zz.Fork("IPv4PerAdapter", 65)
	}
	if zz.Tier() == 0 {
		zz.Assume(ipPer == zzQuickIPPer[shard%len(zzQuickIPPer)] && shard < len(zzQuickIPPer))
	} else {
		zz.Assume(ipPer%nshards == shard)
	}
	l := &client.Limits{
		Adapters:           zz.IntRange("Adapters", 1, 64),
		IPv4PerAdapter:     ipPer,
		IPv6PerAdapter:     zz.IntRange("IPv6PerAdapter", 0, 64),
		MemberAdapterLimit: zz.IntRange("MemberAdapterLimit", 0, 256),
		ERdmaAdapters:      zz.IntRange("ERdmaAdapters", 0, 8),
	}
	l.TotalAdapters = l.Adapters + l.MemberAdapterLimit
	l.MaxMemberAdapterLimit = zz.IntRange("MaxMemberAdapterLimit", 0, 256)
	return l
}

func zzConfig() *daemon.Config {
	return &daemon.Config{
		MaxPoolSize:       zz.IntRange("MaxPoolSize", 0, 4096),
		MinPoolSize:       zz.IntRange("MinPoolSize", 0, 4096),
		MaxENI:            zz.IntRange("MaxENI", 0, 4096),
		MinENI:            zz.IntRange("MinENI", 0, 4096),
		EniCapRatio:       1, // "with the default capacity ratio"
		EniCapShift:       0,
		EnableENITrunking: zz.Bool("EnableENITrunking"),
		EnableERDMA:       zz.Bool("EnableERDMA"),
		IPAMType:          types.IPAMType(zz.OneOf("IPAMType", "", "default", "crd")),
		IPStack:           zz.OneOf("IPStack", "", "ipv4", "ipv6", "dual"),
	}
}

// C19(a): pool sizing from the limits.
func ZZ_C19_pool_config() {
	l := zzLimits(zz.Shard(13), 13)
	cfg := zzConfig()
	mode := zz.OneOf("mode", daemon.ModeENIMultiIP, daemon.ModeENIOnly, daemon.ModeVPC)
	pc, err := getPoolConfig(cfg, mode, l)
	zz.Assert(zz.And(err == nil, pc != nil), "pool sizing never fails")
	slots := l.Adapters - 1
	zz.Assert(pc.MaxENI <= slots, "interface slots never exceed the attachable secondary interfaces")
	zz.Assert(pc.MaxENI >= 0, "interface slots are not negative")
	zz.Assert(pc.Capacity == pc.MaxENI*pc.MaxIPPerENI, "capacity equals slots times addresses per interface")
	zz.Assert(pc.Capacity <= slots*l.IPv4PerAdapter, "IP capacity is at most secondary interfaces times addresses per interface")
	zz.Assert(zz.And(0 <= pc.MinPoolSize, pc.MinPoolSize <= pc.MaxPoolSize, zz.Or(pc.MaxPoolSize <= pc.Capacity, cfg.IPAMType == types.IPAMTypeCRD)), "watermarks satisfy 0 <= min <= max <= capacity")
	zz.Assert(pc.MaxMemberENI <= l.MemberAdapterLimit, "member-ENI count within the instance's member adapter limit")
	er := l.ERDMARes()
	zz.Assert(zz.And(pc.ERdmaCapacity <= er*l.IPv4PerAdapter, pc.ERdmaCapacity >= 0), "RDMA capacity within RDMA interfaces times addresses per interface")
	zz.Assert(zz.And(er >= 0, er <= 2, er <= l.ERdmaAdapters), "at most min(2, instance RDMA adapters) RDMA interfaces")
	zz.Assert(er <= max(slots-1, 0), "RDMA interfaces leave at least one ordinary secondary slot")
	zz.Assert(zz.Implies(cfg.IPAMType == types.IPAMTypeCRD, zz.And(pc.MaxPoolSize == 0, pc.MinPoolSize == 0)), "centralised IPAM keeps no local pool")
	zz.Assert(zz.Implies(mode != daemon.ModeENIMultiIP, zz.And(pc.Capacity == 0, pc.MaxENI == 0)), "no shared-ENI capacity outside multi-IP mode")
	zz.Assert(cfg.ENITags[types.NetworkInterfaceTagCreatorKey] == types.NetworkInterfaceTagCreatorValue, "creator tag is always set")
}

// C19(c): features the instance type does not support are reported disabled.
func ZZ_C19_check_instance() {
	l := zzLimitsNoMul()
	cfg := zzConfig()
	mode := zz.OneOf("mode", daemon.ModeENIMultiIP, daemon.ModeENIOnly, daemon.ModeVPC)
	trunkBefore, erdmaBefore := cfg.EnableENITrunking, cfg.EnableERDMA
	stack := cfg.IPStack
	v4, v6 := checkInstance(l, mode, cfg)
	zz.Assert(zz.Implies(v6, l.IPv6PerAdapter > 0), "IPv6 is only enabled when the instance type has IPv6 addresses per interface")
	zz.Assert(zz.Implies(v6 && mode == daemon.ModeENIMultiIP, l.IPv6PerAdapter == l.IPv4PerAdapter), "multi-IP IPv6 needs as many IPv6 as IPv4 addresses per interface")
	zz.Assert(zz.Implies(v6, stack == "dual" || stack == "ipv6"), "IPv6 only when configured")
	zz.Assert(v4 == (stack == "ipv4" || stack == "dual"), "IPv4 follows the configured stack")
	zz.Assert(zz.Implies(cfg.EnableENITrunking, trunkBefore && l.MemberAdapterLimit > 0), "trunking stays enabled only with a positive member-adapter limit")
	zz.Assert(zz.Implies(cfg.EnableERDMA, erdmaBefore && l.ERDMARes() > 0), "ERDMA stays enabled only when the instance has RDMA interfaces to give")
}
