//go:build verif

package daemon

import (
	"context"
	"strconv"
	"time"

	"github.com/pkg/errors"

	zz "github.com/AliyunContainerService/terway/internal/zzverif"
	"github.com/AliyunContainerService/terway/pkg/eni"
	"github.com/AliyunContainerService/terway/pkg/link"
	"github.com/AliyunContainerService/terway/plugin/datapath"
	cnitypes "github.com/AliyunContainerService/terway/plugin/driver/types"
	"github.com/AliyunContainerService/terway/types"
	"github.com/AliyunContainerService/terway/types/daemon"
)

type zzGCPod struct {
	id       string
	local    int // 0 listed and running, 1 listed but sandbox exited, 2 not listed
	api      int // 0 exists, 1 gone, 2 lookup error
	sticky   bool
	devGone  bool // the record's interface is no longer attached
	hadRec   bool
	released int
}

// C09: garbage collection.  World: up to two stored records; for each pod the
// local lister, the API server's answer, the sticky-IP flag and whether the
// record's interface is still attached are arbitrary.  The kernel is replaced
// by its contract: the device lookup either finds the interface or reports
// "not found" exactly as link.GetDeviceNumber does; rule teardown succeeds.
// zz:noreplay Manager.Release, link.GetDeviceNumber and PolicyRoute.Teardown are summarised through engine-side overrides
func ZZ_C09_gc_pods() {
	svc, w, kc, st := zzService(daemon.ModeENIMultiIP)
	svc.ipamType = types.IPAMTypeDefault
	w.noReleaseFaults = true // pool-release failures are not in the property's fault set (API lookup failures are)
	n := 2
	pods := make([]*zzGCPod, n)
	macGone := map[string]bool{}
	for i := 0; i < n; i++ {
		is := strconv.Itoa(i)
		p := &zzGCPod{id: "ns/p" + is, local: zz.Fork("pod"+is+".local", 3), api: zz.Fork("pod"+is+".api", 3), sticky: zz.Bool("pod" + is + ".sticky"), devGone: zz.Bool("pod" + is + ".devGone"), hadRec: true}
		pods[i] = p
		info := zzPodInfo("p" + is)
		if p.sticky {
			info.IPStickTime = 1
		}
		res := zzLocalRes("eni-"+is, byte(5+i))
		macGone[res.ENI.MAC] = p.devGone
		cid := "c" + is
		st.recs[p.id] = daemon.PodResources{PodInfo: info, ContainerID: &cid, Resources: res.ToStore()}
		st.order = append(st.order, p.id)
		if p.local != 2 {
			li := *info
			li.SandboxExited = p.local == 1
			kc.local = append(kc.local, &li)
		}
		kc.exists[p.id] = p.api
	}
	zz.Override("github.com/AliyunContainerService/terway/daemon.ruleSync", func(ctx context.Context, res daemon.PodResources) error { return nil })
	zz.Override("github.com/AliyunContainerService/terway/pkg/link.GetDeviceNumber", func(mac string) (int32, error) {
		if macGone[mac] {
			return 0, errors.Wrapf(link.ErrNotFound, "can't found dev by mac %s", mac)
		}
		return 7, nil
	})
	zz.Override("(*github.com/AliyunContainerService/terway/plugin/datapath.PolicyRoute).Teardown", func(p *datapath.PolicyRoute, ctx context.Context, cfg *cnitypes.TeardownCfg, netNS any) error {
		return nil
	})

	vanished := func(p *zzGCPod) bool { return p.local != 0 && p.api == 1 }
	for pass := 1; pass <= 3; pass++ {
		before := len(w.log)
		unlocks := 0
		zz.OnUnlock(&svc.RWMutex, func() { unlocks++ })
		_ = svc.gcPods(context.Background())
		zz.OnUnlock(&svc.RWMutex, nil)
		zz.Assert(unlocks == 1, "a GC pass holds the service lock from its first decision to its last effect: the lock is released exactly once, at the end (no CNI request can run between 'the pod is gone' and the release of its addresses)")
		zz.Assert(zz.LockState(&svc.RWMutex) == 0, "the service lock is released after a GC pass")
		for _, e := range w.log[before:] {
			zz.Assert(e.lock == -1, "GC effects happen with the service lock write-held (no request in flight)")
		}
		if pass == 3 {
			quiet := true
			for _, e := range w.log[before:] {
				quiet = quiet && e.kind != "release" && e.kind != "delete" && e.kind != "put"
			}
			zz.Assert(quiet, "a third GC pass on the same world changes nothing more (idempotence)")
		}
	}
	for _, p := range pods {
		_, left := st.recs[p.id]
		rel, del := 0, 0
		relBeforeDel := true
		seenDel := false
		for _, e := range w.log {
			if e.key != p.id {
				continue
			}
			if e.kind == "release" {
				rel++
				if seenDel {
					relBeforeDel = false
				}
			}
			if e.kind == "delete" {
				del++
				seenDel = true
			}
		}
		if !vanished(p) {
			zz.Assert(left && rel == 0 && del == 0, "a pod that is running, or whose absence the API server did not confirm, is never collected")
			if p.local == 0 {
				rec := st.recs[p.id]
				zz.Assert(rec.PodInfo.IPStickTime == boolToStick(p.sticky), "the record of a running pod is not rewritten")
			}
		} else {
			zz.Assert(!left && rel == 1 && del == 1, "a pod the API server confirms gone is released and its record removed within two passes, also when its interface is no longer attached or another pod cannot be checked")
			zz.Assert(relBeforeDel, "the pool release precedes the deletion of the record")
		}
	}
	_ = eni.ResourceTypeLocalIP
}

func boolToStick(b bool) time.Duration {
	if b {
		return 1
	}
	return 0
}
