//go:build verif

package daemon

import zz "github.com/AliyunContainerService/terway/internal/zzverif"

// C09 (the collector never touches a pod that is running or has a request in
// flight, for all API lookup failures), last step of a pass under centralised
// address management: an entry of the node's runtime record is stamped
// "deleted" only when the pod has no local record, its initial entry is old
// enough, and the API server *confirmed* that the pod is gone - a failed
// lookup is no confirmation.  Same exploration as ZZ_C03_clean_runtime_node.
func ZZ_C09_runtime_stamp_needs_confirmation() {
	_ = zz.Shard(12) // same sharding as the exploration it wraps
	ZZ_C03_clean_runtime_node()
}
