//go:build verif

package daemon

import (
	"context"
	"errors"
	"net/netip"

	k8sErr "k8s.io/apimachinery/pkg/api/errors"
	"k8s.io/apimachinery/pkg/runtime/schema"

	zz "github.com/AliyunContainerService/terway/internal/zzverif"
	"github.com/AliyunContainerService/terway/pkg/eni"
	"github.com/AliyunContainerService/terway/pkg/k8s"
	"github.com/AliyunContainerService/terway/pkg/storage"
	"github.com/AliyunContainerService/terway/rpc"
	"github.com/AliyunContainerService/terway/types"
	"github.com/AliyunContainerService/terway/types/daemon"
)

// ---------- fakes shared by the daemon-level harnesses (C04, C05, C09) ----------

type zzEffect struct {
	kind string // put | delete | release | allocate | reply
	key  string
	uid  string // pod UID handed to the pool / IPAM backend
	rec  daemon.PodResources
	res  []eni.NetworkResource
	lock int
}

type zzWorld struct {
	noReleaseFaults bool
	sameOnPinned    bool // a pinned (repeated) ADD is answered with the pinned address
	lastReq         *eni.AllocRequest
	log             []zzEffect
	pendingD        map[string]bool
	svc             *networkService
}

// zzK8s: the API server as seen by the daemon.
type zzK8s struct {
	k8s.Kubernetes
	pod      *daemon.PodInfo
	getErr   int            // 0 ok, 1 not found, 2 other error
	exists   map[string]int // podID -> 0 exists, 1 gone, 2 lookup error
	local    []*daemon.PodInfo
	localErr bool
}

var errZZAPI = errors.New("api server error")

func (f *zzK8s) GetPod(ctx context.Context, namespace, name string, cache bool) (*daemon.PodInfo, error) {
	switch f.getErr {
	case 1:
		return nil, k8sErr.NewNotFound(schema.GroupResource{Resource: "pods"}, name)
	case 2:
		return nil, errZZAPI
	}
	return f.pod, nil
}
func (f *zzK8s) GetServiceCIDR() *types.IPNetSet { return &types.IPNetSet{} }
func (f *zzK8s) PatchPodIPInfo(info *daemon.PodInfo, ips string) error {
	return nil
}
func (f *zzK8s) GetLocalPods() ([]*daemon.PodInfo, error) {
	if f.localErr {
		return nil, errZZAPI
	}
	return f.local, nil
}
func (f *zzK8s) PodExist(namespace, name string) (bool, error) {
	switch f.exists[namespace+"/"+name] {
	case 1:
		return false, nil
	case 2:
		return false, errZZAPI
	}
	return true, nil
}

// zzStore: the resource database with an effect log and nondeterministic failures.
type zzStore struct {
	w       *zzWorld
	recs    map[string]daemon.PodResources
	order   []string
	failPut bool
	failDel bool
	failGet bool
}

func (s *zzStore) Put(key string, value interface{}) error {
	if s.failPut {
		return errZZAPI
	}
	rec := value.(daemon.PodResources)
	if _, ok := s.recs[key]; !ok {
		s.order = append(s.order, key)
	}
	s.recs[key] = rec
	s.w.log = append(s.w.log, zzEffect{kind: "put", key: key, rec: rec, lock: zz.LockState(&s.w.svc.RWMutex)})
	return nil
}
func (s *zzStore) Get(key string) (interface{}, error) {
	if s.failGet {
		return nil, errZZAPI
	}
	r, ok := s.recs[key]
	if !ok {
		return nil, storage.ErrNotFound
	}
	return r, nil
}
func (s *zzStore) List() ([]interface{}, error) {
	if s.failGet {
		return nil, errZZAPI
	}
	var out []interface{}
	for _, k := range s.order {
		if r, ok := s.recs[k]; ok {
			out = append(out, r)
		}
	}
	return out, nil
}
func (s *zzStore) Delete(key string) error {
	if s.failDel {
		return errZZAPI
	}
	delete(s.recs, key)
	s.w.log = append(s.w.log, zzEffect{kind: "delete", key: key, lock: zz.LockState(&s.w.svc.RWMutex)})
	return nil
}

const zzMgrAllocate = "(*github.com/AliyunContainerService/terway/pkg/eni.Manager).Allocate"
const zzMgrRelease = "(*github.com/AliyunContainerService/terway/pkg/eni.Manager).Release"

func zzLocalRes(eniID string, last byte) *eni.LocalIPResource {
	return &eni.LocalIPResource{ENI: daemon.ENI{ID: eniID, MAC: "00:00:00:00:00:0" + string('0'+last)}, IP: types.IPSet2{IPv4: netip.AddrFrom4([4]byte{10, 0, 0, last})}}
}

// zzService builds the service with the fakes; Manager.Allocate/Release are
// summarised (cut): Allocate returns a nondeterministic resource list and
// error (including "partial list + error"), both log their call together with
// the state of the service lock.
func zzService(mode string) (*networkService, *zzWorld, *zzK8s, *zzStore) {
	w := &zzWorld{}
	kc := &zzK8s{exists: map[string]int{}}
	st := &zzStore{w: w, recs: map[string]daemon.PodResources{}}
	svc := &networkService{daemonMode: mode, k8s: kc, resourceDB: st, enableIPv4: true, eniMgr: &eni.Manager{}}
	w.svc = svc
	zz.Override(zzMgrAllocate, func(m *eni.Manager, ctx context.Context, cni *daemon.CNI, req *eni.AllocRequest) (eni.NetworkResources, error) {
		var out eni.NetworkResources
		w.lastReq = req
		if w.sameOnPinned && len(req.ResourceRequests) == 1 {
			// the pool honours the pin of a repeated ADD: the pod gets the address it already holds
			if lr, ok := req.ResourceRequests[0].(*eni.LocalIPRequest); ok && lr.IPv4.IsValid() {
				out = append(out, zzLocalRes(lr.NetworkInterfaceID, lr.IPv4.As4()[3]))
				w.log = append(w.log, zzEffect{kind: "allocate", key: cni.PodID, res: out, lock: zz.LockState(&svc.RWMutex)})
				return out, nil
			}
		}
		n := zz.Fork("alloc.n", 3)
		for i := 0; i < n; i++ {
			out = append(out, zzLocalRes("eni-new", byte(20+i)))
		}
		w.log = append(w.log, zzEffect{kind: "allocate", key: cni.PodID, res: out, lock: zz.LockState(&svc.RWMutex)})
		if zz.Bool("alloc.fails") {
			return out, errZZAPI
		}
		zz.Assume(n == len(req.ResourceRequests)) // success: one resource per request
		return out, nil
	})
	zz.Override(zzMgrRelease, func(m *eni.Manager, ctx context.Context, cni *daemon.CNI, req *eni.ReleaseRequest) error {
		w.log = append(w.log, zzEffect{kind: "release", key: cni.PodID, uid: cni.PodUID, res: req.NetworkResources, lock: zz.LockState(&svc.RWMutex)})
		if !w.noReleaseFaults && zz.Bool("release.fails") {
			return errZZAPI
		}
		return nil
	})
	return svc, w, kc, st
}

func zzPodInfo(name string) *daemon.PodInfo {
	return &daemon.PodInfo{Namespace: "ns", Name: name, PodUID: "uid-" + name, PodNetworkType: daemon.PodNetworkTypeENIMultiIP}
}

func zzCount(w *zzWorld, kind string) int {
	n := 0
	for _, e := range w.log {
		if e.kind == kind {
			n++
		}
	}
	return n
}

// C04(a): while one request for a pod is in flight every other request for
// the same pod is rejected with the retryable "processing" error and has no effect.
// zz:noreplay Manager.Allocate/Release are summarised through engine-side overrides
func ZZ_C04_pending_rejects() {
	svc, w, kc, st := zzService(daemon.ModeENIMultiIP)
	kc.pod = zzPodInfo("p0")
	cid := "c1"
	st.recs["ns/p0"] = daemon.PodResources{PodInfo: kc.pod, ContainerID: &cid, Resources: zzLocalRes("eni-1", 5).ToStore()}
	svc.pendingPods.Store("ns/p0", struct{}{}) // a request for the pod is in flight
	var err error
	switch zz.Fork("rpc", 3) {
	case 0:
		_, err = svc.AllocIP(context.Background(), &rpc.AllocIPRequest{K8SPodNamespace: "ns", K8SPodName: "p0", K8SPodInfraContainerId: "c2"})
	case 1:
		_, err = svc.ReleaseIP(context.Background(), &rpc.ReleaseIPRequest{K8SPodNamespace: "ns", K8SPodName: "p0", K8SPodInfraContainerId: "c1"})
	default:
		_, err = svc.GetIPInfo(context.Background(), &rpc.GetInfoRequest{K8SPodNamespace: "ns", K8SPodName: "p0", K8SPodInfraContainerId: "c1"})
	}
	var te *types.Error
	zz.Assert(errors.As(err, &te) && te.Code == types.ErrPodIsProcessing, "a concurrent request for the same pod is rejected with the retryable processing error")
	zz.Assert(len(w.log) == 0, "a rejected request has no effect")
	_, still := svc.pendingPods.Load("ns/p0")
	zz.Assert(still, "a rejected request does not clear the in-flight marker of the running request")
	_, kept := st.recs["ns/p0"]
	zz.Assert(kept, "a rejected request leaves the record")
	zz.Assert(zz.LockState(&svc.RWMutex) == 0, "the service lock is not held after a rejection")
}

// C04(c,d): DEL / GET with a sandbox id different from the recorded one
// neither release nor return the allocation; a matching DEL releases every
// stored resource before deleting the record; a repeated DEL is a no-op.
// zz:noreplay Manager.Allocate/Release are summarised through engine-side overrides
func ZZ_C04_release() {
	svc, w, kc, st := zzService(daemon.ModeENIMultiIP)
	kc.pod = zzPodInfo("p0")
	kc.getErr = zz.Fork("getpod", 3)
	if zz.Bool("sticky") {
		kc.pod.IPStickTime = 1
	}
	svc.ipamType = types.IPAMType(zz.OneOf("ipam", "default", "crd"))
	stored := zz.OneOf("stored.cid", "c1", "c2")
	hasRec := zz.Bool("has.record")
	nRes := 0
	if hasRec {
		nRes = zz.Fork("stored.n", 3)
		var items []daemon.ResourceItem
		for i := 0; i < nRes; i++ {
			items = append(items, zzLocalRes("eni-1", byte(5+i)).ToStore()...)
		}
		if zz.Bool("stored.junk") {
			items = append(items, daemon.ResourceItem{Type: "unknown"})
		}
		st.recs["ns/p0"] = daemon.PodResources{PodInfo: kc.pod, ContainerID: &stored, Resources: items}
	}
	st.failDel = zz.Bool("delete.fails")
	reqID := zz.OneOf("req.cid", "c1", "c2")
	reply, err := svc.ReleaseIP(context.Background(), &rpc.ReleaseIPRequest{K8SPodNamespace: "ns", K8SPodName: "p0", K8SPodInfraContainerId: reqID})
	zz.Assert(zz.LockState(&svc.RWMutex) == 0, "the service lock is released")
	_, pend := svc.pendingPods.Load("ns/p0")
	zz.Assert(!pend, "the in-flight marker is removed when the request ends")
	for _, e := range w.log {
		zz.Assert(e.lock > 0, "every effect of a request happens with the service lock read-held")
	}
	nRel, nDel := zzCount(w, "release"), zzCount(w, "delete")
	stale := hasRec && reqID != stored
	if kc.getErr == 1 {
		zz.Assert(err == nil && reply != nil && reply.Success && len(w.log) == 0, "a DEL for a pod unknown to the API server succeeds without effect")
		return
	}
	if kc.getErr == 2 {
		zz.Assert(err != nil && len(w.log) == 0, "a failing pod lookup fails the DEL without effect")
		return
	}
	if stale {
		zz.Assert(err == nil && reply != nil && reply.Success, "a stale DEL is answered with success")
		zz.Assert(nRel == 0 && nDel == 0, "a DEL carrying another sandbox id neither releases nor deletes the current allocation")
		return
	}
	acts := svc.ipamType == types.IPAMTypeCRD || kc.pod.IPStickTime == 0
	if !acts {
		zz.Assert(nRel == 0 && nDel == 0 && err == nil, "a sticky-IP pod keeps its allocation on DEL")
		return
	}
	// every release precedes the delete
	seenDel := false
	for _, e := range w.log {
		if e.kind == "delete" {
			seenDel = true
		}
		zz.Assert(!(e.kind == "release" && seenDel), "the pool release precedes the deletion of the record")
	}
	if err == nil {
		zz.Assert(nRel == nRes, "one release per parsable stored resource")
		zz.Assert(nDel == 1 || st.failDel, "the record is deleted after the releases")
		_, left := st.recs["ns/p0"]
		zz.Assert(!left, "an acknowledged DEL leaves no record")
		// repeated DEL: no-op
		before := len(w.log)
		_, err2 := svc.ReleaseIP(context.Background(), &rpc.ReleaseIPRequest{K8SPodNamespace: "ns", K8SPodName: "p0", K8SPodInfraContainerId: reqID})
		zz.Assert(err2 == nil, "repeating a completed DEL succeeds")
		for _, e := range w.log[before:] {
			zz.Assert(e.kind != "release", "repeating a completed DEL releases nothing")
		}
	} else {
		zz.Assert(zz.Implies(st.failDel && nRel == nRes, true), "an error is reported when a release or the record deletion fails")
	}
}

// C04(c): status query with a stale sandbox id returns nothing of the current allocation.
// zz:noreplay Manager.Allocate/Release are summarised through engine-side overrides
func ZZ_C04_getinfo() {
	svc, w, kc, st := zzService(daemon.ModeENIMultiIP)
	kc.pod = zzPodInfo("p0")
	stored := zz.OneOf("stored.cid", "c1", "c2")
	confs := []*rpc.NetConf{{IfName: "eth0", DefaultRoute: true}}
	out, _ := jsonMarshalNetConf(confs)
	st.recs["ns/p0"] = daemon.PodResources{PodInfo: kc.pod, ContainerID: &stored, NetConf: out}
	reqID := zz.OneOf("req.cid", "c1", "c2")
	reply, err := svc.GetIPInfo(context.Background(), &rpc.GetInfoRequest{K8SPodNamespace: "ns", K8SPodName: "p0", K8SPodInfraContainerId: reqID})
	zz.Assert(err == nil && reply != nil && reply.Success, "a status query is answered")
	zz.Assert(len(w.log) == 0, "a status query has no effect")
	zz.Assert(zz.Implies(reqID != stored, len(reply.NetConfs) == 0), "a query carrying another sandbox id does not return the current allocation")
	zz.Assert(zz.Implies(reqID == stored, len(reply.NetConfs) == 1 && reply.NetConfs[0].IfName == "eth0"), "a matching query returns the recorded configuration")
}

// C04(e,f): an ADD that fails hands back every address it took and writes no
// record; a successful ADD writes exactly one record (sandbox id, resources)
// before replying; a repeated ADD is pinned to the recorded interface/address.
// zz:noreplay Manager.Allocate/Release are summarised through engine-side overrides
func ZZ_C04_alloc() {
	svc, w, kc, st := zzService(daemon.ModeENIMultiIP)
	kc.pod = zzPodInfo("p0")
	st.failPut = zz.Bool("put.fails")
	hasOld := zz.Bool("has.old")
	old := zzLocalRes("eni-1", 5)
	// the recorded address set of every family mix: IPv4 only, IPv6 only, dual stack
	switch zz.Fork("old.family", 3) {
	case 1:
		old.IP = types.IPSet2{IPv6: netip.MustParseAddr("fd00::5")}
	case 2:
		old.IP.IPv6 = netip.MustParseAddr("fd00::5")
	}
	oldCID := "c0"
	if hasOld {
		st.recs["ns/p0"] = daemon.PodResources{PodInfo: kc.pod, ContainerID: &oldCID, Resources: old.ToStore()}
	}
	var seenReq *eni.LocalIPRequest
	inner := zzMgrAllocate
	_ = inner
	reply, err := svc.AllocIP(context.Background(), &rpc.AllocIPRequest{K8SPodNamespace: "ns", K8SPodName: "p0", K8SPodInfraContainerId: "c1", Netns: "/proc/1/ns/net"})
	_ = seenReq
	zz.Assert(zz.LockState(&svc.RWMutex) == 0, "the service lock is released")
	_, pend := svc.pendingPods.Load("ns/p0")
	zz.Assert(!pend, "the in-flight marker is removed when the request ends")
	var alloc *zzEffect
	for i := range w.log {
		zz.Assert(w.log[i].lock > 0, "every effect of a request happens with the service lock read-held")
		if w.log[i].kind == "allocate" {
			alloc = &w.log[i]
		}
	}
	zz.Assert(alloc != nil, "the pool is asked for an allocation")
	if alloc == nil {
		return
	}
	lr, isLocal := w.lastReq.ResourceRequests[0].(*eni.LocalIPRequest)
	zz.Assert(len(w.lastReq.ResourceRequests) == 1 && isLocal, "a shared-ENI pod asks the local pool for one address set")
	if hasOld {
		zz.Assert(lr.NetworkInterfaceID == "eni-1" && lr.IPv4 == old.IP.IPv4 && lr.IPv6 == old.IP.IPv6, "a repeated ADD is pinned to the interface and the addresses (of whichever families) recorded at the previous ADD")
	} else {
		zz.Assert(lr.NetworkInterfaceID == "" && !lr.IPv4.IsValid() && !lr.IPv6.IsValid(), "a first ADD is not pinned")
	}
	nPut, nRel := zzCount(w, "put"), zzCount(w, "release")
	if err != nil {
		zz.Assert(reply == nil, "a failed ADD returns no configuration")
		zz.Assert(nPut == 0, "a failed ADD writes no record")
		failedInPool := nRel > 0 || len(alloc.res) == 0
		_ = failedInPool
		if nRel > 0 {
			rel := w.log[len(w.log)-1]
			for i := range w.log {
				if w.log[i].kind == "release" {
					rel = w.log[i]
				}
			}
			zz.Assert(len(rel.res) == len(alloc.res), "an ADD whose allocation failed hands back every address it took")
		}
		return
	}
	zz.Assert(nPut == 1 && nRel == 0, "a successful ADD writes exactly one record and releases nothing")
	rec := st.recs["ns/p0"]
	zz.Assert(rec.ContainerID != nil && *rec.ContainerID == "c1", "the record carries the sandbox id of this ADD")
	zz.Assert(len(rec.Resources) == len(alloc.res), "the record lists every allocated resource")
	zz.Assert(len(reply.NetConfs) == len(alloc.res) && reply.Success, "the reply carries one configuration per allocated resource")
	zz.Assert(len(alloc.res) >= 1, "an acknowledged ADD holds at least one resource")
}

func jsonMarshalNetConf(c []*rpc.NetConf) (string, error) {
	b, err := jsonMarshal(c)
	return string(b), err
}
