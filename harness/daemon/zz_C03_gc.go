//go:build verif

package daemon

// C03 (the node agent reports teardown only after it processed the pod's DEL
// or verified the pod's absence): the daemon's collector releases a stored
// pod - which is what makes the centralised backend report "deleted" for its
// UID - only when the pod is neither in the local list nor confirmed by the
// API server; a *failed* second look is no confirmation.  Same exploration as
// ZZ_C09_gc_pods (three passes over two records, every outcome of both looks).
// zz:noreplay Manager.Release and the datapath are summarised through engine-side overrides
func ZZ_C03_gc_releases_only_verified_absent() { ZZ_C09_gc_pods() }
