//go:build verif

package daemon

import (
	"context"
	"strconv"
	"sync"
	"time"

	zz "github.com/AliyunContainerService/terway/internal/zzverif"
	"github.com/AliyunContainerService/terway/pkg/aliyun/client"
	"github.com/AliyunContainerService/terway/pkg/aliyun/instance"
	"github.com/AliyunContainerService/terway/pkg/eni"
	"github.com/AliyunContainerService/terway/pkg/factory/aliyun"
	"github.com/AliyunContainerService/terway/pkg/k8s"
	"github.com/AliyunContainerService/terway/types"
	"github.com/AliyunContainerService/terway/types/daemon"
)

func (m *zzMeta) GetZoneID() (string, error)    { return "z1", nil }
func (m *zzMeta) GetVSwitchID() (string, error) { return "vsw-1", nil }

type zzAnnoK8s struct {
	*zzK8s
	anno map[string]string
}

func (k *zzAnnoK8s) PatchNodeAnnotations(a map[string]string) error { k.anno = a; return nil }

// C19, daemon start-up (legacy IPAM, shared-ENI mode): what the daemon
// advertises and plans from the limits and from the interfaces it finds
// attached.  The interface slots it plans (attached + to be created) never
// exceed the larger of the planned maximum and what is attached already; the
// RDMA slots never exceed the RDMA interfaces the type offers; the pod-IP
// and RDMA capacities written to the node add up to the pool capacity, are
// never negative and the RDMA share is at most RDMA interfaces times
// addresses per interface; RDMA is switched off when no slot is left for it.
// zz:noreplay the cloud factory, device plugin and pool manager are replaced through engine-side overrides
func ZZ_C19_daemon_slots() {
	// addresses per interface concrete per shard (products stay linear); adapters <= 6 (quick) / 10 (thorough): the slot loops are unrolled
	ipPer := []int{1, 10, 20}[zz.Shard(3)]
	maxAd := 6 + 4*zz.Tier()
	l := &client.Limits{Adapters: zz.IntRange("Adapters", 1, maxAd), IPv4PerAdapter: ipPer, IPv6PerAdapter: ipPer, ERdmaAdapters: zz.IntRange("ERdmaAdapters", 0, 3)}
	l.TotalAdapters = l.Adapters
	cfg := &daemon.Config{MaxENI: zz.IntRange("MaxENI", 0, maxAd+2), EniCapRatio: 1, EnableERDMA: zz.Bool("EnableERDMA"), IPStack: "ipv4",
		SecurityGroups: []string{"sg-1"}, MaxPoolSize: zz.IntRange("MaxPoolSize", 0, 4096), MinPoolSize: zz.IntRange("MinPoolSize", 0, 4096)}
	// initInstanceLimit/checkInstance ran before (decided by ZZ_C19_limits_features): RDMA stays on only with RDMA interfaces
	zz.Assume(!cfg.EnableERDMA || l.ERDMARes() > 0)
	wantRDMA := cfg.EnableERDMA
	instance.Init(&zzMeta{typ: "ecs.x"})
	svc, _, kc, st := zzService(daemon.ModeENIMultiIP)
	ak := &zzAnnoK8s{zzK8s: kc}
	svc.k8s = ak
	svc.resourceDB = st
	svc.enableIPv4 = true
	// the interfaces found attached at start-up: at most what the instance can hold
	nAtt := zz.Fork("attached", 4)
	zz.Assume(nAtt <= l.Adapters-1)
	var attached []*daemon.ENI
	nAttRdma := 0
	for i := 0; i < nAtt; i++ {
		e := &daemon.ENI{ID: "eni-" + strconv.Itoa(i), ERdma: zz.Fork("eni"+strconv.Itoa(i)+".erdma", 2) == 1}
		if e.ERdma {
			nAttRdma++
		}
		attached = append(attached, e)
	}
	// the daemon itself never creates more RDMA interfaces than ERDMARes(); interfaces attached by other means are outside the claim
	zz.Assume(nAttRdma <= l.ERDMARes())
	zz.Override("(*github.com/AliyunContainerService/terway/pkg/factory/aliyun.Aliyun).GetAttachedNetworkInterface", func(a *aliyun.Aliyun, trunk string) ([]*daemon.ENI, error) {
		return attached, nil
	})
	var dpCfg *daemon.Config
	var dpPool *daemon.PoolConfig
	zz.Override("github.com/AliyunContainerService/terway/daemon.runDevicePlugin", func(mode string, c *daemon.Config, p *daemon.PoolConfig) { dpCfg, dpPool = c, p })
	var slots []eni.NetworkInterface
	total := -1
	zz.Override("github.com/AliyunContainerService/terway/pkg/eni.NewManager", func(minIdles, maxIdles, tot int, sync time.Duration, nis []eni.NetworkInterface, pol daemon.EniSelectionPolicy, k k8s.Kubernetes) *eni.Manager {
		slots, total = nis, tot
		return &eni.Manager{}
	})
	zz.Override("(*github.com/AliyunContainerService/terway/pkg/eni.Manager).Run", func(m *eni.Manager, ctx context.Context, wg *sync.WaitGroup, res []daemon.PodResources) error {
		return nil
	})
	rdmaSlots := 0
	zz.Override("github.com/AliyunContainerService/terway/pkg/eni.NewLocal", func(e *daemon.ENI, typ string, f any, p *daemon.PoolConfig) *eni.Local {
		if typ == "erdma" {
			rdmaSlots++
		}
		return &eni.Local{}
	})
	// numbers are written into annotations as decimal strings; the harness keeps the numbers
	var nums []int
	zz.Override("strconv.Itoa", func(i int) string {
		nums = append(nums, i)
		return "#" + string(rune('a'+len(nums)-1))
	})
	numOf := func(s string) (int, bool) {
		if len(s) != 2 || s[0] != '#' {
			return 0, false
		}
		return nums[int(s[1]-'a')], true
	}
	b := &NetworkServiceBuilder{ctx: context.Background(), service: svc, daemonMode: daemon.ModeENIMultiIP, config: cfg, limit: l}
	err := b.setupENIManager()
	zz.Assert(err == nil && dpPool != nil && total >= 0, "start-up succeeds with a healthy environment")
	if err != nil || dpPool == nil {
		return
	}
	maxENI := dpPool.MaxENI
	zz.Assert(maxENI <= l.Adapters-1, "the planned maximum stays within the attachable secondary interfaces")
	zz.Assert(len(slots) <= max(l.Adapters-1, nAtt), "planned interface slots (attached + to be created) never exceed the attachable secondary interfaces")
	zz.Assert(rdmaSlots <= max(l.ERDMARes(), nAttRdma), "RDMA slots never exceed the RDMA interfaces the instance type offers (or already has)")
	normal, hasNormal := numOf(ak.anno[string(types.NormalIPTypeIPs)])
	zz.Assert(hasNormal, "the pod-IP capacity is always advertised")
	zz.Assert(normal <= (l.Adapters-1)*l.IPv4PerAdapter, "the advertised pod-IP capacity is at most attachable interfaces times addresses per interface")
	zz.Assert(total == dpPool.Capacity && dpPool.Capacity == maxENI*l.IPv4PerAdapter, "the pool capacity is slots times addresses per interface")
	if dpCfg.EnableERDMA {
		zz.Reach("rdma on")
		rd, hasRd := numOf(ak.anno[string(types.ERDMAIPTypeIPs)])
		zz.Assert(hasRd && rd >= 0 && rd <= l.ERDMARes()*l.IPv4PerAdapter && rd == dpPool.ERdmaCapacity, "the advertised RDMA capacity is at most RDMA interfaces times addresses per interface")
		zz.Assert(normal+rd == dpPool.Capacity, "pod-IP and RDMA capacity add up to the pool capacity")
	} else {
		_, has := ak.anno[string(types.ERDMAIPTypeIPs)]
		zz.Assert(!has && normal == dpPool.Capacity, "without RDMA the whole capacity is pod-IP capacity and no RDMA capacity is advertised")
		zz.Assert(rdmaSlots == 0, "no RDMA slot is planned when RDMA is off")
	}
	if wantRDMA && !dpCfg.EnableERDMA {
		zz.Reach("rdma switched off at start-up")
	}
	_ = client.Limits{}
}
