//go:build verif

package daemon

// C13 (exactly one default route per enabled family): the datapaths install a
// main-table default route for every configuration flagged DefaultRoute, so
// the daemon hands the plugin a list in which exactly one entry carries the
// flag - wherever in the list the flagged entry sits, and duplicates are
// refused wherever they sit.  Same exploration as ZZ_C12_default_route.
func ZZ_C13_one_default_route_entry() { ZZ_C12_default_route() }
