//go:build verif

package daemon

import (
	"io"
	"os"
	"path/filepath"

	zz "github.com/AliyunContainerService/terway/internal/zzverif"
)

// a minimal file system: a file is a byte string; opening with O_TRUNC empties
// it, without it the old bytes stay and writes overlay them from the handle's
// offset on (POSIX); io.Copy moves the source's bytes to the destination.
type zzFileSys struct {
	files map[string][]byte
	open  map[*os.File]*zzOpenFile
}
type zzOpenFile struct {
	name string
	off  int
}

func (fs *zzFileSys) install() {
	zz.Override("os.Open", func(name string) (*os.File, error) {
		if _, ok := fs.files[name]; !ok {
			return nil, os.ErrNotExist
		}
		f := new(os.File)
		fs.open[f] = &zzOpenFile{name: name}
		return f, nil
	})
	zz.Override("os.OpenFile", func(name string, flag int, perm os.FileMode) (*os.File, error) {
		_, exists := fs.files[name]
		if !exists && flag&os.O_CREATE == 0 {
			return nil, os.ErrNotExist
		}
		if !exists || flag&os.O_TRUNC != 0 {
			fs.files[name] = nil
		}
		f := new(os.File)
		fs.open[f] = &zzOpenFile{name: name}
		return f, nil
	})
	zz.Override("io.Copy", func(dst io.Writer, src io.Reader) (int64, error) {
		d, s := fs.open[dst.(*os.File)], fs.open[src.(*os.File)]
		b := fs.files[s.name][s.off:]
		cur := fs.files[d.name]
		end := d.off + len(b)
		next := append([]byte(nil), cur[:d.off]...)
		next = append(next, b...)
		if end < len(cur) {
			next = append(next, cur[end:]...) // what lay behind the written range stays
		}
		fs.files[d.name] = next
		d.off = end
		s.off += len(b)
		return int64(len(b)), nil
	})
	zz.Override("(*os.File).Close", func(f *os.File) error { return nil })
	zz.Override("os.Remove", func(name string) error {
		delete(fs.files, name)
		return nil
	})
}

// C20 (the CNI configuration on the node is valid JSON): on every start the
// daemon installs the freshly generated list into the host's CNI directory,
// which survives restarts.  Whatever is there from an earlier start - nothing,
// the same list, a longer list (a chainer that has since been dropped), a
// shorter one - the installed file is byte for byte the generated list; the
// left-over of the previous naming scheme is removed; a missing generated
// list is an error and the installed file is not touched.
// zz:noreplay the file system is replaced through engine-side overrides
func ZZ_C20_host_conflist_installed_whole() {
	fs := &zzFileSys{files: map[string][]byte{}, open: map[*os.File]*zzOpenFile{}}
	fs.install()
	src := filepath.Join(tmpCNIConfigPath, cinConfFile)
	dst := filepath.Join(hostCNIConfigPath, cinConfFile)
	generated := `{"cniVersion":"0.4.0","name":"terway-chainer","plugins":[{"type":"terway"}]}`
	hasSrc := !zz.Bool("generated.list.missing")
	if hasSrc {
		fs.files[src] = []byte(generated)
	}
	var before []byte
	switch zz.Fork("installed.before", 4) {
	case 1:
		before = []byte(generated)
	case 2:
		before = []byte(`{"cniVersion":"0.4.0","name":"terway-chainer","plugins":[{"type":"terway"},{"type":"cilium-cni"},{"type":"portmap"}]}`)
	case 3:
		before = []byte(`{}`)
	}
	if before != nil {
		fs.files[dst] = append([]byte(nil), before...)
	}
	fs.files[filepath.Join(hostCNIConfigPath, prevCNIConfFile)] = []byte("old")
	err := ensureCNIConfig()
	after, exists := fs.files[dst]
	if !hasSrc {
		zz.Assert(err != nil && exists == (before != nil) && string(after) == string(before), "without a generated list the call fails and the installed file is not touched")
		return
	}
	zz.Assert(err == nil && exists && string(after) == generated, "the installed file is exactly the generated list, whatever an earlier start left there")
	_, prevLeft := fs.files[filepath.Join(hostCNIConfigPath, prevCNIConfFile)]
	zz.Assert(!prevLeft, "the file of the previous naming scheme is removed")
}
