//go:build verif

package daemon

import (
	"context"
	"time"

	metav1 "k8s.io/apimachinery/pkg/apis/meta/v1"
	"k8s.io/apimachinery/pkg/util/sets"
	"sigs.k8s.io/controller-runtime/pkg/client"
	"sigs.k8s.io/controller-runtime/pkg/controller/controllerutil"

	zz "github.com/AliyunContainerService/terway/internal/zzverif"
	networkv1beta1 "github.com/AliyunContainerService/terway/pkg/apis/network.alibabacloud.com/v1beta1"
	"github.com/AliyunContainerService/terway/rpc"
	"github.com/AliyunContainerService/terway/types"
	"github.com/AliyunContainerService/terway/types/daemon"
)

type zzRuntimeClient struct {
	client.Client
	rt     *networkv1beta1.NodeRuntime
	saved  *networkv1beta1.NodeRuntime
	getErr bool
}

func (c *zzRuntimeClient) Get(ctx context.Context, key client.ObjectKey, obj client.Object, opts ...client.GetOption) error {
	if c.getErr {
		return errZZAPI
	}
	c.rt.DeepCopyInto(obj.(*networkv1beta1.NodeRuntime))
	return nil
}

// the write side: CreateOrPatch ends in Patch / Status().Patch; both record the object written
func (c *zzRuntimeClient) Patch(ctx context.Context, obj client.Object, patch client.Patch, opts ...client.PatchOption) error {
	c.saved = obj.(*networkv1beta1.NodeRuntime).DeepCopy()
	return nil
}
func (c *zzRuntimeClient) Status() client.SubResourceWriter { return &zzRuntimeStatus{c: c} }

type zzRuntimeStatus struct {
	client.SubResourceWriter
	c *zzRuntimeClient
}

func (s *zzRuntimeStatus) Patch(ctx context.Context, obj client.Object, patch client.Patch, opts ...client.SubResourcePatchOption) error {
	s.c.saved = obj.(*networkv1beta1.NodeRuntime).DeepCopy()
	return nil
}

type zzRuntimeK8s struct {
	*zzK8s
	cl *zzRuntimeClient
}

func (k *zzRuntimeK8s) GetClient() client.Client { return k.cl }
func (k *zzRuntimeK8s) NodeName() string         { return "n1" }

// C03(d), daemon side: the node runtime record of a pod is stamped "deleted"
// by the daemon's GC only when (1) the daemon holds no local record for the
// pod, (2) the record's final status is "initial" and at least 30 s old, and
// (3) the API server positively answered that the pod is gone.  A failed or
// positive lookup never produces the mark; marks of other pods are untouched.
func ZZ_C03_clean_runtime_node() {
	n := 1
	if zz.Tier() > 0 {
		n = 2
	}
	zzCleanRuntimeNode(n)
}

func zzCleanRuntimeNode(n int) {
	svc, _, kc, _ := zzService(daemon.ModeENIMultiIP)
	svc.ipamType = types.IPAMTypeCRD
	now := time.Now()
	rt := &networkv1beta1.NodeRuntime{ObjectMeta: metav1.ObjectMeta{Name: "n1"}}
	rt.Status.Pods = map[string]*networkv1beta1.RuntimePodStatus{}
	type pod struct {
		uid, id             string
		local               bool
		exist               int
		hasInit, hasDeleted bool
		tInit, tDel         time.Time
	}
	pods := make([]pod, n)
	local := sets.New[string]()
	ids := []string{"ns/a", "ns/b"}
	sh := zz.Shard(12) // first pod: local record x lookup answer x initial entry
	for i := 0; i < n; i++ {
		s := string(rune('a' + i))
		p := pod{uid: "uid-" + s, id: ids[i], local: zz.Bool(s + ".local"), exist: zz.Fork(s+".lookup", 3),
			hasInit: zz.Bool(s + ".initial"), hasDeleted: zz.Bool(s + ".deleted"),
			// arbitrary instants (whole seconds) up to ~11 days in the past
			tInit: time.Unix(now.Unix()-int64(zz.IntRange(s+".initialAge", 0, 1000000)), 0),
			tDel:  time.Unix(now.Unix()-int64(zz.IntRange(s+".deletedAge", 0, 1000000)), 0)}
		zz.Assume(!p.tInit.Equal(p.tDel)) // ties are resolved by map order (see ZZ_C03_runtime_final_status)
		if i == 1 {
			zz.Assume(p.hasInit && !p.hasDeleted) // second pod: an initial-only record of arbitrary age
		}
		if i == 0 {
			zz.Assume(p.local == (sh%2 == 1) && p.exist == (sh/2)%3 && p.hasInit == (sh/6 == 1))
		}
		if i == 0 && zz.Bool("a.badID") {
			p.id = "nsa"
		}
		pods[i] = p
		st := &networkv1beta1.RuntimePodStatus{PodID: p.id, Status: map[networkv1beta1.CNIStatus]*networkv1beta1.CNIStatusInfo{}}
		if p.hasInit {
			st.Status[networkv1beta1.CNIStatusInitial] = &networkv1beta1.CNIStatusInfo{LastUpdateTime: metav1.NewTime(p.tInit)}
		}
		if p.hasDeleted {
			st.Status[networkv1beta1.CNIStatusDeleted] = &networkv1beta1.CNIStatusInfo{LastUpdateTime: metav1.NewTime(p.tDel)}
		}
		rt.Status.Pods[p.uid] = st
		if p.local {
			local.Insert(p.uid)
		}
		kc.exists[p.id] = p.exist
	}
	cl := &zzRuntimeClient{rt: rt, getErr: zz.Bool("get.fails")}
	zz.Assume(!cl.getErr || n == 1 || sh == 0) // with two records the read failure is explored in one shard only
	svc.k8s = &zzRuntimeK8s{zzK8s: kc, cl: cl}
	// engine-side summary of CreateOrPatch (its diffing goes through reflection): mutate, then write.
	// Natively the real CreateOrPatch runs and ends in the same fake Patch calls.
	zz.Override("sigs.k8s.io/controller-runtime/pkg/controller/controllerutil.CreateOrPatch", func(ctx context.Context, c client.Client, obj client.Object, f controllerutil.MutateFn) (controllerutil.OperationResult, error) {
		if err := f(); err != nil {
			return controllerutil.OperationResultNone, err
		}
		return controllerutil.OperationResultUpdated, c.Status().Patch(ctx, obj, nil)
	})
	err := svc.cleanRuntimeNode(context.Background(), local)
	saved := cl.saved
	if cl.getErr {
		zz.Assert(err != nil && saved == nil, "nothing is written when the runtime record cannot be read")
		return
	}
	if saved == nil {
		return
	}
	zz.Assert(len(saved.Status.Pods) == n, "no pod record is dropped or invented by the GC")
	for _, p := range pods {
		after := saved.Status.Pods[p.uid]
		zz.Assert(after != nil, "the record of every pod is kept")
		if after == nil {
			continue
		}
		finalInitial := p.hasInit && (!p.hasDeleted || p.tInit.After(p.tDel))
		ai, ad := after.Status[networkv1beta1.CNIStatusInitial], after.Status[networkv1beta1.CNIStatusDeleted]
		zz.Assert((ai != nil) == p.hasInit && (ai == nil || ai.LastUpdateTime.Time.Equal(p.tInit)), "the initial entry is never touched by the GC")
		stamped := ad != nil && (!p.hasDeleted || !ad.LastUpdateTime.Time.Equal(p.tDel))
		// liveness of the GC: a confirmed-gone, old, unowned initial record is marked
		stale := !p.local && finalInitial && !p.tInit.Add(30*time.Second).After(now) && p.exist == 1 && (p.id == "ns/a" || p.id == "ns/b")
		zz.Assert(zz.Implies(stale, stamped), "a stale initial record of a pod confirmed gone is marked deleted")
		if stamped {
			zz.Reach("marked deleted")
			zz.Assert(!p.local, "a pod with a local resource record is never marked deleted by the GC")
			zz.Assert(p.exist == 1, "the deleted mark is written only after the API server confirmed the pod is gone (a failed lookup is not a confirmation)")
			zz.Assert(finalInitial, "only a record whose final status is initial is marked")
			zz.Assert(!ad.LastUpdateTime.Time.Before(p.tInit.Add(30*time.Second)), "the record is marked no earlier than 30 s after its initial entry")
			zz.Assert(p.id == "ns/a" || p.id == "ns/b", "a record with a malformed pod id is not marked")
		} else {
			zz.Assert((ad != nil) == p.hasDeleted, "a deleted entry is never removed by the GC")
		}
	}
	zz.Reach("saved")
}

// C03(c), hand-over from the DEL handler to the IPAM backend: the teardown is
// reported for the pod instance whose sandbox is torn down - the UID recorded
// at ADD time - not for whichever pod carries the name now (a same-named pod
// may have been created in between: reporting its UID would mark a live pod
// as deleted and leave the old one unreported).
// zz:noreplay Manager.Allocate/Release are summarised through engine-side overrides
func ZZ_C03_del_reports_recorded_instance() {
	svc, w, kc, st := zzService(daemon.ModeENIMultiIP)
	svc.ipamType = types.IPAMTypeCRD
	w.noReleaseFaults = true
	now := zzPodInfo("p0")
	now.PodUID = zz.OneOf("api.uid", "uid-old", "uid-new")
	kc.pod = now
	recorded := zzPodInfo("p0")
	recorded.PodUID = zz.OneOf("recorded.uid", "uid-old", "")
	cid := "c1"
	st.recs["ns/p0"] = daemon.PodResources{PodInfo: recorded, ContainerID: &cid, Resources: zzLocalRes("eni-1", 5).ToStore()}
	_, err := svc.ReleaseIP(context.Background(), &rpc.ReleaseIPRequest{K8SPodNamespace: "ns", K8SPodName: "p0", K8SPodInfraContainerId: "c1"})
	zz.Assert(err == nil, "the DEL succeeds")
	n := 0
	for _, e := range w.log {
		if e.kind != "release" {
			continue
		}
		n++
		if recorded.PodUID != "" {
			zz.Assert(e.uid == recorded.PodUID, "the teardown is reported for the pod instance recorded at ADD time, whatever pod carries the name now")
		} else {
			zz.Assert(e.uid == now.PodUID, "a record without an instance id falls back to the pod the API server knows")
		}
	}
	zz.Assert(n == 1, "the stored resource is released once")
}
