//go:build verif

package daemon

import (
	"context"

	"github.com/pkg/errors"

	zz "github.com/AliyunContainerService/terway/internal/zzverif"
	"github.com/AliyunContainerService/terway/pkg/eni"
	"github.com/AliyunContainerService/terway/pkg/link"
	"github.com/AliyunContainerService/terway/plugin/datapath"
	"github.com/AliyunContainerService/terway/rpc"
	"github.com/AliyunContainerService/terway/types"
	"github.com/AliyunContainerService/terway/types/daemon"

	cnitypes "github.com/AliyunContainerService/terway/plugin/driver/types"
)

// C15 (stored records): a record in the daemon's resource database whose
// item has any type (the two the daemon writes today, types older releases
// wrote, empty, wrong case) and any address / interface text never makes the
// daemon panic - neither when the item is parsed, nor on the collector pass
// for the vanished pod, nor on the pod's DEL: an item of unknown type is
// skipped (it yields no resource at all - not a nil pointer wrapped in the
// interface, which no `== nil` guard catches), nothing is released for it.
// zz:noreplay Manager.Release and the datapath are summarised through engine-side overrides
func ZZ_C15_stored_record() {
	item := daemon.ResourceItem{
		Type:   zz.OneOf("item.type", daemon.ResourceTypeENIIP, daemon.ResourceTypeENI, "eip", "vpcIp", "veth", "", "ENIIP", "eniip"),
		ID:     zz.OneOf("item.id", "", "00:00:00:00:00:05.10.0.0.5", "junk"),
		ENIID:  zz.OneOf("item.eni", "", "eni-1"),
		ENIMAC: zz.OneOf("item.mac", "", "00:00:00:00:00:05", "junk"),
		IPv4:   zz.OneOf("item.ipv4", "", "10.0.0.5", "junk", "fd00::5"),
		IPv6:   zz.OneOf("item.ipv6", "", "fd00::5", "junk"),
	}
	known := item.Type == daemon.ResourceTypeENIIP || item.Type == daemon.ResourceTypeENI
	res := parseNetworkResource(item)
	zz.Assert((res != nil) == known, "an item yields a resource exactly when its type is one the daemon handles")
	if lr, ok := res.(*eni.LocalIPResource); ok {
		zz.Assert(lr != nil, "an unknown item is no resource at all, not a nil pointer behind the interface")
	}
	if res != nil {
		_ = res.ResourceType()
		_ = res.ToRPC()
		_ = res.ToStore()
	}

	svc, w, kc, st := zzService(daemon.ModeENIMultiIP)
	svc.ipamType = types.IPAMTypeDefault
	w.noReleaseFaults = true
	info := zzPodInfo("p0")
	cid := "c0"
	st.recs["ns/p0"] = daemon.PodResources{PodInfo: info, ContainerID: &cid, Resources: []daemon.ResourceItem{item}}
	st.order = append(st.order, "ns/p0")
	zz.Override("github.com/AliyunContainerService/terway/daemon.ruleSync", func(ctx context.Context, res daemon.PodResources) error { return nil })
	zz.Override("github.com/AliyunContainerService/terway/pkg/link.GetDeviceNumber", func(mac string) (int32, error) {
		if mac != "00:00:00:00:00:05" {
			return 0, errors.Wrapf(link.ErrNotFound, "can't found dev by mac %s", mac)
		}
		return 7, nil
	})
	zz.Override("(*github.com/AliyunContainerService/terway/plugin/datapath.PolicyRoute).Teardown", func(p *datapath.PolicyRoute, ctx context.Context, cfg *cnitypes.TeardownCfg, netNS any) error {
		return nil
	})
	if zz.Bool("via.del") {
		// the pod's DEL
		kc.pod = info
		_, _ = svc.ReleaseIP(context.Background(), &rpc.ReleaseIPRequest{K8SPodNamespace: "ns", K8SPodName: "p0", K8SPodInfraContainerId: "c0"})
	} else {
		// the pod has vanished: collector pass
		kc.exists["ns/p0"] = 1
		_ = svc.gcPods(context.Background())
	}
	nRel := 0
	for _, e := range w.log {
		if e.kind != "release" {
			continue
		}
		nRel++
		for _, r := range e.res {
			lr, ok := r.(*eni.LocalIPResource)
			zz.Assert(ok && lr != nil, "only real resources are handed to the pool for release")
		}
	}
	zz.Assert(zz.Implies(!known, nRel == 0), "nothing is released for an item of unknown type")
	zz.Reach("stored-record-survived")
}

// C15 (stored records, start-up): dropping the items whose interface is no
// longer attached never panics, whatever mix of items a record holds and
// wherever the vanished ones sit (the filter deletes from the slice it walks).
// Same exploration as ZZ_C05_filter_eni_not_found.
func ZZ_C15_filter_stored_records_no_panic() { ZZ_C05_filter_eni_not_found() }
