//go:build verif

package main

import (
	"os"

	zz "github.com/AliyunContainerService/terway/internal/zzverif"
	"github.com/AliyunContainerService/terway/pkg/utils/nodecap"
	"github.com/AliyunContainerService/terway/types"
)

type zzCapStore struct {
	vals     map[string]string
	loadFail bool
	saved    bool
}

func (s *zzCapStore) Load() error {
	if s.loadFail {
		return errZZLink
	}
	return nil
}
func (s *zzCapStore) Save() error            { s.saved = true; return nil }
func (s *zzCapStore) Set(name, value string) { s.vals[name] = value }
func (s *zzCapStore) Get(name string) string { return s.vals[name] }

// zzFS: just enough of a file system - a file is a byte string; WriteFile
// replaces it; OpenFile truncates only with O_TRUNC (creates with O_CREATE);
// writes through a handle overlay the bytes at the handle's offset, which is
// what POSIX does.
type zzFS struct {
	files map[string][]byte
	open  map[*os.File]*zzHandle
}
type zzHandle struct {
	name string
	off  int
}

func (fs *zzFS) install() {
	zz.Override("os.WriteFile", func(name string, data []byte, perm os.FileMode) error {
		fs.files[name] = append([]byte(nil), data...)
		return nil
	})
	zz.Override("os.OpenFile", func(name string, flag int, perm os.FileMode) (*os.File, error) {
		_, exists := fs.files[name]
		if !exists && flag&os.O_CREATE == 0 {
			return nil, os.ErrNotExist
		}
		if !exists || flag&os.O_TRUNC != 0 {
			fs.files[name] = nil
		}
		f := new(os.File)
		h := &zzHandle{name: name}
		if flag&os.O_APPEND != 0 {
			h.off = len(fs.files[name])
		}
		fs.open[f] = h
		return f, nil
	})
	write := func(f *os.File, b []byte) (int, error) {
		h := fs.open[f]
		cur := fs.files[h.name]
		end := h.off + len(b)
		next := append([]byte(nil), cur[:h.off]...)
		next = append(next, b...)
		if end < len(cur) {
			next = append(next, cur[end:]...) // what lay behind the written range stays
		}
		cur = next
		fs.files[h.name] = cur
		h.off += len(b)
		return len(b), nil
	}
	zz.Override("(*os.File).WriteString", func(f *os.File, s string) (int, error) { return write(f, []byte(s)) })
	zz.Override("(*os.File).Write", func(f *os.File, b []byte) (int, error) { return write(f, b) })
	zz.Override("(*os.File).Sync", func(f *os.File) error { return nil })
	zz.Override("(*os.File).Close", func(f *os.File) error { return nil })
}

// C20 (the CNI configuration on the node is valid JSON): the exclusive-ENI
// step of node set-up runs after the plugin list was generated and replaces
// it by the fixed eni-only list.  Whatever is at the path before - nothing, a
// shorter file, the longer generated list - the file afterwards is exactly
// the eni-only list (no tail of the old content behind it); a node in the
// default mode keeps its generated list byte for byte; a changed mode or an
// unreadable capability file is an error and the file is not touched.
// zz:noreplay the file system is replaced through engine-side overrides
func ZZ_C20_exclusive_conflist_replaced() {
	fs := &zzFS{files: map[string][]byte{}, open: map[*os.File]*zzHandle{}}
	fs.install()
	path := "/etc/cni/net.d/10-terway.conflist"
	var before []byte
	switch zz.Fork("file.before", 3) {
	case 1:
		before = []byte(`{"short":1}`)
	case 2:
		before = []byte(eniOnlyCNI + `,{"type":"cilium-cni"},{"type":"portmap"}]}`) // longer than the template
	}
	if before != nil {
		fs.files[path] = append([]byte(nil), before...)
	}
	labels := map[string]string{}
	exclusive := zz.Bool("node.exclusive")
	if exclusive {
		labels[types.ExclusiveENIModeLabel] = string(types.ExclusiveENIOnly)
	}
	st := &zzCapStore{vals: map[string]string{}, loadFail: zz.Bool("capability.file.unreadable")}
	recorded := zz.OneOf("recorded.mode", "", string(types.ExclusiveENIOnly), string(types.ExclusiveDefault))
	st.vals[nodecap.NodeCapabilityExclusiveENI] = recorded
	err := setExclusiveMode(st, labels, path)
	now := string(types.ExclusiveDefault)
	if exclusive {
		now = string(types.ExclusiveENIOnly)
	}
	after, exists := fs.files[path]
	if st.loadFail || (recorded != "" && recorded != now) {
		zz.Assert(err != nil, "an unreadable capability file or a changed mode is an error")
		zz.Assert(exists == (before != nil) && string(after) == string(before), "and the configuration file is not touched")
		return
	}
	zz.Assert(err == nil && st.saved && st.vals[nodecap.NodeCapabilityExclusiveENI] == now, "the mode is recorded")
	if exclusive {
		zz.Assert(exists && string(after) == eniOnlyCNI, "on an exclusive-ENI node the file is exactly the eni-only list, whatever was there before")
	} else {
		zz.Assert(exists == (before != nil) && string(after) == string(before), "on a default node the generated list is left byte for byte")
	}
}
