//go:build verif

package main

import (
	"errors"
	"github.com/Jeffail/gabs/v2"

	"github.com/vishvananda/netlink"
	"k8s.io/component-base/featuregate"

	zz "github.com/AliyunContainerService/terway/internal/zzverif"
	"github.com/AliyunContainerService/terway/pkg/utils/nodecap"
)

var errZZLink = errors.New("netlink failure")

func zzLinkLookup(outcome int) {
	// 0 the cilium_net link exists, 1 it does not exist, 2 the lookup fails otherwise
	zz.Override("github.com/vishvananda/netlink.LinkByName", func(name string) (netlink.Link, error) {
		switch outcome {
		case 0:
			return &netlink.Dummy{LinkAttrs: netlink.LinkAttrs{Name: name}}, nil
		case 1:
			return nil, netlink.LinkNotFoundError{}
		}
		return nil, errZZLink
	})
}

// C20 (recorded node capabilities and the previous datapath steer the
// rewrite): the two decisions the plugin-list rewrite reads from the node's
// recorded state.  (1) migrating ipvlan to datapath v2 needs the feature
// gate; with it, a node that already runs v2 stays on v2, any other node
// switches only when no cilium_net device is left from the old datapath.
// (2) eBPF network policy on the veth datapath: a recorded chainer decision
// (yes / no) is kept whatever is requested; without a record an existing
// cilium_net device means yes, no device means "as requested", and a failing
// device lookup or capability file is an error, never a silent default.
// zz:noreplay the feature gate, the capability file and the link lookup are replaced through engine-side overrides
func ZZ_C20_recorded_capabilities() {
	gate := zz.Bool("gate.AutoDataPathV2")
	zz.Override("(*k8s.io/component-base/featuregate.featureGate).Enabled", func(f any, key featuregate.Feature) bool { return gate })
	prev := zz.OneOf("recorded.datapath", "", "datapathv2", "ipvlan", "veth")
	zz.Override("github.com/AliyunContainerService/terway/pkg/utils/nodecap.GetNodeCapabilities", func(name string) string {
		if name == nodecap.NodeCapabilityDataPath {
			return prev
		}
		return ""
	})
	link := zz.Fork("cilium_net", 3)
	zzLinkLookup(link)
	got := switchDataPathV2()
	want := gate && (prev == "datapathv2" || link == 1)
	zz.Assert(got == want, "datapath v2 migration: feature gate on, and the node already runs v2 or has no cilium_net device left")

	recorded := zz.OneOf("recorded.chainer", "", True, False, "junk")
	loadFails := zz.Bool("capability.file.unreadable")
	zz.Override("(*github.com/AliyunContainerService/terway/pkg/utils/nodecap.FileNodeCapabilities).Load", func(s *nodecap.FileNodeCapabilities) error {
		if loadFails {
			return errZZLink
		}
		s.Set(nodecap.NodeCapabilityHasCiliumChainer, recorded)
		return nil
	})
	require := zz.Bool("policy.requested")
	allow, err := allowEBPFNetworkPolicy(require)
	switch {
	case loadFails:
		zz.Assert(err != nil && !allow, "an unreadable capability file is an error")
	case recorded == True:
		zz.Assert(err == nil && allow, "a recorded chainer is kept")
	case recorded == False:
		zz.Assert(err == nil && !allow, "a recorded decision against the chainer is kept, whatever is requested now")
	case link == 0:
		zz.Assert(err == nil && allow, "without a record an existing cilium_net device means the chainer is in use")
	case link == 2:
		zz.Assert(err != nil && !allow, "a failing device lookup is an error, not a silent default")
	default:
		zz.Assert(err == nil && allow == require, "a fresh node follows the request")
	}
}

// C20 (the recorded capabilities describe the chain that was generated): what
// the next run - and the policy container - read back.  For a generated list
// of up to three plugins in any order (terway first or not, the eBPF chainer
// anywhere in the list, other plugins before or after it): the record says
// "has chainer" exactly when the list contains the chainer, and names the
// datapath / policy provider of the terway entry; an unreadable capability
// file or a failing bpffs mount is an error and nothing is saved.
// zz:noreplay the capability file and the bpffs mount are replaced through engine-side overrides
func ZZ_C20_store_runtime_config() {
	kinds := []string{pluginTypeTerway, pluginTypeCilium, "portmap"}
	n := zz.Fork("plugins", 3) + 1
	doc := gabs.New()
	_, _ = doc.Array("plugins")
	hasChainer := false
	terwayDP := ""
	for i := 0; i < n; i++ {
		k := kinds[zz.Fork("plugin"+string(rune('0'+i))+".type", 3)]
		p := gabs.New()
		_, _ = p.Set(k, "type")
		if k == pluginTypeCilium {
			hasChainer = true
		}
		if k == pluginTypeTerway && terwayDP == "" {
			terwayDP = zz.OneOf("terway.datapath", "veth", "ipvlan", "datapathv2")
			_, _ = p.Set(terwayDP, "eniip_virtual_type")
		}
		_ = doc.ArrayAppend(p.Data(), "plugins")
	}
	loadFails := zz.Bool("capability.file.unreadable")
	mountFails := zz.Bool("bpffs.mount.fails")
	saved := map[string]string{}
	var store *nodecap.FileNodeCapabilities
	didSave := false
	zz.Override("(*github.com/AliyunContainerService/terway/pkg/utils/nodecap.FileNodeCapabilities).Load", func(s *nodecap.FileNodeCapabilities) error {
		store = s
		if loadFails {
			return errZZLink
		}
		return nil
	})
	zz.Override("(*github.com/AliyunContainerService/terway/pkg/utils/nodecap.FileNodeCapabilities).Save", func(s *nodecap.FileNodeCapabilities) error {
		didSave = true
		for _, k := range []string{nodecap.NodeCapabilityHasCiliumChainer, nodecap.NodeCapabilityDataPath} {
			saved[k] = s.Get(k)
		}
		return nil
	})
	mounts := 0
	zz.Override("github.com/AliyunContainerService/terway/cmd/terway-cli.mountHostBpf", func() error {
		mounts++
		if mountFails {
			return errZZLink
		}
		return nil
	})
	err := storeRuntimeConfig("/var/run/eni/node_capabilities", doc)
	_ = store
	if loadFails || (hasChainer && mountFails) {
		zz.Assert(err != nil && !didSave, "a failure is reported and nothing is recorded")
		return
	}
	zz.Assert(err == nil && didSave, "the record is saved")
	zz.Assert((saved[nodecap.NodeCapabilityHasCiliumChainer] == True) == hasChainer && (saved[nodecap.NodeCapabilityHasCiliumChainer] == False) == !hasChainer, "the record says 'has chainer' exactly when the generated list contains the eBPF chainer, wherever it sits in the list")
	zz.Assert(zz.Implies(terwayDP != "", saved[nodecap.NodeCapabilityDataPath] == terwayDP), "the recorded datapath is the terway entry's virtual type")
	zz.Assert(zz.Implies(hasChainer, mounts >= 1) && zz.Implies(!hasChainer, mounts == 0), "the bpf file system is mounted exactly when the chainer is in the list")
}
