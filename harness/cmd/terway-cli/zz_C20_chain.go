//go:build verif

package main

import (
	"errors"
	"strconv"

	"github.com/Jeffail/gabs/v2"

	zz "github.com/AliyunContainerService/terway/internal/zzverif"
)

var errZZCap = errors.New("node capability store error")

// C20 (CNI chain): the generated plugin list for every combination of up to
// three input plugins (terway / cilium-cni / other; requested virtual type and
// policy provider absent, well-formed, junk or non-string), kernel features,
// feature gate, recorded node capabilities and previous datapath.
// gabs.ParseJSON is replaced by a document model (the tree a decoder would
// produce); all gabs container operations run on that tree for real.
// zz:noreplay gabs.ParseJSON / StringIndent / allowEBPFNetworkPolicy are summarised through engine-side overrides
func ZZ_C20_cni_chain() {
	n := zz.Fork("plugins", 3) + 1
	docs := map[string]map[string]any{}
	types_ := make([]string, n)
	var configs [][]byte
	reqVT := ""
	hasVT := false
	vtIsString := true
	nTerway := 0
	for i := 0; i < n; i++ {
		is := strconv.Itoa(i)
		t := []string{"terway", "cilium-cni", "portmap"}[zz.Fork("plugin"+is+".type", 3)]
		types_[i] = t
		doc := map[string]any{"type": t, "zzid": i, "cniVersion": "0.3.1", "name": "x"}
		if t == "terway" {
			nTerway++
			switch zz.Fork("plugin"+is+".vt", 8) {
			case 0:
			case 1:
				doc["eniip_virtual_type"] = "veth"
				hasVT, reqVT = true, "veth"
			case 2:
				doc["eniip_virtual_type"] = ""
				hasVT, reqVT = true, ""
			case 3:
				doc["eniip_virtual_type"] = "ipvlan"
				hasVT, reqVT = true, "ipvlan"
			case 4:
				doc["eniip_virtual_type"] = "IPVlan"
				hasVT, reqVT = true, "ipvlan"
			case 5:
				doc["eniip_virtual_type"] = "datapathv2"
				hasVT, reqVT = true, "datapathv2"
			case 6:
				doc["eniip_virtual_type"] = "junk"
				hasVT, reqVT = true, "junk"
			case 7:
				doc["eniip_virtual_type"] = 7
				hasVT, vtIsString = true, false
			}
			switch zz.Fork("plugin"+is+".npp", 4) {
			case 1:
				doc["network_policy_provider"] = "iptables"
			case 2:
				doc["network_policy_provider"] = "ebpf"
			case 3:
				doc["network_policy_provider"] = "junk"
			}
		}
		key := "doc" + is
		docs[key] = doc
		configs = append(configs, []byte(key))
	}
	zz.Assume(nTerway == 1) // the daemon's input always carries exactly one terway entry
	_ = hasVT
	_ = vtIsString
	zz.Override("github.com/Jeffail/gabs/v2.ParseJSON", func(b []byte) (*gabs.Container, error) {
		d, ok := docs[string(b)]
		if !ok {
			return nil, errZZCap
		}
		return gabs.Wrap(d), nil
	})
	var out *gabs.Container
	zz.Override("(*github.com/Jeffail/gabs/v2.Container).StringIndent", func(c *gabs.Container, prefix, indent string) string {
		out = c
		return "{}"
	})
	allowErr := zz.Bool("capabilities.fail")
	allow := zz.Bool("capabilities.allow.ebpf.policy")
	zz.Override("github.com/AliyunContainerService/terway/cmd/terway-cli.allowEBPFNetworkPolicy", func(require bool) (bool, error) {
		if allowErr {
			return false, errZZCap
		}
		return allow, nil
	})
	switchV2 := zz.Bool("prev.datapath.v2")
	_switchDataPathV2 = func() bool { return switchV2 }
	f := &feature{EBPF: zz.Bool("kernel.ebpf"), EDT: zz.Bool("kernel.edt"), EnableNetworkPolicy: zz.Bool("gate.networkpolicy")}

	_, err := mergeConfigList(configs, f)
	if err != nil {
		zz.Reach("rejected")
		zz.Assert(out == nil, "a rejected input produces no configuration")
		return
	}
	zz.Assert(out != nil, "an accepted input produces a configuration")
	plugins := out.Path("plugins").Children()
	// order preserved; only cilium entries may be dropped, and only without eBPF
	k := 0
	ciliumOut, appended := 0, 0
	var terway *gabs.Container
	for _, p := range plugins {
		pt, _ := p.Path("type").Data().(string)
		if pt == "cilium-cni" {
			ciliumOut++
		}
		id, isInput := p.Path("zzid").Data().(int)
		if !isInput {
			appended++
			zz.Assert(pt == "cilium-cni", "only an eBPF chainer entry is ever added")
			continue
		}
		for k < n && k != id {
			zz.Assert(types_[k] == "cilium-cni" && !f.EBPF, "an input plugin is dropped only if it is the eBPF chainer on a kernel without eBPF support")
			k++
		}
		zz.Assert(k < n, "the generated list keeps the input plugin order")
		k++
		if pt == "terway" {
			terway = p
		}
		zz.Assert(!p.Exists("cniVersion") && !p.Exists("name"), "per-plugin cniVersion / name are stripped")
	}
	for ; k < n; k++ {
		zz.Assert(types_[k] == "cilium-cni" && !f.EBPF, "an input plugin is dropped only if it is the eBPF chainer on a kernel without eBPF support")
	}
	zz.Assert(appended <= 1, "at most one chainer is appended")
	zz.Assert(zz.Implies(!f.EBPF, ciliumOut == 0), "no eBPF chainer on a kernel without eBPF support")
	zz.Assert(terway != nil, "the terway entry is kept")
	if terway == nil {
		return
	}
	if !f.EBPF {
		zz.Assert(!terway.Exists("eniip_virtual_type"), "without eBPF support the virtual type is removed (plain veth datapath)")
		return
	}
	vt, ok := terway.Path("eniip_virtual_type").Data().(string)
	zz.Assert(ok && (vt == "veth" || vt == "ipvlan" || vt == "datapathv2"), "the virtual type is one of the supported set")
	bm, ok2 := terway.Path("bandwidth_mode").Data().(string)
	zz.Assert(ok2 && (bm == "edt" || bm == "tc"), "the bandwidth mode is one of the supported set")
	zz.Assert(zz.Implies(bm == "edt", f.EDT && vt != "veth"), "EDT bandwidth mode only with EDT support and a non-veth datapath")
	zz.Assert(zz.Implies(vt == "ipvlan" || vt == "datapathv2", ciliumOut >= 1), "an eBPF chainer is present whenever the selected datapath (ipvlan, datapath v2) requires one")
	zz.Assert(reqVT != "junk", "an unknown virtual type is rejected, not silently defaulted")
	zz.Reach("accepted")
}
