//go:build verif

package daemon

import (
	"context"
	"encoding/json"
	"strconv"

	zz "github.com/AliyunContainerService/terway/internal/zzverif"
)

// C18 (at most ten security groups, also for defaulted values): the cluster
// configuration the webhook fills missing security groups from is refused as
// a whole when the groups it yields - the legacy single field and the list,
// merged, duplicates counted once - are more than ten; otherwise it is
// returned and yields exactly that union.
// zz:noreplay the validators are summarised through engine-side overrides
func ZZ_C18_config_security_group_bound() {
	zzStubValidators()
	zz.FixedMapOrder(true)                     // the walk order of the set is the subject of ZZ_C16_security_groups_stable_order, not of this bound
	n := 9 + zz.Fork("list.length.minus.9", 3) // 9, 10, 11 listed groups
	conf := &Config{Version: "1"}
	for i := 0; i < n; i++ {
		conf.SecurityGroups = append(conf.SecurityGroups, "sg-"+strconv.Itoa(10+i))
	}
	want := n
	switch zz.Fork("legacy.field", 3) {
	case 1:
		conf.SecurityGroup = "sg-legacy"
		want++
	case 2:
		conf.SecurityGroup = "sg-10" // repeats a listed group
	}
	doc, _ := json.Marshal(conf)
	base := string(doc)
	cfg, err := ConfigFromConfigMap(context.Background(), &zzCMClient{base: &base}, "")
	if want > 10 {
		zz.Assert(err != nil && cfg == nil, "a cluster configuration that yields more than ten security groups is refused")
		return
	}
	zz.Assert(err == nil && cfg != nil, "a cluster configuration with at most ten security groups is accepted")
	if cfg != nil {
		zz.Assert(len(cfg.GetSecurityGroups()) == want, "it yields the union of the legacy field and the list")
	}
}
