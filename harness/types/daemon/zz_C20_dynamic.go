//go:build verif

package daemon

import (
	"context"
	"encoding/json"
	"errors"

	"github.com/go-playground/mold/v4"
	"github.com/go-playground/validator/v10"
	corev1 "k8s.io/api/core/v1"
	"sigs.k8s.io/controller-runtime/pkg/client"

	zz "github.com/AliyunContainerService/terway/internal/zzverif"
)

var errZZGetCM = errors.New("get failed")

// zzCMClient: the API server holding the cluster configuration, the node and
// (optionally) the node's dynamic configuration.
type zzCMClient struct {
	client.Client
	base      *string // eni_conf of kube-system/eni-config; nil: ConfigMap missing
	nodeLabel string  // value of the node's terway-config label ("" = none)
	nodeFails bool
	overlay   *string // eni_conf of the dynamic ConfigMap; nil: ConfigMap missing
}

func (c *zzCMClient) Get(ctx context.Context, key client.ObjectKey, obj client.Object, opts ...client.GetOption) error {
	switch o := obj.(type) {
	case *corev1.Node:
		if c.nodeFails || key.Name != "n1" {
			return errZZGetCM
		}
		o.Name = "n1"
		o.Labels = map[string]string{}
		if c.nodeLabel != "" {
			o.Labels["terway-config"] = c.nodeLabel
		}
		return nil
	case *corev1.ConfigMap:
		if key.Namespace != "kube-system" {
			return errZZGetCM
		}
		switch key.Name {
		case "eni-config":
			if c.base == nil {
				return errZZGetCM
			}
			o.Data = map[string]string{"eni_conf": *c.base, "other": "x"}
			return nil
		case "node-cm":
			if c.overlay == nil {
				return errZZGetCM
			}
			o.Data = map[string]string{"eni_conf": *c.overlay}
			return nil
		}
	}
	return errZZGetCM
}

// the struct modifiers / validators of go-playground are reflection driven and
// not executed: they pass (their tags only trim strings and bound numbers)
func zzStubValidators() {
	zz.Override("(*github.com/go-playground/mold/v4.Transformer).Struct", func(t *mold.Transformer, ctx context.Context, v interface{}) error { return nil })
	zz.Override("(*github.com/go-playground/validator/v10.Validate).Struct", func(v *validator.Validate, s interface{}) error { return nil })
	zz.Override("github.com/go-playground/mold/v4/modifiers.New", func() *mold.Transformer { return nil })
	zz.Override("github.com/go-playground/validator/v10.New", func() *validator.Validate { return nil })
}

// C20 (layering as the controllers resolve it): the configuration of a node
// is the cluster document kube-system/eni-config with the node's dynamic
// document (named by the node label terway-config) merged *over* it - base
// first, overlay second, once.  Without a node name, without the label, when
// the node cannot be read, or when the dynamic document is empty, the result
// is the cluster document unchanged; a missing cluster document or an
// unreadable dynamic ConfigMap is an error, never a silently different
// configuration.
// zz:noreplay jsonpatch.MergePatch and the validators are summarised through engine-side overrides
func ZZ_C20_config_from_configmap() {
	zzStubValidators()
	baseDoc, _ := json.Marshal(&Config{Version: "base", MaxPoolSize: 5, SecurityGroup: "sg-base"})
	mergedDoc, _ := json.Marshal(&Config{Version: "merged", MaxPoolSize: 7, SecurityGroup: "sg-base"})
	calls := 0
	var gotDoc, gotPatch string
	zz.Override("github.com/evanphx/json-patch.MergePatch", func(docData, patchData []byte) ([]byte, error) {
		calls++
		gotDoc, gotPatch = string(docData), string(patchData)
		return mergedDoc, nil
	})
	base := string(baseDoc)
	c := &zzCMClient{}
	switch zz.Fork("cluster.doc", 3) {
	case 0:
		c.base = &base
	case 1:
		empty := ""
		c.base = &empty
	}
	nodeName := zz.OneOf("node.name", "", "n1")
	c.nodeFails = zz.Bool("node.lookup.fails")
	if zz.Bool("node.has.label") {
		c.nodeLabel = "node-cm"
	}
	overlayText := ""
	switch zz.Fork("dynamic.doc", 4) {
	case 0:
		overlayText = `{"max_pool_size":7}`
		c.overlay = &overlayText
	case 1:
		overlayText = `{}`
		c.overlay = &overlayText
	case 2:
		c.overlay = &overlayText // ConfigMap without eni_conf content
	}
	cfg, err := ConfigFromConfigMap(context.Background(), c, nodeName)
	if c.base == nil || *c.base == "" {
		zz.Assert(err != nil && cfg == nil, "without a cluster document there is no configuration")
		return
	}
	dynamic := nodeName != "" && !c.nodeFails && c.nodeLabel != ""
	if !dynamic {
		zz.Assert(err == nil && cfg != nil && calls == 0 && cfg.Version == "base" && cfg.MaxPoolSize == 5 && cfg.SecurityGroup == "sg-base", "a node without dynamic configuration gets the cluster document unchanged")
		return
	}
	if c.overlay == nil {
		zz.Assert(err != nil && cfg == nil, "an unreadable dynamic ConfigMap is an error")
		return
	}
	if overlayText == "" {
		zz.Assert(err == nil && cfg != nil && calls == 0 && cfg.Version == "base" && cfg.MaxPoolSize == 5, "an empty dynamic document changes nothing")
		return
	}
	zz.Assert(calls == 1 && gotDoc == base && gotPatch == overlayText, "the dynamic document is merged once over the cluster document: cluster document first, dynamic document as the patch")
	zz.Assert(err == nil && cfg != nil && cfg.Version == "merged" && cfg.MaxPoolSize == 7 && cfg.SecurityGroup == "sg-base", "the merged document is the node's configuration (keys absent from the overlay keep the cluster value)")
}
