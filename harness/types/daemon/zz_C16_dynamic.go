//go:build verif

package daemon

import (
	zz "github.com/AliyunContainerService/terway/internal/zzverif"
)

// C16 (same parameters => same token, across retries that re-read the
// configuration): the security-group list a create-interface request is built
// from is a function of the configuration's content - the same sequence on
// every call, whatever order the set behind it is walked in (the request hash
// that keys the token pool covers the groups in the order given).
// zz:repeat 32
func ZZ_C16_security_groups_stable_order() {
	conf := &Config{SecurityGroups: []string{zz.OneOf("g0", "sg-b", "sg-c"), "sg-a", zz.OneOf("g2", "sg-d", "sg-a")}}
	if zz.Bool("legacy") {
		conf.SecurityGroup = zz.OneOf("legacy.id", "sg-0", "sg-z", "sg-a")
	}
	first := conf.GetSecurityGroups()
	second := conf.GetSecurityGroups()
	zz.Assert(len(first) == len(second), "two reads of one configuration yield the same number of groups")
	for i := range first {
		if i < len(second) {
			zz.Assert(first[i] == second[i], "two reads of one configuration yield the groups in the same order")
		}
		if i > 0 {
			zz.Assert(first[i-1] < first[i], "the groups are listed once each, in ascending order")
		}
	}
}
