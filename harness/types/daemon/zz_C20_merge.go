//go:build verif

package daemon

import (
	"encoding/json"
	"errors"

	zz "github.com/AliyunContainerService/terway/internal/zzverif"
)

var errZZPatch = errors.New("merge patch error")

// C20 (configuration layering), dispatch only: the RFC 7396 laws themselves
// are properties of evanphx/json-patch + encoding/json (byte-level, reflection
// driven) and are outside what this encoder reaches.  Decided here: an empty
// overlay never goes through the merge (the base is decoded unchanged), a
// non-empty overlay is merged exactly once over the base (base first, overlay
// second) and the merged document is what gets decoded; errors are propagated.
// zz:noreplay jsonpatch.MergePatch is summarised through an engine-side override
func ZZ_C20_merge_dispatch() {
	base := &Config{Version: "base", MaxPoolSize: 5}
	baseBytes, _ := json.Marshal(base)
	merged := &Config{Version: "merged", MaxPoolSize: 7}
	mergedBytes, _ := json.Marshal(merged)
	calls := 0
	var gotBase, gotTop string
	patchFails := zz.Bool("merge.fails")
	zz.Override("github.com/evanphx/json-patch.MergePatch", func(docData, patchData []byte) ([]byte, error) {
		calls++
		gotBase, gotTop = string(docData), string(patchData)
		if patchFails {
			return nil, errZZPatch
		}
		return mergedBytes, nil
	})
	var top []byte
	switch zz.Fork("overlay", 3) {
	case 0:
		top = nil
	case 1:
		top = []byte{}
	default:
		top = []byte(`{"max_pool_size":7}`)
	}
	cfg, err := MergeConfigAndUnmarshal(top, baseBytes)
	if len(top) == 0 {
		zz.Assert(calls == 0, "an empty overlay never goes through the merge")
		zz.Assert(err == nil && cfg != nil && cfg.Version == "base" && cfg.MaxPoolSize == 5, "an empty overlay changes nothing: the base configuration is decoded as it is")
		return
	}
	zz.Assert(calls == 1 && gotBase == string(baseBytes) && gotTop == string(top), "a non-empty overlay is merged exactly once, over the base")
	if patchFails {
		zz.Assert(err != nil && cfg == nil, "a merge error is reported and no configuration is returned")
		return
	}
	zz.Assert(err == nil && cfg != nil && cfg.Version == "merged" && cfg.MaxPoolSize == 7, "the merged document is what gets decoded")
}
