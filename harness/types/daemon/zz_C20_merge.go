//go:build verif

package daemon

import (
	"encoding/json"
	"errors"

	zz "github.com/AliyunContainerService/terway/internal/zzverif"
)

var errZZPatch = errors.New("merge patch error")

// C20 (configuration layering), dispatch only: the RFC 7396 laws themselves
// are properties of evanphx/json-patch + encoding/json (byte-level, reflection
// driven) and are outside what this encoder reaches.  Decided here: an empty
// overlay never goes through the merge (the base is decoded unchanged), a
// non-empty overlay is merged exactly once over the base (base first, overlay
// second) and the merged document is what gets decoded; errors are propagated.
// zz:noreplay jsonpatch.MergePatch is summarised through an engine-side override
func ZZ_C20_merge_dispatch() {
	base := &Config{Version: "base", MaxPoolSize: 5}
	baseBytes, _ := json.Marshal(base)
	merged := &Config{Version: "merged", MaxPoolSize: 7}
	mergedBytes, _ := json.Marshal(merged)
	calls := 0
	var gotBase, gotTop string
	patchFails := zz.Bool("merge.fails")
	zz.Override("github.com/evanphx/json-patch.MergePatch", func(docData, patchData []byte) ([]byte, error) {
		calls++
		gotBase, gotTop = string(docData), string(patchData)
		if patchFails {
			return nil, errZZPatch
		}
		return mergedBytes, nil
	})
	var top []byte
	switch zz.Fork("overlay", 3) {
	case 0:
		top = nil
	case 1:
		top = []byte{}
	default:
		top = []byte(`{"max_pool_size":7}`)
	}
	cfg, err := MergeConfigAndUnmarshal(top, baseBytes)
	if len(top) == 0 {
		zz.Assert(calls == 0, "an empty overlay never goes through the merge")
		zz.Assert(err == nil && cfg != nil && cfg.Version == "base" && cfg.MaxPoolSize == 5, "an empty overlay changes nothing: the base configuration is decoded as it is")
		return
	}
	zz.Assert(calls == 1 && gotBase == string(baseBytes) && gotTop == string(top), "a non-empty overlay is merged exactly once, over the base")
	if patchFails {
		zz.Assert(err != nil && cfg == nil, "a merge error is reported and no configuration is returned")
		return
	}
	zz.Assert(err == nil && cfg != nil && cfg.Version == "merged" && cfg.MaxPoolSize == 7, "the merged document is what gets decoded")
}

type zzDocA struct {
	Version   string              `json:"version"`
	VSwitches map[string][]string `json:"vswitches"`
	ENITags   map[string]string   `json:"eni_tags"`
}

// a document without the vswitches / eni_tags keys
type zzDocB struct {
	Version     string `json:"version"`
	MaxPoolSize int    `json:"max_pool_size"`
}

// C20: every merge stands alone.  Two merges in one process (cluster config
// and a node's dynamic config, or two nodes reconciled by the controller):
// the second result contains nothing of the first - a key that only the first
// document carried (a vswitch zone, an ENI tag) does not show up in the
// second - and the configuration handed out by the first merge is not
// changed by the second.
// zz:noreplay jsonpatch.MergePatch is summarised through an engine-side override
func ZZ_C20_merge_sequence() {
	docA, _ := json.Marshal(&zzDocA{Version: "one", VSwitches: map[string][]string{"zone-a": {"vsw-a"}}, ENITags: map[string]string{"team": "x"}})
	secondHasZones := zz.Bool("second.has.vswitches")
	var docB []byte
	if secondHasZones {
		docB, _ = json.Marshal(&zzDocA{Version: "two", VSwitches: map[string][]string{"zone-b": {"vsw-b"}}, ENITags: map[string]string{}})
	} else {
		docB, _ = json.Marshal(&zzDocB{Version: "two", MaxPoolSize: 3})
	}
	var next []byte
	zz.Override("github.com/evanphx/json-patch.MergePatch", func(docData, patchData []byte) ([]byte, error) { return next, nil })
	overlay := []byte(`{"x":1}`)
	// first merge: with or without an overlay
	var top1, top2 []byte
	if zz.Bool("first.has.overlay") {
		top1 = overlay
	}
	if zz.Bool("second.has.overlay") {
		top2 = overlay
	}
	next = docA
	cfg1, err1 := MergeConfigAndUnmarshal(top1, docA)
	zz.Assert(err1 == nil && cfg1 != nil && cfg1.Version == "one" && len(cfg1.VSwitches) == 1 && len(cfg1.VSwitches["zone-a"]) == 1 && cfg1.ENITags["team"] == "x", "the first merge yields its document")
	next = docB
	cfg2, err2 := MergeConfigAndUnmarshal(top2, docB)
	zz.Assert(err2 == nil && cfg2 != nil && cfg2.Version == "two", "the second merge yields its document")
	_, leakedZone := cfg2.VSwitches["zone-a"]
	_, leakedTag := cfg2.ENITags["team"]
	zz.Assert(!leakedZone && !leakedTag, "a key that only an earlier merge carried does not appear in a later result")
	if secondHasZones {
		zz.Assert(len(cfg2.VSwitches) == 1 && len(cfg2.VSwitches["zone-b"]) == 1 && len(cfg2.ENITags) == 0, "the second result holds exactly the second document's zones and tags")
	} else {
		zz.Assert(len(cfg2.VSwitches) == 0 && len(cfg2.ENITags) == 0 && cfg2.MaxPoolSize == 3, "keys absent from the second document stay unset")
	}
	_, z1 := cfg1.VSwitches["zone-a"]
	zz.Assert(cfg1.Version == "one" && len(cfg1.VSwitches) == 1 && z1 && len(cfg1.ENITags) == 1 && cfg1.MaxPoolSize == 0, "a configuration already handed out is not changed by a later merge")
}
