//go:build verif

package daemon

import (
	zz "github.com/AliyunContainerService/terway/internal/zzverif"
)

// C15 (no ConfigMap content makes the daemon panic): the daemon calls
// Populate / Validate on whatever the configuration reader returns without an
// error.  For the JSON documents that are not an object (null, with or
// without white space) as well as for an object: the reader returns an error
// or a configuration - never neither - and populating that configuration does
// not panic.  (Other malformed texts end in the decoder's error; byte-level
// JSON syntax is outside the encoder.)
func ZZ_C15_config_document_never_nil() {
	doc := zz.OneOf("document", "null", " null\n", "{}")
	overlay := zz.Bool("with.empty.overlay.arg")
	var top []byte
	if overlay {
		top = []byte{}
	}
	cfg, err := MergeConfigAndUnmarshal(top, []byte(doc))
	zz.Assert(err != nil || cfg != nil, "the reader returns an error or a configuration, never neither")
	if err == nil && cfg != nil {
		cfg.Populate()
		_ = cfg.Validate()
		zz.Reach("populated")
	}
}
