//go:build verif

package controlplane

import (
	corev1 "k8s.io/api/core/v1"

	zz "github.com/AliyunContainerService/terway/internal/zzverif"
	terwayTypes "github.com/AliyunContainerService/terway/types"
)

// C15 (no value of the pod-networks annotation makes a controller or the
// webhook panic): the parser's contract towards its two callers, which
// dereference the result without a nil check - it returns either an error or
// a non-nil document, for the JSON documents that are not an object too
// (null, a number, a string, an array, the empty text) and for a missing
// annotation.
func ZZ_C15_pod_networks_annotation_never_nil() {
	pod := &corev1.Pod{}
	if zz.Bool("annotation.present") {
		pod.Annotations = map[string]string{terwayTypes.PodNetworks: zz.OneOf("annotation.value", "null", " null ", "{}", `{"podNetworks":null}`, `{"podNetworks":[]}`, "[]", "1", `"x"`, "", "{")}
	}
	got, err := ParsePodNetworksFromAnnotation(pod)
	zz.Assert(err != nil || got != nil, "the parser returns an error or a document, never neither")
	if err == nil && got != nil {
		_ = len(got.PodNetworks) // what both callers do next
	}
}
