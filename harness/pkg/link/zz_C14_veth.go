//go:build verif

package link

import (
	zz "github.com/AliyunContainerService/terway/internal/zzverif"
)

// C14(d): host-side interface name = prefix ++ 11 hex digits; deterministic;
// two interfaces of one pod get different names iff their names differ after
// the eth0 -> "" normalisation (SHA-1 abstracted as a collision-free function
// of the written bytes; "collision-free" already on the 40-bit prefix that
// survives the truncation to 11 hex digits).
// zz:noreplay SHA-1 is abstracted (collision-freeness assumed); the native hash cannot be forced
func ZZ_C14_veth_name() {
	ns := zz.Str("ns", 2)
	name := zz.Str("name", 2)
	if1 := zz.OneOf("if1", "eth0", "eth1", "", "net1")
	if2 := zz.OneOf("if2", "eth0", "eth1", "", "net1")
	prefix := "cali"
	if zz.Tier() > 0 {
		prefix = zz.OneOf("prefix", "cali", "", "veth")
	}

	a, err1 := VethNameForPod(name, ns, if1, prefix)
	b, err2 := VethNameForPod(name, ns, if2, prefix)
	zz.Assert(zz.And(err1 == nil, err2 == nil), "name generation never fails")
	zz.Assert(len(a) == len(prefix)+11, "name is prefix plus 11 hex digits")
	zz.Assert(zz.Implies(len(prefix) <= 4, len(a) <= 15), "name fits IFNAMSIZ-1 = 15 bytes for prefixes of at most 4 bytes")
	n1 := zz.IteStr(if1 == "eth0", "", if1)
	n2 := zz.IteStr(if2 == "eth0", "", if2)
	zz.Assert((a == b) == (n1 == n2), "two interfaces of a pod share a host-side name only if they are the same interface (eth0 == unnamed)")
	if zz.Tier() > 0 {
		a2, _ := VethNameForPod(name, ns, if1, prefix)
		zz.Assert(a == a2, "[thorough] name is a deterministic function of its arguments")
	}
}
