//go:build verif

package utils

import (
	metav1 "k8s.io/apimachinery/pkg/apis/meta/v1"

	zz "github.com/AliyunContainerService/terway/internal/zzverif"
	"github.com/AliyunContainerService/terway/pkg/apis/network.alibabacloud.com/v1beta1"
)

// C03(b): latest-timestamp wins.  For every combination of present / nil /
// absent entries and every pair of timestamps (ties included), under every
// map iteration order: ok iff some entry is non-nil; the returned entry has a
// maximal timestamp; "deleted" is never returned when a strictly newer
// "initial" exists (and vice versa).
// zz:repeat 64
func ZZ_C03_runtime_final_status() {
	m := map[v1beta1.CNIStatus]*v1beta1.CNIStatusInfo{}
	ti, td := zz.Time("t.initial"), zz.Time("t.deleted")
	hasI, hasD := zz.Fork("initial", 3), zz.Fork("deleted", 3) // 0 absent, 1 nil, 2 present
	var ei, ed *v1beta1.CNIStatusInfo
	if hasI == 2 {
		ei = &v1beta1.CNIStatusInfo{LastUpdateTime: metav1.Time{Time: ti}}
	}
	if hasD == 2 {
		ed = &v1beta1.CNIStatusInfo{LastUpdateTime: metav1.Time{Time: td}}
	}
	if hasI > 0 {
		m[v1beta1.CNIStatusInitial] = ei
	}
	if hasD > 0 {
		m[v1beta1.CNIStatusDeleted] = ed
	}
	st, info, ok := RuntimeFinalStatus(m)
	zz.Assert(ok == (ei != nil || ed != nil), "a final status exists iff some status entry is recorded")
	if !ok {
		zz.Assert(info == nil, "no entry is returned without a final status")
		return
	}
	zz.Assert((st == v1beta1.CNIStatusInitial && info == ei && ei != nil) || (st == v1beta1.CNIStatusDeleted && info == ed && ed != nil), "the returned status names the returned entry")
	if ei != nil && ed != nil {
		zz.Assert(zz.Implies(ti.After(td), st == v1beta1.CNIStatusInitial), "deleted is never reported when a strictly newer initial exists")
		zz.Assert(zz.Implies(td.After(ti), st == v1beta1.CNIStatusDeleted), "initial is never reported when a strictly newer deleted exists")
	}
}
