//go:build verif

package tc

import (
	"net"

	zz "github.com/AliyunContainerService/terway/internal/zzverif"
	"github.com/vishvananda/netlink"
	"golang.org/x/sys/unix"
)

// C14(a) IPv4: for every network n, prefix p in 0..32 and address a, the u32
// key generated for n/p matches a packet whose source word is a exactly when
// a lies in n/p.  Reference: shift-based membership on the integer values.
func ZZ_C14_u32v4() {
	p := zz.Fork("prefix", 33)
	rep := zz.Fork("rep16", 2)
	n := zz.Uint32("net")
	a := zz.Uint32("addr")
	var ip net.IP
	if rep == 0 {
		ip = net.IP{byte(n >> 24), byte(n >> 16), byte(n >> 8), byte(n)}
	} else {
		ip = net.IPv4(byte(n>>24), byte(n>>16), byte(n>>8), byte(n))
	}
	ipNet := &net.IPNet{IP: ip, Mask: net.CIDRMask(p, 32)}
	key := U32IPv4Src(ipNet)

	in := p == 0 || (a^n)>>uint(32-p) == 0
	match := a&key.Mask == key.Val
	zz.Assert(match == in, "u32 v4 key matches exactly the addresses of the CIDR")
	zz.Assert(key.Off == 12, "u32 v4 src key reads the source address word (offset 12)")
	if p == 0 {
		zz.Assert(key.Mask == 0 && key.Val == 0, "prefix 0 is match-all")
	}
	// dispatcher picks the v4 encoder for both representations
	ks := U32MatchSrc(ipNet)
	zz.Assert(len(ks) == 1 && ks[0] == key, "U32MatchSrc uses the IPv4 key for 4- and 16-byte IPv4 addresses")
}

func matchV6(keys []netlink.TcU32Key, w [4]uint32) bool {
	ok := true
	for _, k := range keys {
		idx := (int(k.Off) - 8) / 4
		if k.Off != int32(8+4*idx) || idx < 0 || idx > 3 {
			return false
		}
		if w[idx]&k.Mask != k.Val {
			ok = false
		}
	}
	return ok
}

// C14(a) IPv6: conjunction over the returned keys (offsets 8,12,16,20) holds
// iff the 128-bit address is inside the prefix.
func ZZ_C14_u32v6() {
	step := 1
	if zz.Tier() == 0 {
		step = 1
	}
	p := zz.Fork("prefix", 129/step) * step
	var n, a [4]uint32
	n[0], n[1], n[2], n[3] = zz.Uint32("n0"), zz.Uint32("n1"), zz.Uint32("n2"), zz.Uint32("n3")
	a[0], a[1], a[2], a[3] = zz.Uint32("a0"), zz.Uint32("a1"), zz.Uint32("a2"), zz.Uint32("a3")
	ip := make(net.IP, 16)
	for i := 0; i < 4; i++ {
		ip[4*i] = byte(n[i] >> 24)
		ip[4*i+1] = byte(n[i] >> 16)
		ip[4*i+2] = byte(n[i] >> 8)
		ip[4*i+3] = byte(n[i])
	}
	ipNet := &net.IPNet{IP: ip, Mask: net.CIDRMask(p, 128)}
	keys := U32IPv6Src(ipNet)

	// reference: word-wise shift comparison
	in := true
	for i := 0; i < 4; i++ {
		bits := p - 32*i
		if bits <= 0 {
			break
		}
		if bits >= 32 {
			if a[i] != n[i] {
				in = false
			}
		} else if (a[i]^n[i])>>uint(32-bits) != 0 {
			in = false
		}
	}
	zz.Assert(matchV6(keys, a) == in, "u32 v6 keys match exactly the addresses of the prefix")
	zz.Assert(len(keys) == (p+31)/32, "one key per word touched by the prefix, none for zero masks")
	if p == 0 {
		zz.Assert(len(keys) == 0, "prefix 0 yields an empty (match-all) key list")
	}
}

// C14(a) filter construction: every filter built with MatchSrc selects
// exactly its own CIDR, however many filters the process built before (the
// dual-stack datapath builds an IPv4 and then an IPv6 filter back to back).
// Two fresh filters, first for an arbitrary IPv4 CIDR, second for an IPv4 or
// IPv6 CIDR: afterwards each selector carries exactly the keys of its own
// CIDR, the key count matches, the selectors are distinct objects, and adding
// a second CIDR to an existing selector appends to that selector only.
func ZZ_C14_matchsrc_filters() {
	pa := zz.Fork("a.prefix", 33)
	na := zz.Uint32("a.net")
	cidrA := &net.IPNet{IP: net.IP{byte(na >> 24), byte(na >> 16), byte(na >> 8), byte(na)}, Mask: net.CIDRMask(pa, 32)}
	var cidrB *net.IPNet
	if zz.Bool("b.v6") {
		pb := []int{0, 1, 32, 33, 64, 96, 127, 128}[zz.Fork("b.prefix6", 8)]
		ip := make(net.IP, 16)
		for i := 0; i < 4; i++ {
			w := zz.Uint32("b.w" + string(rune('0'+i)))
			ip[4*i], ip[4*i+1], ip[4*i+2], ip[4*i+3] = byte(w>>24), byte(w>>16), byte(w>>8), byte(w)
		}
		// IPv4-mapped IPv6 addresses (::ffff:a.b.c.d) are outside the claim: no pod address has this form
		zz.Assume(ip.To4() == nil)
		cidrB = &net.IPNet{IP: ip, Mask: net.CIDRMask(pb, 128)}
	} else {
		pb := []int{0, 1, 8, 24, 31, 32}[zz.Fork("b.prefix4", 6)]
		nb := zz.Uint32("b.net")
		cidrB = &net.IPNet{IP: net.IP{byte(nb >> 24), byte(nb >> 16), byte(nb >> 8), byte(nb)}, Mask: net.CIDRMask(pb, 32)}
	}
	wantA, wantB := U32MatchSrc(cidrA), U32MatchSrc(cidrB)
	fa, fb := &netlink.U32{}, &netlink.U32{}
	MatchSrc(fa, cidrA)
	MatchSrc(fb, cidrB)
	same := func(got, want []netlink.TcU32Key) bool {
		if len(got) != len(want) {
			return false
		}
		ok := true
		for i := range got {
			ok = zz.And(ok, got[i] == want[i])
		}
		return ok
	}
	zz.Assert(fa.Sel != nil && fb.Sel != nil && fa.Sel != fb.Sel, "every filter has its own selector")
	zz.Assert(same(fa.Sel.Keys, wantA) && int(fa.Sel.Nkeys) == len(wantA), "the first filter still selects exactly its own CIDR after the second was built")
	zz.Assert(same(fb.Sel.Keys, wantB) && int(fb.Sel.Nkeys) == len(wantB), "the second filter selects exactly its own CIDR")
	zz.Assert(fa.Sel.Flags == fb.Sel.Flags && fa.Sel.Flags != 0, "both selectors are terminal")
	// appending a second source to an existing selector
	MatchSrc(fb, cidrA)
	zz.Assert(same(fb.Sel.Keys, append(append([]netlink.TcU32Key(nil), wantB...), wantA...)) && int(fb.Sel.Nkeys) == len(wantA)+len(wantB), "a second MatchSrc on the same filter appends its keys")
	zz.Assert(same(fa.Sel.Keys, wantA), "and leaves other filters untouched")
}

// C14(a) lookup side: the filter FilterBySrcIP finds for an address is a
// filter whose selector carries *every* key of that address' CIDR - never one
// that merely shares a key (two IPv6 pods of one vSwitch share the first
// 32-bit words).  Two installed /128 classifiers with arbitrary addresses, an
// arbitrary address looked up: the result is the classifier installed for
// exactly that address, or nothing.
// zz:noreplay the kernel's filter list is replaced through an engine-side override
func ZZ_C14_filter_lookup() {
	mk := func(name string) (*net.IPNet, [4]uint32) {
		var w [4]uint32
		ip := make(net.IP, 16)
		for i := 0; i < 4; i++ {
			w[i] = zz.Uint32(name + ".w" + string(rune('0'+i)))
			ip[4*i], ip[4*i+1], ip[4*i+2], ip[4*i+3] = byte(w[i]>>24), byte(w[i]>>16), byte(w[i]>>8), byte(w[i])
		}
		return &net.IPNet{IP: ip, Mask: net.CIDRMask(128, 128)}, w
	}
	a, wa := mk("a")
	b, wb := mk("b")
	q, wq := mk("q")
	zz.Assume(a.IP.To4() == nil && b.IP.To4() == nil && q.IP.To4() == nil) // IPv4-mapped addresses: see ZZ_C14_matchsrc_filters
	link := &netlink.Dummy{LinkAttrs: netlink.LinkAttrs{Index: 7, Name: "eth1"}}
	fa := &netlink.U32{FilterAttrs: netlink.FilterAttrs{LinkIndex: 7, Parent: 1, Protocol: unix.ETH_P_IP}, ClassId: 11}
	fb := &netlink.U32{FilterAttrs: netlink.FilterAttrs{LinkIndex: 7, Parent: 1, Protocol: unix.ETH_P_IP}, ClassId: 12}
	MatchSrc(fa, a)
	MatchSrc(fb, b)
	zz.Override("github.com/vishvananda/netlink.FilterList", func(l netlink.Link, parent uint32) ([]netlink.Filter, error) {
		return []netlink.Filter{fa, fb}, nil
	})
	got, err := FilterBySrcIP(link, 1, q)
	zz.Assert(err == nil, "the lookup succeeds")
	eqA := zz.And(wq[0] == wa[0], wq[1] == wa[1], wq[2] == wa[2], wq[3] == wa[3])
	eqB := zz.And(wq[0] == wb[0], wq[1] == wb[1], wq[2] == wb[2], wq[3] == wb[3])
	zz.Assert(zz.Implies(got == fa, eqA), "a classifier is only found for the address it was installed for (all keys match)")
	zz.Assert(zz.Implies(got == fb, eqB), "a classifier is only found for the address it was installed for (all keys match)")
	zz.Assert(zz.Implies(got == nil, zz.And(!eqA, !eqB)), "an installed classifier is found")
	zz.Assert(got == nil || got == fa || got == fb, "the result is one of the installed filters")
}
