//go:build verif

package ip

import (
	"net"

	zz "github.com/AliyunContainerService/terway/internal/zzverif"
)

func be32(b []byte) uint32 {
	return uint32(b[0])<<24 | uint32(b[1])<<16 | uint32(b[2])<<8 | uint32(b[3])
}

// C14(b) IPv4: GetIPAtIndex(n/p, -3) is broadcast(n/p)-2 when that address is
// inside the prefix (p <= 30), nil otherwise; for every n and p, with both the
// 4-byte and the 16-byte representation of n.
func ZZ_C14_gateway_v4() {
	p := zz.Fork("prefix", 33)
	rep := zz.Fork("rep16", 2)
	n := zz.Uint32("net")
	var ipb net.IP
	if rep == 0 {
		ipb = net.IP{byte(n >> 24), byte(n >> 16), byte(n >> 8), byte(n)}
	} else {
		ipb = net.IPv4(byte(n>>24), byte(n>>16), byte(n>>8), byte(n))
	}
	ipNet := net.IPNet{IP: ipb, Mask: net.CIDRMask(p, 32)}
	gw := GetIPAtIndex(ipNet, -3)

	var mask uint32
	if p > 0 {
		mask = ^uint32(0) << uint(32-p)
	}
	last := n&mask | ^mask
	if p <= 30 {
		zz.Assert(gw != nil, "a subnet with at least 4 addresses has a gateway (third-from-last address)")
		if gw != nil {
			zz.Assert(len(gw) == 4 && be32(gw) == last-2, "gateway is the third-from-last address of the subnet")
		}
	} else {
		zz.Assert(gw == nil, "a /31 or /32 has no third-from-last address: result is empty")
	}
}

// C14(b) non-negative index counted from the network address.
func ZZ_C14_index_v4() {
	p := zz.Fork("prefix", 33)
	n := zz.Uint32("net")
	idx := int64(zz.IntRange("index", 0, 5))
	ipNet := net.IPNet{IP: net.IP{byte(n >> 24), byte(n >> 16), byte(n >> 8), byte(n)}, Mask: net.CIDRMask(p, 32)}
	r := GetIPAtIndex(ipNet, idx)
	var mask uint32
	if p > 0 {
		mask = ^uint32(0) << uint(32-p)
	}
	first := n & mask
	inside := p == 0 || uint64(idx) < uint64(1)<<uint(32-p)
	if inside {
		zz.Assert(r != nil && len(r) == 4 && be32(r) == first+uint32(idx), "index i >= 0 is the i-th address counted from the network address")
	} else {
		zz.Assert(r == nil, "an index beyond the subnet yields nil")
	}
}

func be64(b []byte) uint64 {
	return uint64(be32(b[0:4]))<<32 | uint64(be32(b[4:8]))
}

// C14(b) IPv6.
func ZZ_C14_gateway_v6() {
	p := zz.Fork("prefix", 129)
	if zz.Tier() == 0 {
		// quick tier: boundary prefixes only; thorough: all 129
		zz.Assume(p <= 2 || p == 7 || p == 8 || p == 9 || (p >= 63 && p <= 65) || p == 96 || p == 120 || p >= 125)
	}
	hi, lo := zz.Uint64("hi"), zz.Uint64("lo")
	ipb := make(net.IP, 16)
	for i := 0; i < 8; i++ {
		ipb[i] = byte(hi >> uint(56-8*i))
		ipb[8+i] = byte(lo >> uint(56-8*i))
	}
	// an IPv4-mapped 16-byte address with a 128-bit mask is a different code
	// path (To4 succeeds); covered by the rep16 case of the v4 harness only for 32-bit masks
	zz.Assume(!(hi == 0 && lo>>32 == 0xffff))
	// subnets whose upper 64 bits are zero (::/p) reach into the IPv4-mapped range ::ffff:0:0/96, whose
	// 16-byte addresses net.IP treats as IPv4: no vSwitch prefix lives there (global unicast / ULA only)
	zz.Assume(hi != 0)
	ipNet := net.IPNet{IP: ipb, Mask: net.CIDRMask(p, 128)}
	gw := GetIPAtIndex(ipNet, -3)

	var mhi, mlo uint64
	switch {
	case p == 0:
	case p <= 64:
		mhi = ^uint64(0) << uint(64-p)
	default:
		mhi = ^uint64(0)
		mlo = ^uint64(0) << uint(128-p)
	}
	lhi, llo := hi&mhi|^mhi, lo&mlo|^mlo
	// last - 2 (no borrow possible into hi unless llo < 2, which needs p == 128 or 127)
	whi, wlo := lhi, llo-2
	if llo < 2 {
		whi = lhi - 1
	}
	if p <= 126 {
		zz.Assert(gw != nil, "an IPv6 subnet with at least 4 addresses has a gateway")
		if gw != nil {
			zz.Assert(len(gw) == 16 && be64(gw[0:8]) == whi && be64(gw[8:16]) == wlo, "IPv6 gateway is the third-from-last address")
		}
	} else {
		zz.Assert(gw == nil, "a /127 or /128 has no third-from-last address")
	}
}

// Textual wrapper on concrete inputs (the address *values* are covered
// symbolically above; the text syntax is run through the real parser).
func ZZ_C14_derive_text() {
	zz.Assert(DeriveGatewayIP("") == "", "empty CIDR gives empty gateway")
	zz.Assert(DeriveGatewayIP("junk") == "", "unparsable CIDR gives empty gateway")
	zz.Assert(DeriveGatewayIP("192.168.0.0/24") == "192.168.0.253", "example /24")
	zz.Assert(DeriveGatewayIP("10.0.0.0/30") == "10.0.0.1", "example /30")
	zz.Assert(DeriveGatewayIP("10.0.0.0/31") == "", "example /31")
}
