//go:build verif

package client

import (
	"encoding/json"

	"github.com/aliyun/alibaba-cloud-sdk-go/services/ecs"

	zz "github.com/AliyunContainerService/terway/internal/zzverif"
)

// C19 (limits from the instance-type description): the limit vector the
// daemon and the controllers size everything from is the instance-type
// description, field by field - directly from the cloud answer and through
// the node annotation (JSON round trip).  Negative quantities are clamped to
// zero; without trunk support no member interface is offered; the derived
// quantities (pod IPs, trunk pods, RDMA interfaces) never exceed what the
// description offers.
func ZZ_C19_limits_from_description() {
	it := &ecs.InstanceType{
		InstanceTypeId:              "ecs.x",
		EniQuantity:                 zz.IntRange("EniQuantity", -1, 64),
		EniPrivateIpAddressQuantity: zz.IntRange("EniPrivateIpAddressQuantity", -1, 64),
		EniIpv6AddressQuantity:      zz.IntRange("EniIpv6AddressQuantity", -1, 64),
		EniTotalQuantity:            zz.IntRange("EniTotalQuantity", -1, 256),
		EriQuantity:                 zz.IntRange("EriQuantity", -1, 8),
		EniTrunkSupported:           zz.Bool("EniTrunkSupported"),
	}
	var l *Limits
	if zz.Bool("via.annotation") {
		b, err := json.Marshal(it)
		zz.Assert(err == nil, "the description serialises")
		got, err := (&ECSLimitProvider{}).GetLimitFromAnno(map[string]string{"alibabacloud.com/instance-type-info": string(b)})
		zz.Assert(err == nil && got != nil, "a well-formed annotation yields limits")
		if got == nil {
			return
		}
		l = got
		none, err2 := (&ECSLimitProvider{}).GetLimitFromAnno(map[string]string{})
		zz.Assert(none == nil && err2 == nil, "no annotation, no limits (the cloud API is asked instead)")
	} else {
		l = getInstanceType(it)
	}
	clamp := func(v int) int {
		if v < 0 {
			return 0
		}
		return v
	}
	zz.Assert(l.InstanceTypeID == "ecs.x" && l.Adapters == it.EniQuantity && l.TotalAdapters == it.EniTotalQuantity, "identity and interface counts are taken over unchanged")
	zz.Assert(l.IPv4PerAdapter == clamp(it.EniPrivateIpAddressQuantity) && l.IPv6PerAdapter == clamp(it.EniIpv6AddressQuantity), "addresses per interface are those of the description (never negative)")
	zz.Assert(l.ERdmaAdapters == clamp(it.EriQuantity), "RDMA interfaces are those of the description (never negative)")
	if it.EniTrunkSupported {
		zz.Assert(l.MemberAdapterLimit == clamp(it.EniTotalQuantity-it.EniQuantity) && l.MaxMemberAdapterLimit == clamp(it.EniTotalQuantity-2), "member interfaces: total minus ordinary interfaces (never negative)")
	} else {
		zz.Assert(l.MemberAdapterLimit == 0 && l.MaxMemberAdapterLimit == 0, "without trunk support no member interface is offered")
	}
	// derived quantities
	zz.Assert(l.TrunkPod() == l.MemberAdapterLimit && zz.Implies(l.TrunkPod() > 0, it.EniTrunkSupported), "trunk pods only with trunk support")
	zz.Assert(l.SupportIPv6() == (it.EniIpv6AddressQuantity > 0), "IPv6 support iff the description offers IPv6 addresses")
	zz.Assert(l.ERDMARes() >= 0 && l.ERDMARes() <= 2 && l.ERDMARes() <= l.ERdmaAdapters && zz.Implies(l.Adapters <= 2, l.ERDMARes() == 0), "RDMA interfaces used: at most two, at most what the type offers, none on a type with two or fewer interfaces")
	zz.Assert(l.ExclusiveENIPod() == l.Adapters-1, "exclusive-ENI pods: one per secondary interface")
}
