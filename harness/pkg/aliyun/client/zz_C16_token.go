//go:build verif

package client

import (
	"github.com/aliyun/alibaba-cloud-sdk-go/services/ecs"
	"k8s.io/utils/lru"

	zz "github.com/AliyunContainerService/terway/internal/zzverif"
)

func zzGen() *SimpleIdempotentKeyGenerator {
	return &SimpleIdempotentKeyGenerator{cache: lru.New(500)}
}

var zzTagKeys = []string{"creator", "cluster", "user-a", "user-b"}

// symbolic create-interface parameters; nTags concrete tag keys with symbolic values
func zzCreateOpts(p string, nTags int) *CreateNetworkInterfaceOptions {
	o := &NetworkInterfaceOptions{
		VSwitchID:        zz.OneOf(p+".vsw", "vsw-1", "vsw-2"),
		SecurityGroupIDs: []string{zz.OneOf(p+".sg0", "sg-1", "sg-2")},
		ResourceGroupID:  zz.OneOf(p+".rg", "", "rg-1"),
		IPCount:          zz.IntRange(p+".ipcount", 1, 3),
		IPv6Count:        zz.IntRange(p+".ipv6count", 0, 2),
		Trunk:            zz.Bool(p + ".trunk"),
		ERDMA:            zz.Bool(p + ".erdma"),
	}
	if zz.Bool(p + ".sg2") {
		o.SecurityGroupIDs = append(o.SecurityGroupIDs, "sg-9")
	}
	if nTags > 0 {
		o.Tags = map[string]string{}
		for i := 0; i < nTags; i++ {
			o.Tags[zzTagKeys[i]] = zz.OneOf(p+".tag."+zzTagKeys[i], "x", "y")
		}
	}
	return &CreateNetworkInterfaceOptions{NetworkInterfaceOptions: o}
}

// C16(a): a failed create-interface call that is retried with the same
// parameters carries the same client token, for any number of tags and any
// map iteration order.
// zz:repeat 400
func ZZ_C16_create_retry_same_token() {
	nTags := zz.Fork("ntags", 4)
	gen := zzGen()
	opts := zzCreateOpts("p", nTags)
	req1, rollback, err := opts.Finish(gen)
	zz.Assert(err == nil && req1 != nil, "valid parameters are accepted")
	t1 := req1.ClientToken
	rollback() // the call failed
	req2, _, err2 := opts.Finish(gen)
	zz.Assert(err2 == nil, "valid parameters are accepted on retry")
	zz.Assert(req2.ClientToken == t1, "the retry of a failed create-interface call reuses its client token")
	zz.Assert(t1 != "", "a token is always set")
	// a third, concurrent request with the same parameters must not share the token in flight
	req3, _, _ := opts.Finish(gen)
	zz.Assert(req3.ClientToken != req2.ClientToken, "distinct requests in flight never share a token")
}

// C16(b,c): different parameters never share a token; equal parameters in
// flight at the same time get different tokens.
func ZZ_C16_create_distinct_tokens() {
	gen := zzGen()
	a := zzCreateOpts("a", 1)
	b := zzCreateOpts("b", 1)
	ra, rollbackA, _ := a.Finish(gen)
	if zz.Bool("a.failed") {
		rollbackA()
		rb, _, _ := b.Finish(gen)
		same := zz.And(a.NetworkInterfaceOptions.VSwitchID == b.NetworkInterfaceOptions.VSwitchID,
			a.NetworkInterfaceOptions.SecurityGroupIDs[0] == b.NetworkInterfaceOptions.SecurityGroupIDs[0],
			len(a.NetworkInterfaceOptions.SecurityGroupIDs) == len(b.NetworkInterfaceOptions.SecurityGroupIDs),
			a.NetworkInterfaceOptions.ResourceGroupID == b.NetworkInterfaceOptions.ResourceGroupID,
			a.NetworkInterfaceOptions.IPCount == b.NetworkInterfaceOptions.IPCount,
			a.NetworkInterfaceOptions.IPv6Count == b.NetworkInterfaceOptions.IPv6Count,
			a.NetworkInterfaceOptions.Trunk == b.NetworkInterfaceOptions.Trunk,
			a.NetworkInterfaceOptions.ERDMA == b.NetworkInterfaceOptions.ERDMA,
			a.NetworkInterfaceOptions.Tags["creator"] == b.NetworkInterfaceOptions.Tags["creator"])
		zz.Assert(zz.Implies(!same, rb.ClientToken != ra.ClientToken), "a request with different parameters never reuses another request's token")
		zz.Assert(zz.Implies(same, rb.ClientToken == ra.ClientToken), "a request with the same parameters reuses the put-back token")
	} else {
		rb, _, _ := b.Finish(gen)
		zz.Assert(rb.ClientToken != ra.ClientToken, "requests in flight at the same time never share a token")
	}
}

// C16: assign-address calls (IPv4 and IPv6).
func ZZ_C16_assign_retry() {
	gen := zzGen()
	n := &NetworkInterfaceOptions{NetworkInterfaceID: zz.OneOf("eni", "eni-1", "eni-2"), IPCount: zz.IntRange("ipcount", 1, 3), IPv6Count: zz.IntRange("ipv6count", 1, 3)}
	v4 := &AssignPrivateIPAddressOptions{NetworkInterfaceOptions: n}
	v6 := &AssignIPv6AddressesOptions{NetworkInterfaceOptions: n}
	r1, rb1, e1 := v4.Finish(gen)
	s1, sb1, e2 := v6.Finish(gen)
	zz.Assert(e1 == nil && e2 == nil, "valid assign parameters are accepted")
	zz.Assert(r1.ClientToken != s1.ClientToken, "IPv4 and IPv6 assign requests do not share a token")
	rb1()
	sb1()
	r2, _, _ := v4.Finish(gen)
	s2, _, _ := v6.Finish(gen)
	zz.Assert(r2.ClientToken == r1.ClientToken, "the retry of a failed IPv4 assign reuses its token")
	zz.Assert(s2.ClientToken == s1.ClientToken, "the retry of a failed IPv6 assign reuses its token")
	// a different count is a different request
	n2 := &NetworkInterfaceOptions{NetworkInterfaceID: n.NetworkInterfaceID, IPCount: n.IPCount + 1}
	r3, _, _ := (&AssignPrivateIPAddressOptions{NetworkInterfaceOptions: n2}).Finish(gen)
	zz.Assert(r3.ClientToken != r2.ClientToken, "a different address count never reuses the token")
}

// C16(d): the generator under its mutex - arbitrary issue/put-back histories
// never hand out a token that is still outstanding, and a put-back token is
// handed out again exactly once.
func ZZ_C16_generator_history() {
	gen := zzGen()
	hashes := []string{"h1", "h2"}
	var outTok []string // outstanding tokens
	var outHash []string
	steps := 5
	if zz.Tier() > 0 {
		steps = 7
	}
	for s := 0; s < steps; s++ {
		if len(outTok) > 0 && zz.Fork("op", 2) == 1 {
			// put back one outstanding token
			i := zz.Fork("which", len(outTok))
			gen.PutBack(outHash[i], outTok[i])
			outTok = append(outTok[:i:i], outTok[i+1:]...)
			outHash = append(outHash[:i:i], outHash[i+1:]...)
			continue
		}
		h := hashes[zz.Fork("hash", 2)]
		t := gen.GenerateKey(h)
		for i := range outTok {
			zz.Assert(outTok[i] != t, "a token that is still outstanding is never handed out again")
		}
		outTok = append(outTok, t)
		outHash = append(outHash, h)
		zz.Assert(zz.LockState(&gen.mu) == 0, "the generator's mutex is released on return")
	}
}

// C16(d), interleaving: everything the generator decides is decided under its
// mutex.  While request A waits for the mutex another request with the same
// parameters completes a GenerateKey (takes the put-back token) or a PutBack
// (returns another token): A must act on the state it finds *after* acquiring
// the mutex - two requests in flight never share a token and a token put back
// meanwhile is not lost.
// zz:noreplay the other thread's step is injected by the engine at the moment the mutex is acquired
func ZZ_C16_generator_interleaved() {
	gen := zzGen()
	h := "h1"
	t1 := gen.GenerateKey(h)
	gen.PutBack(h, t1)                  // the call failed: its token is available for the retry
	other := zz.Fork("other.thread", 3) // 0 nothing, 1 a same-parameter GenerateKey ran first, 2 a PutBack of another token ran first
	var tB string
	first := true
	zz.OnLock(&gen.mu, func() {
		if !first {
			return
		}
		first = false
		switch other {
		case 1:
			// what GenerateKey(h) of the other thread does to the shared state
			v, _ := gen.cache.Get(h)
			ids := v.([]string)
			tB = ids[len(ids)-1]
			if len(ids) == 1 {
				gen.cache.Remove(h)
			} else {
				gen.cache.Add(h, ids[:len(ids)-1])
			}
		case 2:
			v, _ := gen.cache.Get(h)
			gen.cache.Add(h, append(append([]string(nil), v.([]string)...), "t-other"))
		}
	})
	tA := gen.GenerateKey(h)
	zz.OnLock(&gen.mu, nil)
	zz.Assert(tA != "", "a token is always handed out")
	switch other {
	case 0:
		zz.Assert(tA == t1, "the retry reuses the token that was put back")
	case 1:
		zz.Assert(tB == t1 && tA != tB, "two requests in flight at the same time never share a token")
	case 2:
		t3 := gen.GenerateKey(h)
		zz.Assert(tA != t3 && (tA == "t-other" || tA == t1) && (t3 == "t-other" || t3 == t1), "a token put back while another request waits for the mutex is not lost: both put-back tokens are handed out again, each once")
	}
}

func zzTriBool(name string) *bool {
	switch zz.Fork(name, 3) {
	case 1:
		v := false
		return &v
	case 2:
		v := true
		return &v
	}
	return nil
}

// the parameters of a create-interface call are what goes out on the wire:
// two requests are the same request when every field but the token is equal
func zzSameCreateReq(a, b *ecs.CreateNetworkInterfaceRequest) bool {
	if len(*a.SecurityGroupIds) != len(*b.SecurityGroupIds) || len(*a.Tag) != len(*b.Tag) {
		return false
	}
	same := zz.And(a.VSwitchId == b.VSwitchId, a.InstanceType == b.InstanceType, a.NetworkInterfaceTrafficMode == b.NetworkInterfaceTrafficMode,
		a.ResourceGroupId == b.ResourceGroupId, a.Description == b.Description,
		a.SecondaryPrivateIpAddressCount == b.SecondaryPrivateIpAddressCount, a.Ipv6AddressCount == b.Ipv6AddressCount,
		a.DeleteOnRelease == b.DeleteOnRelease, a.SourceDestCheck == b.SourceDestCheck)
	for i := range *a.SecurityGroupIds {
		same = zz.And(same, (*a.SecurityGroupIds)[i] == (*b.SecurityGroupIds)[i])
	}
	for i := range *a.Tag {
		same = zz.And(same, (*a.Tag)[i].Key == (*b.Tag)[i].Key, (*a.Tag)[i].Value == (*b.Tag)[i].Value)
	}
	return same
}

// C16(b): the token pool is keyed by everything that goes out on the wire,
// the optional attributes (delete-on-release, source/dest check: unset, false,
// true) included: a token put back by a failed call is reused by the next
// call exactly when that call sends the same request.
func ZZ_C16_create_optional_attrs() {
	gen := zzGen()
	mk := func(p string) *CreateNetworkInterfaceOptions {
		return &CreateNetworkInterfaceOptions{NetworkInterfaceOptions: &NetworkInterfaceOptions{
			VSwitchID:             zz.OneOf(p+".vsw", "vsw-1", "vsw-2"),
			SecurityGroupIDs:      []string{"sg-1"},
			IPCount:               2,
			Tags:                  map[string]string{"creator": "terway"},
			DeleteENIOnECSRelease: zzTriBool(p + ".delete.on.release"),
			SourceDestCheck:       zzTriBool(p + ".source.dest.check"),
		}}
	}
	a, b := mk("a"), mk("b")
	ra, rollbackA, errA := a.Finish(gen)
	zz.Assert(errA == nil, "valid parameters are accepted")
	rollbackA() // the first call failed
	rb, _, errB := b.Finish(gen)
	zz.Assert(errB == nil, "valid parameters are accepted")
	same := zzSameCreateReq(ra, rb)
	zz.Assert(zz.Implies(!same, rb.ClientToken != ra.ClientToken), "a call that sends a different request never reuses a put-back token")
	zz.Assert(zz.Implies(same, rb.ClientToken == ra.ClientToken), "a call that sends the same request reuses the put-back token")
	// the retry of the failed call itself: its token is still there unless the same request took it
	ra2, _, _ := a.Finish(gen)
	zz.Assert(zz.Implies(!same, ra2.ClientToken == ra.ClientToken), "the retry of the failed call finds its own token")
}

// C16(b), EFLO create: the put-back token of a failed create is reused
// exactly by a call that sends the same request (vSwitch, security group,
// node, zone).
func ZZ_C16_eflo_create_tokens() {
	gen := zzGen()
	mk := func(p string) *CreateNetworkInterfaceOptions {
		return &CreateNetworkInterfaceOptions{NetworkInterfaceOptions: &NetworkInterfaceOptions{
			VSwitchID:        zz.OneOf(p+".vsw", "vsw-1", "vsw-2"),
			SecurityGroupIDs: []string{zz.OneOf(p+".sg0", "sg-1", "sg-2")},
			InstanceID:       zz.OneOf(p+".node", "", "i-1", "i-2"),
			ZoneID:           zz.OneOf(p+".zone", "", "z-1", "z-2"),
			IPCount:          zz.IntRange(p+".ipcount", 0, 1),
		}}
	}
	a, b := mk("a"), mk("b")
	ra, rollbackA, errA := a.EFLO(gen)
	zz.Assert(errA == nil, "valid parameters are accepted")
	failed := zz.Bool("a.failed")
	if failed {
		rollbackA()
	}
	rb, _, errB := b.EFLO(gen)
	zz.Assert(errB == nil, "valid parameters are accepted")
	same := zz.And(ra.VSwitchId == rb.VSwitchId, ra.SecurityGroupId == rb.SecurityGroupId, ra.NodeId == rb.NodeId, ra.ZoneId == rb.ZoneId, ra.Description == rb.Description)
	zz.Assert(ra.ClientToken != "" && rb.ClientToken != "", "a token is always set")
	if failed {
		zz.Assert(zz.Implies(!same, rb.ClientToken != ra.ClientToken), "a call that sends a different request never reuses a put-back token")
		zz.Assert(zz.Implies(same, rb.ClientToken == ra.ClientToken), "a call that sends the same request reuses the put-back token")
	} else {
		zz.Assert(rb.ClientToken != ra.ClientToken, "requests in flight at the same time never share a token")
	}
}
