//go:build verif

package client

// C07 (an error placed after the effect leaves no orphan): when an assign call
// took effect in the cloud but failed at the caller, the retry must go out
// under the failed call's client token - the cloud then replays the first
// answer instead of assigning a second batch that nobody tracks.  The token a
// failed call puts back is found again by the same request, for both
// families.  Same exploration as ZZ_C16_assign_retry.
func ZZ_C07_retry_after_effect_replays_token() { ZZ_C16_assign_retry() }
