//go:build verif

package client

// C01 (no address is handed to two pods): the pool relies on the cloud never
// answering an assign request with addresses it assigned for an earlier one.
// The cloud replays an answer for a client token it has already served, so a
// token that has been used by a successful call must never go out again - a
// put-back token is handed out exactly once, an outstanding one never.  Same
// exploration as ZZ_C16_generator_history (arbitrary issue / put-back
// histories of the token generator).
func ZZ_C01_assign_token_never_replayed() { ZZ_C16_generator_history() }
