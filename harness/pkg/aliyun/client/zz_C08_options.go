//go:build verif

package client

import (
	zz "github.com/AliyunContainerService/terway/internal/zzverif"
)

// C08 (the cloud is never asked for more addresses per interface than the
// node's limits): how a create-interface request is put together.  The node
// controller merges a shared, package-level template (interface type) and the
// node's own options (vSwitch, address counts, tags) into a fresh option set
// for every call.  Two calls in one process - another node, or another family
// mix on the same node: the merge never writes into the options it was given
// (the template is shared by all nodes), so the second request carries exactly
// the second caller's counts - a count of zero stays zero - and nothing of the
// first caller's.
func ZZ_C08_create_options_per_call() {
	template := &CreateNetworkInterfaceOptions{NetworkInterfaceOptions: &NetworkInterfaceOptions{Trunk: zz.Bool("template.trunk"), ERDMA: zz.Bool("template.erdma")}}
	trunk0, erdma0 := template.NetworkInterfaceOptions.Trunk, template.NetworkInterfaceOptions.ERDMA
	mk := func(p string) *CreateNetworkInterfaceOptions {
		return &CreateNetworkInterfaceOptions{NetworkInterfaceOptions: &NetworkInterfaceOptions{
			VSwitchID:        zz.OneOf(p+".vsw", "vsw-1", "vsw-2"),
			SecurityGroupIDs: []string{zz.OneOf(p+".sg", "sg-1", "sg-2")},
			IPCount:          zz.IntRange(p+".ipcount", 0, 10),
			IPv6Count:        zz.IntRange(p+".ipv6count", 0, 10),
			ResourceGroupID:  zz.OneOf(p+".rg", "", "rg-1"),
			InstanceID:       zz.OneOf(p+".instance", "i-1", "i-2"),
		}}
	}
	merge := func(opts ...CreateNetworkInterfaceOption) *CreateNetworkInterfaceOptions {
		// what CreateNetworkInterface / CreateElasticNetworkInterfaceV2 do with their arguments
		o := &CreateNetworkInterfaceOptions{}
		for _, opt := range opts {
			opt.ApplyCreateNetworkInterface(o)
		}
		return o
	}
	a, b := mk("a"), mk("b")
	aCopy, bCopy := *a.NetworkInterfaceOptions, *b.NetworkInterfaceOptions
	ra := merge(template, a)
	rb := merge(template, b)
	t := template.NetworkInterfaceOptions
	zz.Assert(t.Trunk == trunk0 && t.ERDMA == erdma0 && t.VSwitchID == "" && t.IPCount == 0 && t.IPv6Count == 0 && t.SecurityGroupIDs == nil && t.ResourceGroupID == "" && t.InstanceID == "", "the shared template is not written to by a merge")
	same := func(x *NetworkInterfaceOptions, y NetworkInterfaceOptions) bool {
		return zz.And(x.VSwitchID == y.VSwitchID, x.IPCount == y.IPCount, x.IPv6Count == y.IPv6Count, x.ResourceGroupID == y.ResourceGroupID, x.InstanceID == y.InstanceID, len(x.SecurityGroupIDs) == 1 && x.SecurityGroupIDs[0] == y.SecurityGroupIDs[0])
	}
	zz.Assert(same(a.NetworkInterfaceOptions, aCopy) && same(b.NetworkInterfaceOptions, bCopy), "the callers' own options are not written to either")
	for _, r := range []struct {
		got  *CreateNetworkInterfaceOptions
		want NetworkInterfaceOptions
	}{{ra, aCopy}, {rb, bCopy}} {
		g := r.got.NetworkInterfaceOptions
		zz.Assert(g != nil && g != template.NetworkInterfaceOptions, "every call works on an option set of its own")
		if g == nil {
			continue
		}
		zz.Assert(g.Trunk == trunk0 && g.ERDMA == erdma0, "the interface type comes from the template")
		zz.Assert(g.VSwitchID == r.want.VSwitchID && g.InstanceID == r.want.InstanceID && g.ResourceGroupID == r.want.ResourceGroupID && len(g.SecurityGroupIDs) == 1 && g.SecurityGroupIDs[0] == r.want.SecurityGroupIDs[0], "placement comes from the caller")
		zz.Assert(g.IPCount == r.want.IPCount && g.IPv6Count == r.want.IPv6Count, "the request carries exactly the caller's address counts - zero stays zero, nothing is inherited from an earlier call")
	}
}
