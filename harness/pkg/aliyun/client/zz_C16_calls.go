//go:build verif

package client

import (
	"context"
	"io"
	"net/url"
	"strconv"

	sdkErr "github.com/aliyun/alibaba-cloud-sdk-go/sdk/errors"
	"github.com/aliyun/alibaba-cloud-sdk-go/services/ecs"
	"github.com/aliyun/alibaba-cloud-sdk-go/services/eflo"
	"github.com/aliyun/alibaba-cloud-sdk-go/services/vpc"
	"github.com/go-logr/logr"
	"go.opentelemetry.io/otel/trace/noop"

	zz "github.com/AliyunContainerService/terway/internal/zzverif"
	apiErr "github.com/AliyunContainerService/terway/pkg/aliyun/client/errors"
)

type zzClientSet struct{}

func (zzClientSet) ECS() *ecs.Client   { return nil }
func (zzClientSet) VPC() *vpc.Client   { return nil }
func (zzClientSet) EFLO() *eflo.Client { return nil }

// an SDK server error with a given code
type zzSDKError struct{ code string }

func (e *zzSDKError) Error() string      { return "sdk error " + e.code }
func (e *zzSDKError) ErrorCode() string  { return e.code }
func (e *zzSDKError) HttpStatus() int    { return 400 }
func (e *zzSDKError) Message() string    { return "msg" }
func (e *zzSDKError) OriginError() error { return nil }

var _ sdkErr.Error = &zzSDKError{}

// zzWire: what the cloud saw.  Every request put on the wire is logged with
// its client token; the outcome of each request is chosen by the solver.
type zzWire struct {
	call     int        // index of the API call in progress
	tokens   [][]string // tokens per API call, one per request sent
	limiter  []bool     // did the rate limiter refuse this call
	accepted []bool     // did the cloud accept (execute) a request of this call
}

// outcome of one request: 0 success, 1 throttled (retried inside the call), 2 connection error (retried),
// 3 definite API error, 4 (EFLO only) HTTP success with a non-zero business code
func (w *zzWire) send(token string, eflo bool) (int, error) {
	w.tokens[w.call] = append(w.tokens[w.call], token)
	n := 4
	if eflo {
		n = 5
	}
	o := 0
	if w.call < 2 { // the third call is only there to show its token: it succeeds at once
		o = zz.Fork("call"+strconv.Itoa(w.call)+".req"+strconv.Itoa(len(w.tokens[w.call])-1), n)
	}
	if o == 0 {
		w.accepted[w.call] = true
	}
	switch o {
	case 1:
		return o, &zzSDKError{code: apiErr.ErrThrottling}
	case 2:
		return o, &url.Error{Op: "Post", URL: "https://ecs", Err: io.EOF}
	case 3:
		return o, &zzSDKError{code: "InvalidParameter"}
	}
	return o, nil
}

// C16 at the level of the API calls: each create / assign entry point is
// called twice with the same parameters.  Whatever way the first call fails
// (rate limiter, throttling or connection errors until the retries are used
// up, a definite API error, an EFLO business error code) the second call
// carries the same client token on the wire; every request sent within one
// call carries one token; after a success the next call carries a new token.
// zz:noreplay the SDK clients and the rate limiter are replaced through engine-side overrides
func ZZ_C16_api_calls() {
	w := &zzWire{tokens: make([][]string, 3), limiter: make([]bool, 3), accepted: make([]bool, 3)}
	zz.Override("github.com/AliyunContainerService/terway/pkg/aliyun/client.LogFields", func(l logr.Logger, obj any) logr.Logger { return l })
	zz.Override("(*github.com/AliyunContainerService/terway/pkg/aliyun/client.RateLimiter).Wait", func(r *RateLimiter, ctx context.Context, name string) error {
		if w.call < 2 && zz.Bool("call"+strconv.Itoa(w.call)+".limiter.refuses") {
			w.limiter[w.call] = true
			return context.DeadlineExceeded
		}
		return nil
	})
	zz.Override("(*github.com/aliyun/alibaba-cloud-sdk-go/services/ecs.Client).CreateNetworkInterface", func(c *ecs.Client, req *ecs.CreateNetworkInterfaceRequest) (*ecs.CreateNetworkInterfaceResponse, error) {
		_, err := w.send(req.ClientToken, false)
		return &ecs.CreateNetworkInterfaceResponse{NetworkInterfaceId: "eni-1"}, err
	})
	zz.Override("(*github.com/aliyun/alibaba-cloud-sdk-go/services/ecs.Client).AssignPrivateIpAddresses", func(c *ecs.Client, req *ecs.AssignPrivateIpAddressesRequest) (*ecs.AssignPrivateIpAddressesResponse, error) {
		_, err := w.send(req.ClientToken, false)
		return &ecs.AssignPrivateIpAddressesResponse{}, err
	})
	zz.Override("(*github.com/aliyun/alibaba-cloud-sdk-go/services/ecs.Client).AssignIpv6Addresses", func(c *ecs.Client, req *ecs.AssignIpv6AddressesRequest) (*ecs.AssignIpv6AddressesResponse, error) {
		_, err := w.send(req.ClientToken, false)
		return &ecs.AssignIpv6AddressesResponse{}, err
	})
	zz.Override("(*github.com/aliyun/alibaba-cloud-sdk-go/services/eflo.Client).CreateElasticNetworkInterface", func(c *eflo.Client, req *eflo.CreateElasticNetworkInterfaceRequest) (*eflo.CreateElasticNetworkInterfaceResponse, error) {
		o, err := w.send(req.ClientToken, true)
		resp := &eflo.CreateElasticNetworkInterfaceResponse{}
		if o == 4 {
			resp.Code = 1013
		}
		return resp, err
	})
	zz.Override("(*github.com/aliyun/alibaba-cloud-sdk-go/services/eflo.Client).AssignLeniPrivateIpAddress", func(c *eflo.Client, req *eflo.AssignLeniPrivateIpAddressRequest) (*eflo.AssignLeniPrivateIpAddressResponse, error) {
		o, err := w.send(req.ClientToken, true)
		resp := &eflo.AssignLeniPrivateIpAddressResponse{}
		if o == 4 {
			resp.Code = 1013
		}
		return resp, err
	})
	// the address lookup that follows a successful EFLO assign is not part of the claim
	zz.Override("(*github.com/AliyunContainerService/terway/pkg/aliyun/client.OpenAPI).ListLeniPrivateIPAddresses", func(a *OpenAPI, ctx context.Context, eniID, ipName, ipAddress string) (*eflo.Content, error) {
		return nil, context.Canceled
	})

	a := &OpenAPI{ClientSet: zzClientSet{}, IdempotentKeyGen: zzGen(), RateLimiter: &RateLimiter{}, Tracer: noop.NewTracerProvider().Tracer("zz")}
	api := zz.Shard(7) // one shard per API entry point
	// concrete parameters: how parameters map to tokens is decided by ZZ_C16_create_*; here the calls are the subject
	create := &CreateNetworkInterfaceOptions{NetworkInterfaceOptions: &NetworkInterfaceOptions{VSwitchID: "vsw-1", SecurityGroupIDs: []string{"sg-1"}, IPCount: 1, Tags: map[string]string{"creator": "x"}}}
	n := &NetworkInterfaceOptions{NetworkInterfaceID: "eni-1", IPCount: zz.IntRange("ipcount", 1, 3), IPv6Count: zz.IntRange("ipv6count", 1, 3)}
	assign4 := &AssignPrivateIPAddressOptions{NetworkInterfaceOptions: n}
	assign6 := &AssignIPv6AddressesOptions{NetworkInterfaceOptions: n}
	ctx := context.Background()
	errs := make([]error, 3)
	for i := 0; i < 3; i++ {
		w.call = i
		switch api {
		case 0:
			_, errs[i] = a.CreateNetworkInterface(ctx, create)
		case 1:
			_, errs[i] = a.AssignPrivateIPAddress(ctx, assign4)
		case 2:
			_, errs[i] = a.AssignIpv6Addresses(ctx, assign6)
		case 3:
			_, errs[i] = a.AssignPrivateIPAddress2(ctx, assign4)
		case 4:
			_, errs[i] = a.AssignIpv6Addresses2(ctx, assign6)
		case 5:
			_, errs[i] = a.CreateElasticNetworkInterfaceV2(ctx, create)
		case 6:
			_, errs[i] = a.AssignLeniPrivateIPAddress2(ctx, assign4)
		}
	}
	for i := 0; i < 3; i++ {
		for _, t := range w.tokens[i] {
			zz.Assert(t != "" && t == w.tokens[i][0], "every request sent within one call carries the same non-empty client token")
		}
	}
	// a token the cloud has executed a request with is spent: no later call carries it again (a failed
	// call puts its token back once, not twice - the retry uses it up)
	for i := 0; i < 3; i++ {
		for j := i + 1; j < 3; j++ {
			if w.accepted[i] && len(w.tokens[i]) > 0 && len(w.tokens[j]) > 0 {
				zz.Assert(w.tokens[j][0] != w.tokens[i][0], "a token of an executed call is never carried by a later call")
			}
		}
	}
	if len(w.tokens[0]) == 0 || len(w.tokens[1]) == 0 {
		zz.Assert(len(w.tokens[0]) > 0 || errs[0] != nil, "a call that sent nothing reports an error")
		return
	}
	// Was a request of the first call executed by the cloud?  (An EFLO assign whose follow-up address
	// lookup fails returns the assigned name together with an error; the address exists and is handed
	// to the caller, so that call counts as executed.)
	zz.Assert(zz.Implies(errs[0] == nil, w.accepted[0]), "a call only succeeds when the cloud executed a request")
	zz.Assert(zz.Implies(!w.accepted[0], errs[0] != nil), "a call none of whose requests was executed reports an error")
	if w.accepted[0] {
		zz.Reach("first call executed")
		zz.Assert(w.tokens[1][0] != w.tokens[0][0], "after an executed call the next call with the same parameters carries a new token")
	} else {
		zz.Reach("first call failed")
		zz.Assert(w.tokens[1][0] == w.tokens[0][0], "the retry of a failed call with the same parameters carries the same client token")
	}
}
