//go:build verif

package k8s

// C03 (the node agent reports teardown only after it verified the pod's
// absence): both the collector and the runtime-record clean-up take
// PodExist's answer "false, no error" as that verification - so a lookup that
// failed (throttling, time-out, 5xx) must come back as an error, never as
// "absent".  Same exploration as ZZ_C09_pod_exist.
func ZZ_C03_failed_lookup_is_not_absence() { ZZ_C09_pod_exist() }
