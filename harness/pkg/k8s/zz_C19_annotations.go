//go:build verif

package k8s

import (
	"context"

	corev1 "k8s.io/api/core/v1"
	"sigs.k8s.io/controller-runtime/pkg/client"

	zz "github.com/AliyunContainerService/terway/internal/zzverif"
)

type zzNodeAnnoClient struct {
	client.Client
	node    *corev1.Node
	patches int
}

func (c *zzNodeAnnoClient) Get(ctx context.Context, key client.ObjectKey, obj client.Object, opts ...client.GetOption) error {
	c.node.DeepCopyInto(obj.(*corev1.Node))
	return nil
}
func (c *zzNodeAnnoClient) Patch(ctx context.Context, obj client.Object, patch client.Patch, opts ...client.PatchOption) error {
	c.patches++
	return nil
}

// C19 (what the node advertises never exceeds what the instance type
// delivers): the daemon publishes the capacities it planned (pod addresses,
// member interfaces, RDMA addresses, trunk id) as node annotations.  A node
// may still carry annotations of an earlier run - of a larger instance type -
// so the write is skipped only when *every* wanted key is already there with
// the wanted value; if any key is missing or differs, the wanted values are
// written, whatever order the keys are looked at.
// zz:repeat 32
func ZZ_C19_capacity_annotations_written() {
	keys := []string{"k8s.aliyun.com/max-available-ip", "k8s.aliyun.com/max-member-eni-ip", "k8s.aliyun.com/trunk-on"}
	n := zz.Fork("wanted.keys", 3) + 1
	want := map[string]string{}
	node := &corev1.Node{}
	node.Name = "n1"
	node.Annotations = map[string]string{"other": "x"}
	allThere := true
	for i := 0; i < n; i++ {
		want[keys[i]] = "30"
		switch zz.Fork(keys[i]+".on.node", 3) {
		case 0:
			node.Annotations[keys[i]] = "30"
		case 1:
			node.Annotations[keys[i]] = "70" // left by an earlier run on a larger type
			allThere = false
		default:
			allThere = false
		}
	}
	cl := &zzNodeAnnoClient{node: node}
	k := &k8s{client: cl, nodeName: "n1"}
	err := k.PatchNodeAnnotations(want)
	zz.Assert(err == nil, "publishing succeeds")
	zz.Assert((cl.patches == 0) == allThere && cl.patches <= 1, "the annotations are written unless every wanted key already has the wanted value")
}
