//go:build verif

package k8s

import (
	"context"
	"errors"

	corev1 "k8s.io/api/core/v1"
	apierrors "k8s.io/apimachinery/pkg/api/errors"
	"k8s.io/apimachinery/pkg/runtime/schema"
	"sigs.k8s.io/controller-runtime/pkg/client"

	zz "github.com/AliyunContainerService/terway/internal/zzverif"
)

type zzPodGetter struct {
	client.Client
	outcome  int // 0 found, 1 not found, 2 other error
	pod      *corev1.Pod
	uncached bool
}

var errZZAPI = errors.New("api server unavailable")

func (c *zzPodGetter) Get(ctx context.Context, key client.ObjectKey, obj client.Object, opts ...client.GetOption) error {
	for _, o := range opts {
		if g, ok := o.(*client.GetOptions); ok && g.Raw != nil && g.Raw.ResourceVersion == "" {
			c.uncached = true
		}
	}
	switch c.outcome {
	case 1:
		return apierrors.NewNotFound(schema.GroupResource{Resource: "pods"}, key.Name)
	case 2:
		return errZZAPI
	}
	if key.Namespace != c.pod.Namespace || key.Name != c.pod.Name {
		return apierrors.NewNotFound(schema.GroupResource{Resource: "pods"}, key.Name)
	}
	c.pod.DeepCopyInto(obj.(*corev1.Pod))
	return nil
}

// C09 (the second look the collector takes before it frees a record): a pod
// "exists" for this node exactly when the API server holds an object of that
// name that is bound to *this* node - an object bound to another node, or to
// no node yet (the re-created, still pending replacement of a StatefulSet
// pod), is not the pod the record belongs to; "not found" is a definite no;
// any other failure is an error (so that the collector skips the record
// instead of freeing it), and the look goes to the API server, not a cache.
func ZZ_C09_pod_exist() {
	pod := &corev1.Pod{}
	pod.Namespace, pod.Name = "ns", "p0"
	pod.Spec.NodeName = zz.OneOf("pod.node", "", "node-1", "node-2", "node-10")
	pod.Status.Phase = corev1.PodPhase(zz.OneOf("pod.phase", "Pending", "Running", "Succeeded", "Failed"))
	c := &zzPodGetter{outcome: zz.Fork("get.outcome", 3), pod: pod}
	k := &k8s{client: c, nodeName: "node-1"}
	ok, err := k.PodExist("ns", "p0")
	switch c.outcome {
	case 0:
		zz.Assert(err == nil && ok == (pod.Spec.NodeName == "node-1"), "a pod exists here exactly when the object of that name is bound to this node")
	case 1:
		zz.Assert(err == nil && !ok, "not found is a definite no")
	case 2:
		zz.Assert(err != nil && !ok, "a failed lookup is reported as an error, never as absence")
	}
	zz.Assert(c.uncached, "the look goes to the API server, not to a cache")
}
