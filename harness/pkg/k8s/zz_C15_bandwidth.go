//go:build verif

package k8s

import (
	corev1 "k8s.io/api/core/v1"
	metav1 "k8s.io/apimachinery/pkg/apis/meta/v1"
	"k8s.io/apimachinery/pkg/util/sets"

	zz "github.com/AliyunContainerService/terway/internal/zzverif"
	"github.com/AliyunContainerService/terway/types"
	"github.com/AliyunContainerService/terway/types/daemon"
)

func zzASCII(s string) bool {
	ok := true
	for i := 0; i < len(s); i++ {
		ok = zz.And(ok, s[i] < 0x80)
	}
	return ok
}

// C15: no byte string in the bandwidth annotation makes the parser panic.
func ZZ_C15_bandwidth_nopanic() {
	n := 3
	if zz.Tier() > 0 {
		n = 5
	}
	s := zz.Str("bw", n)
	zz.Assume(zzASCII(s))
	v, err := parseBandwidth(s)
	zz.Assert(zz.Implies(err != nil, v == 0), "a rejected bandwidth value yields 0")
	zz.Reach("returned")
}

func zzDigits(name string, n int) string {
	s := zz.Str(name, n)
	zz.Assume(len(s) >= 1)
	ok := true
	for i := 0; i < len(s); i++ {
		ok = zz.And(ok, s[i] >= '0', s[i] <= '9')
	}
	zz.Assume(ok)
	zz.Assume(s[0] != '0')
	return s
}

// C15: well-formed values are accepted with or without a unit and scale
// monotonically with the unit.
func ZZ_C15_bandwidth_wellformed() {
	n := 3
	if zz.Tier() > 0 {
		n = 6
	}
	d := zzDigits("mantissa", n)
	vb0, e0 := parseBandwidth(d)
	zz.Assert(e0 == nil, "a plain positive number without unit is accepted")
	vb, e1 := parseBandwidth(d + "B")
	vk, e2 := parseBandwidth(d + "K")
	vm, e3 := parseBandwidth(d + "m")
	vg, e4 := parseBandwidth(d + "G")
	vt, e5 := parseBandwidth(d + "t")
	zz.Assert(zz.And(e1 == nil, e2 == nil, e3 == nil, e4 == nil, e5 == nil), "a positive number with a unit is accepted")
	zz.Assert(zz.And(vb0 == vb, vb <= vk, vk <= vm, vm <= vg, vg <= vt, vb > 0), "the value scales monotonically with its unit")
	zz.Assert(zz.And(vk == vb*1024, vm == vk*1024, vg == vm*1024, vt == vg*1024), "units are powers of 1024")
}

// C15: every spelling of the accepted unit set is accepted (case-insensitive,
// with B / iB suffix, surrounding blanks).
func ZZ_C15_bandwidth_units() {
	d := zzDigits("mantissa", 2)
	units := []string{"", "b", "B", "k", "K", "kb", "KiB", "m", "MB", "mib", "g", "GB", "gib", "t", "TB", "TiB"}
	u := units[zz.Fork("unit", len(units))]
	pre := []string{"", " "}[zz.Fork("lead", 2)]
	post := []string{"", " ", "\t"}[zz.Fork("trail", 3)]
	v, err := parseBandwidth(pre + d + u + post)
	zz.Assert(zz.And(err == nil, v > 0), "a positive number with any accepted unit spelling is accepted")
	bad := []string{"x", "kk", "bit", "E", "Ki"}
	_, err2 := parseBandwidth(d + bad[zz.Fork("badunit", len(bad))])
	zz.Assert(err2 != nil, "an unknown unit is rejected with an error")
}

// C15: pod -> PodInfo conversion (run on every RPC) never panics, whatever
// the user-writable annotations contain.
func ZZ_C15_convertPod_nopanic() {
	ann := map[string]string{}
	// two groups of annotations are explored separately (sum instead of product of cases)
	if zz.Fork("group", 2) == 0 {
		// byte-level exploration of the bandwidth parser is ZZ_C15_bandwidth_nopanic;
		// here representative shapes flow through the conversion
		ing := []string{"", "100", "1M", " 5g ", "abc", "M", "-1", "   "}
		if k := zz.Fork("ingress", len(ing)+1); k > 0 {
			ann[podIngressBandwidth] = ing[k-1]
		}
		eg := []string{"", "100", "x1"}
		if k := zz.Fork("egress", len(eg)+1); k > 0 {
			ann[podEgressBandwidth] = eg[k-1]
		}
	} else {
		if zz.Bool("has.podeni") {
			ann[types.PodENI] = zz.OneOf("podeni", "", "true", "false", "1", "yes", "TRUE", "x")
		}
		if zz.Bool("has.prio") {
			ann[types.NetworkPriority] = zz.OneOf("prio", "", "best-effort", "burstable", "guaranteed", "junk")
		}
		if zz.Bool("has.reserve") {
			ann[types.PodIPReservation] = zz.OneOf("reserve", "", "true", "false", "junk")
		}
	}
	pod := &corev1.Pod{ObjectMeta: metav1.ObjectMeta{Name: "p", Namespace: "ns", UID: "u"}}
	if zz.Bool("has.annotations") {
		pod.Annotations = ann
	}
	if zz.Bool("has.owner") {
		pod.OwnerReferences = []metav1.OwnerReference{{Kind: zz.OneOf("kind", "StatefulSet", "ReplicaSet", "", "statefulset")}}
	}
	pod.Status.Phase = corev1.PodPhase(zz.OneOf("phase", "Running", "Failed", "Succeeded", "", "junk"))
	mode := zz.OneOf("mode", daemon.ModeENIMultiIP, daemon.ModeENIOnly) // the daemon mode is a process flag, not user input
	pi := convertPod(mode, zz.Bool("erdma"), sets.New[string]("statefulset"), pod)
	zz.Assert(pi != nil, "conversion always yields a PodInfo")
	zz.Assert(zz.Implies(pi.NetworkPriority != "", zz.Or(pi.NetworkPriority == "best-effort", pi.NetworkPriority == "burstable", pi.NetworkPriority == "guaranteed")), "only well-formed priorities are taken over")
}
