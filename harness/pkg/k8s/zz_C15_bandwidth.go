//go:build verif

package k8s

import (
	"context"
	"errors"

	apierrors "k8s.io/apimachinery/pkg/api/errors"
	"k8s.io/apimachinery/pkg/runtime"
	"k8s.io/apimachinery/pkg/runtime/schema"
	"k8s.io/client-go/tools/record"
	"sigs.k8s.io/controller-runtime/pkg/client"

	corev1 "k8s.io/api/core/v1"
	metav1 "k8s.io/apimachinery/pkg/apis/meta/v1"
	"k8s.io/apimachinery/pkg/util/sets"

	zz "github.com/AliyunContainerService/terway/internal/zzverif"
	"github.com/AliyunContainerService/terway/pkg/tracing"
	"github.com/AliyunContainerService/terway/types"
	"github.com/AliyunContainerService/terway/types/daemon"
)

func zzASCII(s string) bool {
	ok := true
	for i := 0; i < len(s); i++ {
		ok = zz.And(ok, s[i] < 0x80)
	}
	return ok
}

// C15: no byte string in the bandwidth annotation makes the parser panic.
func ZZ_C15_bandwidth_nopanic() {
	n := 3
	if zz.Tier() > 0 {
		n = 4
	}
	s := zz.Str("bw", n)
	zz.Assume(zzASCII(s))
	v, err := parseBandwidth(s)
	zz.Assert(zz.Implies(err != nil, v == 0), "a rejected bandwidth value yields 0")
	zz.Reach("returned")
}

func zzDigits(name string, n int) string {
	s := zz.Str(name, n)
	zz.Assume(len(s) >= 1)
	ok := true
	for i := 0; i < len(s); i++ {
		ok = zz.And(ok, s[i] >= '0', s[i] <= '9')
	}
	zz.Assume(ok)
	zz.Assume(s[0] != '0')
	return s
}

// C15: well-formed values are accepted with or without a unit and scale
// monotonically with the unit.
func ZZ_C15_bandwidth_wellformed() {
	n := 3
	if zz.Tier() > 0 {
		n = 6
	}
	d := zzDigits("mantissa", n)
	vb0, e0 := parseBandwidth(d)
	zz.Assert(e0 == nil, "a plain positive number without unit is accepted")
	vb, e1 := parseBandwidth(d + "B")
	vk, e2 := parseBandwidth(d + "K")
	vm, e3 := parseBandwidth(d + "m")
	vg, e4 := parseBandwidth(d + "G")
	vt, e5 := parseBandwidth(d + "t")
	zz.Assert(zz.And(e1 == nil, e2 == nil, e3 == nil, e4 == nil, e5 == nil), "a positive number with a unit is accepted")
	zz.Assert(zz.And(vb0 == vb, vb <= vk, vk <= vm, vm <= vg, vg <= vt, vb > 0), "the value scales monotonically with its unit")
	zz.Assert(zz.And(vk == vb*1024, vm == vk*1024, vg == vm*1024, vt == vg*1024), "units are powers of 1024")
}

// C15: every spelling of the accepted unit set is accepted (case-insensitive,
// with B / iB suffix, surrounding blanks).
func ZZ_C15_bandwidth_units() {
	d := zzDigits("mantissa", 2)
	units := []string{"", "b", "B", "k", "K", "kb", "KiB", "m", "MB", "mib", "g", "GB", "gib", "t", "TB", "TiB"}
	u := units[zz.Fork("unit", len(units))]
	pre := []string{"", " "}[zz.Fork("lead", 2)]
	post := []string{"", " ", "\t"}[zz.Fork("trail", 3)]
	v, err := parseBandwidth(pre + d + u + post)
	zz.Assert(zz.And(err == nil, v > 0), "a positive number with any accepted unit spelling is accepted")
	bad := []string{"x", "kk", "bit", "E", "Ki"}
	_, err2 := parseBandwidth(d + bad[zz.Fork("badunit", len(bad))])
	zz.Assert(err2 != nil, "an unknown unit is rejected with an error")
}

type zzEventClient struct {
	client.Client
	outcome int // 0 found, 1 not found, 2 other error
}

func (c *zzEventClient) Get(ctx context.Context, key client.ObjectKey, obj client.Object, opts ...client.GetOption) error {
	switch c.outcome {
	case 1:
		return apierrors.NewNotFound(schema.GroupResource{Resource: "pods"}, key.Name)
	case 2:
		return errors.New("api server error")
	}
	p := obj.(*corev1.Pod)
	p.Name, p.Namespace, p.UID = key.Name, key.Namespace, "u"
	return nil
}

type zzRecorder struct {
	record.EventRecorder
	n int
}

func (r *zzRecorder) Event(object runtime.Object, eventtype, reason, message string) { r.n++ }

// C15: pod -> PodInfo conversion (run on every RPC) never panics, whatever
// the user-writable annotations contain.
func ZZ_C15_convertPod_nopanic() {
	ann := map[string]string{}
	// two groups of annotations are explored separately (sum instead of product of cases)
	if zz.Fork("group", 2) == 0 {
		// byte-level exploration of the bandwidth parser is ZZ_C15_bandwidth_nopanic;
		// here representative shapes flow through the conversion
		ing := []string{"", "100", "1M", " 5g ", "abc", "M", "-1", "   "}
		if k := zz.Fork("ingress", len(ing)+1); k > 0 {
			ann[podIngressBandwidth] = ing[k-1]
		}
		eg := []string{"", "100", "x1"}
		if k := zz.Fork("egress", len(eg)+1); k > 0 {
			ann[podEgressBandwidth] = eg[k-1]
		}
	} else {
		if zz.Bool("has.podeni") {
			ann[types.PodENI] = zz.OneOf("podeni", "", "true", "false", "1", "yes", "TRUE", "x")
		}
		if zz.Bool("has.prio") {
			ann[types.NetworkPriority] = zz.OneOf("prio", "", "best-effort", "burstable", "guaranteed", "junk")
		}
		if zz.Bool("has.reserve") {
			ann[types.PodIPReservation] = zz.OneOf("reserve", "", "true", "false", "junk")
		}
	}
	pod := &corev1.Pod{ObjectMeta: metav1.ObjectMeta{Name: "p", Namespace: "ns", UID: "u"}}
	if zz.Bool("has.annotations") {
		pod.Annotations = ann
	}
	if zz.Bool("has.owner") {
		pod.OwnerReferences = []metav1.OwnerReference{{Kind: zz.OneOf("kind", "StatefulSet", "ReplicaSet", "", "statefulset")}}
	}
	pod.Status.Phase = corev1.PodPhase(zz.OneOf("phase", "Running", "Failed", "Succeeded", "", "junk"))
	mode := zz.OneOf("mode", daemon.ModeENIMultiIP, daemon.ModeENIOnly) // the daemon mode is a process flag, not user input
	pi := convertPod(mode, zz.Bool("erdma"), sets.New[string]("statefulset"), pod)
	zz.Assert(pi != nil, "conversion always yields a PodInfo")
	zz.Assert(zz.Implies(pi.NetworkPriority != "", zz.Or(pi.NetworkPriority == "best-effort", pi.NetworkPriority == "burstable", pi.NetworkPriority == "guaranteed")), "only well-formed priorities are taken over")
}

// C15: a malformed value is ignored and reported as a pod event through the
// registered recorder - the daemon's own (*k8s).RecordPodEvent, whose cached
// pod lookup may succeed, miss (stale cache, pod just created or just
// deleted) or fail.  Whatever the lookup answers, the conversion does not
// panic and ignores the value; an event is emitted only for a pod that was
// found.
func ZZ_C15_convertPod_event_path() {
	rec := &zzRecorder{}
	kc := &k8s{client: &zzEventClient{outcome: zz.Fork("event.lookup", 3)}, recorder: rec}
	// natively the recorder is registered as the daemon does at start-up; under the engine
	// (pkg/tracing is stubbed out) the same routing is installed as an override
	tracing.RegisterEventRecorder(nil, kc.RecordPodEvent)
	zz.Override("github.com/AliyunContainerService/terway/pkg/tracing.RecordPodEvent", func(podName, podNamespace, eventType, reason, message string) error {
		return kc.RecordPodEvent(podName, podNamespace, eventType, reason, message)
	})
	ann := map[string]string{}
	site := zz.Fork("malformed.annotation", 4)
	switch site {
	case 0:
		ann[podIngressBandwidth] = zz.OneOf("value", "abc", "M", "1x", "  ")
	case 1:
		ann[podEgressBandwidth] = zz.OneOf("value", "abc", "M", "1x", "  ")
	case 2:
		ann[types.PodENI] = zz.OneOf("value", "abc", "yes", "", "  ")
	case 3:
		ann[types.NetworkPriority] = zz.OneOf("value", "abc", "high", "", "  ")
	}
	pod := &corev1.Pod{ObjectMeta: metav1.ObjectMeta{Name: "p", Namespace: "ns", UID: "u", Annotations: ann}}
	pi := convertPod(daemon.ModeENIMultiIP, false, sets.New[string]("statefulset"), pod)
	zz.Assert(pi != nil && pi.TcIngress == 0 && pi.TcEgress == 0 && !pi.PodENI && pi.NetworkPriority == "", "a malformed value is ignored")
	if zz.IsEngine() {
		zz.Assert(rec.n == 1 == (kc.client.(*zzEventClient).outcome == 0), "the parse failure is reported as an event exactly when the pod could be looked up")
	}
}
