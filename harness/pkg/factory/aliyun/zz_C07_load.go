//go:build verif

package aliyun

import (
	"net/netip"

	zz "github.com/AliyunContainerService/terway/internal/zzverif"
	"github.com/AliyunContainerService/terway/types/daemon"
)

type zzGetter struct {
	fail4, fail6   bool
	v4, v6         []netip.Addr
	asked4, asked6 int
}

func (g *zzGetter) GetENIPrivateAddressesByMACv2(mac string) ([]netip.Addr, error) {
	g.asked4++
	if g.fail4 {
		return nil, errZZAPI
	}
	return g.v4, nil
}
func (g *zzGetter) GetENIPrivateIPv6AddressesByMACv2(mac string) ([]netip.Addr, error) {
	g.asked6++
	if g.fail6 {
		return nil, errZZAPI
	}
	return g.v6, nil
}
func (g *zzGetter) GetENIs(containsMainENI bool) ([]*daemon.ENI, error) { return nil, errZZAPI }

// C07 (the pool's picture of the cloud, periodic sync and start-up load): the
// pool takes what LoadNetworkInterface returns as the truth - it marks every
// valid address the answer lacks as gone.  So an answer is either complete
// for every enabled family or an error: a failed lookup of one family is
// never presented as "this interface has no address of that family", whatever
// the other family's lookup says; a disabled family is not asked.
func ZZ_C07_factory_load_all_or_error() {
	g := &zzGetter{fail4: zz.Bool("ipv4.lookup.fails"), fail6: zz.Bool("ipv6.lookup.fails"),
		v4: []netip.Addr{netip.AddrFrom4([4]byte{10, 0, 0, 1}), netip.AddrFrom4([4]byte{10, 0, 0, 2})},
		v6: []netip.Addr{netip.AddrFrom16([16]byte{0xfd, 15: 2})}}
	a := &Aliyun{getter: g, enableIPv4: zz.Bool("enable.ipv4"), enableIPv6: zz.Bool("enable.ipv6")}
	v4, v6, err := a.LoadNetworkInterface("00:00:00:00:00:01")
	failed := (a.enableIPv4 && g.fail4) || (a.enableIPv6 && g.asked6 > 0 && g.fail6)
	zz.Assert(zz.Implies(a.enableIPv4 && g.fail4, err != nil), "a failed IPv4 lookup is an error, not an empty address list")
	zz.Assert(zz.Implies(a.enableIPv6 && g.fail6, err != nil), "a failed IPv6 lookup is an error, not an empty address list")
	if err == nil {
		zz.Assert(!failed, "success means every enabled family was looked up successfully")
		zz.Assert(zz.Implies(a.enableIPv4, len(v4) == 2 && v4[0] == g.v4[0] && v4[1] == g.v4[1]), "the IPv4 addresses are those the metadata service lists")
		zz.Assert(zz.Implies(a.enableIPv6, len(v6) == 1 && v6[0] == g.v6[0]), "the IPv6 addresses are those the metadata service lists")
	}
	zz.Assert(zz.Implies(!a.enableIPv4, g.asked4 == 0 && len(v4) == 0) && zz.Implies(!a.enableIPv6, g.asked6 == 0 && len(v6) == 0), "a disabled family is neither asked nor reported")
}
