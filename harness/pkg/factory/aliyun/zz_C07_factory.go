//go:build verif

package aliyun

import (
	"context"
	"errors"
	"net"
	"net/netip"
	"time"

	zz "github.com/AliyunContainerService/terway/internal/zzverif"
	"github.com/AliyunContainerService/terway/pkg/aliyun/client"
	vswpool "github.com/AliyunContainerService/terway/pkg/vswitch"
)

var errZZAPI = errors.New("openapi error")

// C07 (a call that failed after taking effect: whatever the cloud holds is
// tracked or handed back), hand-over between the cloud factory and the pool:
// the pool's allocation worker can only queue for unassignment what the
// factory tells it about.  When the assign call was executed by the cloud but
// a later step fails (the new addresses do not show up in the instance
// metadata in time), the factory returns the assigned addresses *together
// with* the error; it returns no address only when the cloud assigned none.
// zz:noreplay the OpenAPI client and the metadata service are replaced through engine-side overrides
func ZZ_C07_factory_reports_assigned() {
	v6 := zz.Bool("ipv6")
	n := zz.Fork("assigned", 3) // addresses the cloud assigned (0: the call itself failed)
	var assigned []netip.Addr
	for i := 0; i < n; i++ {
		if v6 {
			assigned = append(assigned, netip.AddrFrom16([16]byte{0xfd, 0, 0, 0, 0, 0, 0, 0, 0, 0, 0, 0, 0, 0, 0, byte(10 + i)}))
		} else {
			assigned = append(assigned, netip.AddrFrom4([4]byte{10, 0, 0, byte(10 + i)}))
		}
	}
	calls := 0
	zz.Override("(*github.com/AliyunContainerService/terway/pkg/aliyun/client.OpenAPI).AssignPrivateIPAddress", func(a *client.OpenAPI, ctx context.Context, opts ...client.AssignPrivateIPAddressOption) ([]netip.Addr, error) {
		calls++
		if n == 0 {
			return nil, errZZAPI
		}
		return assigned, nil
	})
	zz.Override("(*github.com/AliyunContainerService/terway/pkg/aliyun/client.OpenAPI).AssignIpv6Addresses", func(a *client.OpenAPI, ctx context.Context, opts ...client.AssignIPv6AddressesOption) ([]netip.Addr, error) {
		calls++
		if n == 0 {
			return nil, errZZAPI
		}
		return assigned, nil
	})
	// the metadata service: lists the new addresses or lags behind / fails
	visible := zz.Bool("metadata.shows.new.addresses")
	answer := func(mac string) ([]netip.Addr, error) {
		if zz.Bool("metadata.fails") {
			return nil, errZZAPI
		}
		if visible {
			return assigned, nil
		}
		return nil, nil
	}
	zz.Override("github.com/AliyunContainerService/terway/pkg/aliyun/metadata.GetIPv4ByMac", answer)
	zz.Override("github.com/AliyunContainerService/terway/pkg/aliyun/metadata.GetIPv6ByMac", answer)
	a := &Aliyun{ctx: context.Background(), openAPI: &client.OpenAPI{}}
	var got []netip.Addr
	var err error
	if v6 {
		got, err = a.AssignNIPv6("eni-1", 2, "00:00:00:00:00:01")
	} else {
		got, err = a.AssignNIPv4("eni-1", 2, "00:00:00:00:00:01")
	}
	zz.Assert(calls == 1, "one assign call")
	if n == 0 {
		zz.Assert(err != nil && len(got) == 0, "a refused assign reports an error and no address")
		return
	}
	zz.Assert(len(got) == n, "every address the cloud assigned is reported to the pool, also when a later step fails (the pool queues them for unassignment)")
	for i := range got {
		if i < n {
			zz.Assert(got[i] == assigned[i], "the reported addresses are the assigned ones")
		}
	}
	if err != nil {
		zz.Reach("assigned but not confirmed")
	} else {
		zz.Reach("assigned and confirmed")
	}
}

// C07 (a failed create is marked for deletion, not leaked), factory side of
// the hand-over: once the cloud has created the interface, every way the rest
// of the creation can fail (attach refused, addresses or MAC not showing up in
// the metadata, subnet / gateway lookup failing, final status check failing)
// still returns the interface description to the pool - which records it as
// deleting and removes it - and returns no interface only when the cloud
// created none.
// zz:noreplay the OpenAPI client, the vSwitch pool and the metadata service are replaced through engine-side overrides
func ZZ_C07_factory_create_reports_eni() {
	failAt := zz.Fork("fail.at", 12) // 0 none, 1 create, 2 attach, 3 ip not in metadata, 4 mac not in metadata, 5 cidr, 6 gateway, 7 describe fails, 8 never in use; dual stack only: 9 IPv6 address not in metadata, 10 IPv6 cidr, 11 IPv6 gateway
	ipv6 := zz.Fork("ipv6", 2)
	zz.Assume(failAt < 9 || ipv6 > 0)
	zz.Override("time.After", func(d time.Duration) <-chan time.Time {
		c := make(chan time.Time, 1)
		c <- time.Time{}
		return c
	})
	zz.Override("(*github.com/AliyunContainerService/terway/pkg/vswitch.SwitchPool).GetOne", func(s *vswpool.SwitchPool, ctx context.Context, c client.VPC, zone string, ids []string, opts ...vswpool.SelectOption) (*vswpool.Switch, error) {
		return &vswpool.Switch{ID: "vsw-1", Zone: zone, AvailableIPCount: 10}, nil
	})
	created := false
	zz.Override("(*github.com/AliyunContainerService/terway/pkg/aliyun/client.OpenAPI).CreateNetworkInterface", func(a *client.OpenAPI, ctx context.Context, opts ...client.CreateNetworkInterfaceOption) (*client.NetworkInterface, error) {
		if failAt == 1 {
			return nil, errZZAPI
		}
		created = true
		e := &client.NetworkInterface{NetworkInterfaceID: "eni-new", MacAddress: "00:00:00:00:00:09", VSwitchID: "vsw-1", PrivateIPAddress: "10.0.0.9",
			PrivateIPSets: []client.IPSet{{IPAddress: "10.0.0.9", Primary: true}}}
		if ipv6 > 0 {
			e.IPv6Set = []client.IPSet{{IPAddress: "fd00::9"}}
		}
		return e, nil
	})
	zz.Override("(*github.com/AliyunContainerService/terway/pkg/aliyun/client.OpenAPI).AttachNetworkInterface", func(a *client.OpenAPI, ctx context.Context, opts ...client.AttachNetworkInterfaceOption) error {
		if failAt == 2 {
			return errZZAPI
		}
		return nil
	})
	zz.Override("github.com/AliyunContainerService/terway/pkg/aliyun/metadata.GetIPv4ByMac", func(mac string) ([]netip.Addr, error) {
		if failAt == 3 {
			return nil, nil
		}
		return []netip.Addr{netip.MustParseAddr("10.0.0.9")}, nil
	})
	zz.Override("github.com/AliyunContainerService/terway/pkg/aliyun/metadata.GetIPv6ByMac", func(mac string) ([]netip.Addr, error) {
		if failAt == 9 {
			return nil, nil
		}
		return []netip.Addr{netip.MustParseAddr("fd00::9")}, nil
	})
	zz.Override("github.com/AliyunContainerService/terway/pkg/aliyun/metadata.GetENIsMAC", func() ([]string, error) {
		if failAt == 4 {
			return nil, errZZAPI
		}
		return []string{"00:00:00:00:00:09"}, nil
	})
	zz.Override("github.com/AliyunContainerService/terway/pkg/aliyun/metadata.GetVSwitchCIDR", func(mac string) (*net.IPNet, error) {
		if failAt == 5 {
			return nil, errZZAPI
		}
		return &net.IPNet{IP: net.IP{10, 0, 0, 0}, Mask: net.CIDRMask(24, 32)}, nil
	})
	zz.Override("github.com/AliyunContainerService/terway/pkg/aliyun/metadata.GetVSwitchIPv6CIDR", func(mac string) (*net.IPNet, error) {
		if failAt == 10 {
			return nil, errZZAPI
		}
		return &net.IPNet{IP: net.ParseIP("fd00::"), Mask: net.CIDRMask(64, 128)}, nil
	})
	zz.Override("github.com/AliyunContainerService/terway/pkg/aliyun/metadata.GetENIGatewayAddr", func(mac string) (netip.Addr, error) {
		if failAt == 6 {
			return netip.Addr{}, errZZAPI
		}
		return netip.MustParseAddr("10.0.0.253"), nil
	})
	zz.Override("github.com/AliyunContainerService/terway/pkg/aliyun/metadata.GetENIV6GatewayAddr", func(mac string) (netip.Addr, error) {
		if failAt == 11 {
			return netip.Addr{}, errZZAPI
		}
		return netip.MustParseAddr("fd00::fd"), nil
	})
	zz.Override("(*github.com/AliyunContainerService/terway/pkg/aliyun/client.OpenAPI).DescribeNetworkInterface", func(a *client.OpenAPI, ctx context.Context, vpcID string, eniID []string, instanceID string, instanceType string, status string, tags map[string]string) ([]*client.NetworkInterface, error) {
		if failAt == 7 {
			return nil, errZZAPI
		}
		st := client.ENIStatusInUse
		if failAt == 8 {
			st = client.ENIStatusAttaching
		}
		return []*client.NetworkInterface{{NetworkInterfaceID: eniID[0], Status: st}}, nil
	})
	a := &Aliyun{ctx: context.Background(), openAPI: &client.OpenAPI{}, vsw: &vswpool.SwitchPool{}, zoneID: "z1", vSwitchOptions: []string{"vsw-1"}, securityGroupIDs: []string{"sg-1"}, instanceID: "i-1"}
	e, v4, v6, err := a.CreateNetworkInterface(1, ipv6, "secondary")
	zz.Assert((err == nil) == (failAt == 0), "creation succeeds exactly without faults")
	if !created {
		zz.Assert(e == nil && len(v4) == 0 && len(v6) == 0, "nothing is reported when the cloud created nothing")
		return
	}
	zz.Assert(e != nil && e.ID == "eni-new" && e.MAC == "00:00:00:00:00:09", "an interface the cloud created is always reported to the pool, also when a later step fails (the pool records it as deleting and removes it)")
	if err == nil {
		zz.Assert(len(v4) == 1 && len(v6) == ipv6 && e.GatewayIP.IPv4 != nil && e.VSwitchCIDR.IPv4 != nil, "a successful creation reports addresses, subnet and gateway")
		zz.Assert(e.PrimaryIP.IPv4 != nil, "the primary address is reported")
	}
}
