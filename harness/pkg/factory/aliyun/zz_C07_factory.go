//go:build verif

package aliyun

import (
	"context"
	"errors"
	"net/netip"

	zz "github.com/AliyunContainerService/terway/internal/zzverif"
	"github.com/AliyunContainerService/terway/pkg/aliyun/client"
)

var errZZAPI = errors.New("openapi error")

// C07 (a call that failed after taking effect: whatever the cloud holds is
// tracked or handed back), hand-over between the cloud factory and the pool:
// the pool's allocation worker can only queue for unassignment what the
// factory tells it about.  When the assign call was executed by the cloud but
// a later step fails (the new addresses do not show up in the instance
// metadata in time), the factory returns the assigned addresses *together
// with* the error; it returns no address only when the cloud assigned none.
// zz:noreplay the OpenAPI client and the metadata service are replaced through engine-side overrides
func ZZ_C07_factory_reports_assigned() {
	v6 := zz.Bool("ipv6")
	n := zz.Fork("assigned", 3) // addresses the cloud assigned (0: the call itself failed)
	var assigned []netip.Addr
	for i := 0; i < n; i++ {
		if v6 {
			assigned = append(assigned, netip.AddrFrom16([16]byte{0xfd, 0, 0, 0, 0, 0, 0, 0, 0, 0, 0, 0, 0, 0, 0, byte(10 + i)}))
		} else {
			assigned = append(assigned, netip.AddrFrom4([4]byte{10, 0, 0, byte(10 + i)}))
		}
	}
	calls := 0
	zz.Override("(*github.com/AliyunContainerService/terway/pkg/aliyun/client.OpenAPI).AssignPrivateIPAddress", func(a *client.OpenAPI, ctx context.Context, opts ...client.AssignPrivateIPAddressOption) ([]netip.Addr, error) {
		calls++
		if n == 0 {
			return nil, errZZAPI
		}
		return assigned, nil
	})
	zz.Override("(*github.com/AliyunContainerService/terway/pkg/aliyun/client.OpenAPI).AssignIpv6Addresses", func(a *client.OpenAPI, ctx context.Context, opts ...client.AssignIPv6AddressesOption) ([]netip.Addr, error) {
		calls++
		if n == 0 {
			return nil, errZZAPI
		}
		return assigned, nil
	})
	// the metadata service: lists the new addresses or lags behind / fails
	visible := zz.Bool("metadata.shows.new.addresses")
	answer := func(mac string) ([]netip.Addr, error) {
		if zz.Bool("metadata.fails") {
			return nil, errZZAPI
		}
		if visible {
			return assigned, nil
		}
		return nil, nil
	}
	zz.Override("github.com/AliyunContainerService/terway/pkg/aliyun/metadata.GetIPv4ByMac", answer)
	zz.Override("github.com/AliyunContainerService/terway/pkg/aliyun/metadata.GetIPv6ByMac", answer)
	a := &Aliyun{ctx: context.Background(), openAPI: &client.OpenAPI{}}
	var got []netip.Addr
	var err error
	if v6 {
		got, err = a.AssignNIPv6("eni-1", 2, "00:00:00:00:00:01")
	} else {
		got, err = a.AssignNIPv4("eni-1", 2, "00:00:00:00:00:01")
	}
	zz.Assert(calls == 1, "one assign call")
	if n == 0 {
		zz.Assert(err != nil && len(got) == 0, "a refused assign reports an error and no address")
		return
	}
	zz.Assert(len(got) == n, "every address the cloud assigned is reported to the pool, also when a later step fails (the pool queues them for unassignment)")
	for i := range got {
		if i < n {
			zz.Assert(got[i] == assigned[i], "the reported addresses are the assigned ones")
		}
	}
	if err != nil {
		zz.Reach("assigned but not confirmed")
	} else {
		zz.Reach("assigned and confirmed")
	}
}
