//go:build verif

package aliyun

import (
	"context"
	"net/netip"

	zz "github.com/AliyunContainerService/terway/internal/zzverif"
	"github.com/AliyunContainerService/terway/pkg/aliyun/client"
)

// C07 (the pool forgets an address only after the cloud gave it up): the
// dispose worker drops a whole batch from its set as soon as UnAssignNIPv4/6
// returns without error.  The factory therefore confirms against the
// instance metadata that *every* address of the batch is gone - an answer
// "success" from the API while the metadata still lists some address of the
// batch (partial removal, lagging metadata) is not a success: the call ends
// in an error and the pool keeps the batch.  Batch of two, each address still
// listed or not at either of the two looks, both families.
// zz:noreplay the OpenAPI client and the metadata service are replaced through engine-side overrides
func ZZ_C07_factory_unassign_confirms_every_address() {
	v6 := zz.Bool("ipv6")
	mk := func(last byte) netip.Addr {
		if v6 {
			return netip.AddrFrom16([16]byte{0xfd, 15: last})
		}
		return netip.AddrFrom4([4]byte{10, 0, 0, last})
	}
	keep, a, b := mk(1), mk(11), mk(12)
	apiFails := zz.Bool("api.refuses")
	zz.Override("(*github.com/AliyunContainerService/terway/pkg/aliyun/client.OpenAPI).UnAssignPrivateIPAddresses", func(o *client.OpenAPI, ctx context.Context, eniID string, ips []netip.Addr) error {
		if apiFails {
			return errZZAPI
		}
		return nil
	})
	zz.Override("(*github.com/AliyunContainerService/terway/pkg/aliyun/client.OpenAPI).UnAssignIpv6Addresses", func(o *client.OpenAPI, ctx context.Context, eniID string, ips []netip.Addr) error {
		if apiFails {
			return errZZAPI
		}
		return nil
	})
	// what the metadata lists at the successive looks (the poll model looks twice)
	looks := 0
	listedA := []bool{zz.Bool("look0.lists.a"), zz.Bool("look1.lists.a")}
	listedB := []bool{zz.Bool("look0.lists.b"), zz.Bool("look1.lists.b")}
	list := func(mac string) ([]netip.Addr, error) {
		i := looks
		if i > 1 {
			i = 1
		}
		looks++
		out := []netip.Addr{keep}
		if listedA[i] {
			out = append(out, a)
		}
		if listedB[i] {
			out = append(out, b)
		}
		return out, nil
	}
	zz.Override("github.com/AliyunContainerService/terway/pkg/aliyun/metadata.GetIPv4ByMac", list)
	zz.Override("github.com/AliyunContainerService/terway/pkg/aliyun/metadata.GetIPv6ByMac", list)
	f := &Aliyun{ctx: context.Background(), openAPI: &client.OpenAPI{}}
	var err error
	if v6 {
		err = f.UnAssignNIPv6("eni-1", []netip.Addr{a, b}, "00:00:00:00:00:01")
	} else {
		err = f.UnAssignNIPv4("eni-1", []netip.Addr{a, b}, "00:00:00:00:00:01")
	}
	if apiFails {
		zz.Assert(err != nil && looks == 0, "a refused unassign is an error")
		return
	}
	if err == nil {
		last := looks - 1
		if last > 1 {
			last = 1
		}
		zz.Assert(looks >= 1 && !listedA[last] && !listedB[last], "success means the metadata no longer lists any address of the batch")
	}
	zz.Assert(zz.Implies(!listedA[0] && !listedB[0], err == nil), "a batch that is gone at the first look is confirmed")
}
