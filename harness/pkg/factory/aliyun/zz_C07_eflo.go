//go:build verif

package aliyun

import (
	"context"
	"net/netip"

	"github.com/aliyun/alibaba-cloud-sdk-go/services/eflo"

	zz "github.com/AliyunContainerService/terway/internal/zzverif"
	"github.com/AliyunContainerService/terway/pkg/aliyun/client"
)

// C07 (everything the cloud created is tracked or handed back), EFLO
// factory: the pool's dispose worker forgets a batch of addresses as soon as
// UnAssignNIPv4 returns without error.  So a successful return means that
// none of the addresses named is still assigned in the cloud - also when
// some of them are already gone (the previous attempt unassigned the first
// ones and then failed: the retry finds them missing), wherever in the batch
// they sit.  An error leaves the pool's list as it is (it retries).
// zz:noreplay the OpenAPI client is replaced through engine-side overrides
func ZZ_C07_eflo_unassign_batch() {
	n := 3
	var ips []netip.Addr
	assigned := map[string]bool{} // the cloud: address -> still assigned to the interface
	for i := 0; i < n; i++ {
		a := netip.AddrFrom4([4]byte{10, 0, 0, byte(10 + i)})
		ips = append(ips, a)
		assigned[a.String()] = !zz.Bool("already.gone." + a.String())
	}
	listFails := zz.Fork("list.fails.at", n+1)         // n: never
	unassignFails := zz.Fork("unassign.fails.at", n+1) // n: never
	lists, unassigns := 0, 0
	zz.Override("(*github.com/AliyunContainerService/terway/pkg/aliyun/client.OpenAPI).ListLeniPrivateIPAddresses", func(a *client.OpenAPI, ctx context.Context, eniID, ipName, ipAddress string) (*eflo.Content, error) {
		lists++
		if lists-1 == listFails {
			return nil, errZZAPI
		}
		c := &eflo.Content{}
		if assigned[ipAddress] {
			c.Data = []eflo.DataItem{{IpName: "ip-" + ipAddress, PrivateIpAddress: ipAddress, ElasticNetworkInterfaceId: "leni-1"}}
		}
		return c, nil
	})
	zz.Override("(*github.com/AliyunContainerService/terway/pkg/aliyun/client.OpenAPI).UnassignLeniPrivateIPAddress", func(a *client.OpenAPI, ctx context.Context, eniID, ipName string) error {
		unassigns++
		if unassigns-1 == unassignFails {
			return errZZAPI
		}
		zz.Assert(eniID == "leni-1" && len(ipName) > 3 && assigned[ipName[3:]], "only an address that is assigned to the interface is unassigned, by its own name")
		assigned[ipName[3:]] = false
		return nil
	})
	p := &Eflo{ctx: context.Background(), api: &client.OpenAPI{}, enableIPv4: true}
	err := p.UnAssignNIPv4("leni-1", ips, "00:00:00:00:00:01")
	if err == nil {
		for _, a := range ips {
			zz.Assert(!assigned[a.String()], "after a successful return no address of the batch is still assigned in the cloud (the pool forgets the whole batch)")
		}
		zz.Reach("eflo-unassign-ok")
	}
}
