//go:build verif

package aliyun

import (
	"context"
	"k8s.io/apimachinery/pkg/util/wait"
	"net/netip"

	"github.com/aliyun/alibaba-cloud-sdk-go/services/eflo"

	zz "github.com/AliyunContainerService/terway/internal/zzverif"
	"github.com/AliyunContainerService/terway/pkg/aliyun/client"
)

// C07 (everything the cloud created is tracked or handed back), EFLO
// factory: the pool's dispose worker forgets a batch of addresses as soon as
// UnAssignNIPv4 returns without error.  So a successful return means that
// none of the addresses named is still assigned in the cloud - also when
// some of them are already gone (the previous attempt unassigned the first
// ones and then failed: the retry finds them missing), wherever in the batch
// they sit.  An error leaves the pool's list as it is (it retries).
// zz:noreplay the OpenAPI client is replaced through engine-side overrides
func ZZ_C07_eflo_unassign_batch() {
	n := 3
	var ips []netip.Addr
	assigned := map[string]bool{} // the cloud: address -> still assigned to the interface
	for i := 0; i < n; i++ {
		a := netip.AddrFrom4([4]byte{10, 0, 0, byte(10 + i)})
		ips = append(ips, a)
		assigned[a.String()] = !zz.Bool("already.gone." + a.String())
	}
	listFails := zz.Fork("list.fails.at", n+1)         // n: never
	unassignFails := zz.Fork("unassign.fails.at", n+1) // n: never
	lists, unassigns := 0, 0
	zz.Override("(*github.com/AliyunContainerService/terway/pkg/aliyun/client.OpenAPI).ListLeniPrivateIPAddresses", func(a *client.OpenAPI, ctx context.Context, eniID, ipName, ipAddress string) (*eflo.Content, error) {
		lists++
		if lists-1 == listFails {
			return nil, errZZAPI
		}
		c := &eflo.Content{}
		if assigned[ipAddress] {
			c.Data = []eflo.DataItem{{IpName: "ip-" + ipAddress, PrivateIpAddress: ipAddress, ElasticNetworkInterfaceId: "leni-1"}}
		}
		return c, nil
	})
	zz.Override("(*github.com/AliyunContainerService/terway/pkg/aliyun/client.OpenAPI).UnassignLeniPrivateIPAddress", func(a *client.OpenAPI, ctx context.Context, eniID, ipName string) error {
		unassigns++
		if unassigns-1 == unassignFails {
			return errZZAPI
		}
		zz.Assert(eniID == "leni-1" && len(ipName) > 3 && assigned[ipName[3:]], "only an address that is assigned to the interface is unassigned, by its own name")
		assigned[ipName[3:]] = false
		return nil
	})
	p := &Eflo{ctx: context.Background(), api: &client.OpenAPI{}, enableIPv4: true}
	err := p.UnAssignNIPv4("leni-1", ips, "00:00:00:00:00:01")
	if err == nil {
		for _, a := range ips {
			zz.Assert(!assigned[a.String()], "after a successful return no address of the batch is still assigned in the cloud (the pool forgets the whole batch)")
		}
		zz.Reach("eflo-unassign-ok")
	}
}

// C07, EFLO factory, assign: the address the cloud assigned is either
// reported to the pool or handed back.  AssignLeniPrivateIPAddress returns
// the name of the new address; its value is read back by listing that name.
// Fault at any call: the assign fails -> nothing happened, nothing reported;
// the read-back keeps failing -> the address is unassigned again (by its
// name, on this interface) and the error is reported; the read-back works ->
// exactly that address is reported, without an error.
// Assumed of the cloud (not derivable offline): a successful read-back of a
// just assigned name lists its entry.
// zz:noreplay the OpenAPI client and the retry helper are replaced through engine-side overrides
func ZZ_C07_eflo_assign_reported_or_rolled_back() {
	assignFails := zz.Bool("assign.fails")
	listOKAt := zz.Fork("readback.succeeds.at.attempt", 4) // 3: never
	assigned, unassigned := false, false
	lists := 0
	zz.Override("(*github.com/AliyunContainerService/terway/pkg/aliyun/client.OpenAPI).AssignLeniPrivateIPAddress", func(a *client.OpenAPI, ctx context.Context, eniID, prefer string) (string, error) {
		if assignFails {
			return "", errZZAPI
		}
		assigned = true
		return "ip-new", nil
	})
	zz.Override("(*github.com/AliyunContainerService/terway/pkg/aliyun/client.OpenAPI).ListLeniPrivateIPAddresses", func(a *client.OpenAPI, ctx context.Context, eniID, ipName, ipAddress string) (*eflo.Content, error) {
		lists++
		if lists-1 != listOKAt {
			return nil, errZZAPI
		}
		zz.Assert(ipName == "ip-new", "the read-back asks for the name the cloud returned")
		return &eflo.Content{Data: []eflo.DataItem{{IpName: "ip-new", PrivateIpAddress: "10.0.0.42", ElasticNetworkInterfaceId: "leni-1"}}}, nil
	})
	zz.Override("(*github.com/AliyunContainerService/terway/pkg/aliyun/client.OpenAPI).UnassignLeniPrivateIPAddress", func(a *client.OpenAPI, ctx context.Context, eniID, ipName string) error {
		zz.Assert(eniID == "leni-1" && ipName == "ip-new", "the roll-back names the new address on this interface")
		unassigned = true
		return nil
	})
	zz.Override("k8s.io/client-go/util/retry.OnError", func(b wait.Backoff, retriable func(error) bool, fn func() error) error {
		var last error
		for i := 0; i < b.Steps; i++ {
			last = fn()
			if last == nil || !retriable(last) {
				return last
			}
		}
		return last
	})
	p := &Eflo{ctx: context.Background(), api: &client.OpenAPI{}, enableIPv4: true}
	got, err := p.AssignNIPv4("leni-1", 1, "00:00:00:00:00:01")
	if assignFails {
		zz.Assert(err != nil && len(got) == 0 && !unassigned && lists == 0, "a refused assign reports an error and nothing else happens")
		return
	}
	if err == nil {
		zz.Assert(len(got) == 1 && got[0] == netip.MustParseAddr("10.0.0.42") && !unassigned, "success reports exactly the address the cloud assigned, and keeps it")
	} else {
		zz.Assert(listOKAt == 3, "an error is reported only when the read-back failed at every attempt")
		zz.Assert(assigned && unassigned, "an address whose value could not be read back is handed back to the cloud")
	}
	zz.Assert(zz.Implies(listOKAt < 3, err == nil), "a read-back that succeeds within the retries makes the call succeed")
}
