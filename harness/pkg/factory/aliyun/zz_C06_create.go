//go:build verif

package aliyun

// C06 (never more interfaces than the node's quota): a slot whose creation
// failed after the cloud made the interface must learn about that interface -
// the pool then marks the slot deleting and stops asking; told "nothing was
// created" it asks again while the first interface is still attached.  Every
// late failure of the creation, the dual-stack steps included, reports the
// interface.  Same exploration as ZZ_C07_factory_create_reports_eni.
// zz:noreplay the OpenAPI client, the vSwitch pool and the metadata service are replaced through engine-side overrides
func ZZ_C06_failed_create_reports_interface() { ZZ_C07_factory_create_reports_eni() }
