//go:build verif

package eni

import (
	"context"
	"sync"

	zz "github.com/AliyunContainerService/terway/internal/zzverif"
	"github.com/AliyunContainerService/terway/types/daemon"
)

// C05 (on start the stored records are re-applied): the way from the
// database to the pools.  The manager hands the records it was started with
// to every interface back end, and the trunk wrapper hands them on to the
// address pool of the trunk interface - each address pool is rebuilt from
// exactly the stored records (ZZ_C05_load decides what it does with them), a
// pool behind a wrapper included.
// zz:noreplay Local.Run is replaced through an engine-side override (its parts have harnesses of their own)
func ZZ_C05_restart_records_reach_every_pool() {
	got := map[*Local][]daemon.PodResources{}
	runs := 0
	zz.Override("(*github.com/AliyunContainerService/terway/pkg/eni.Local).Run", func(l *Local, ctx context.Context, podResources []daemon.PodResources, wg *sync.WaitGroup) error {
		runs++
		got[l] = podResources
		return nil
	})
	recs := []daemon.PodResources{
		{PodInfo: &daemon.PodInfo{Namespace: "ns", Name: "p0"}, Resources: []daemon.ResourceItem{{Type: daemon.ResourceTypeENIIP, ENIID: "eni-trunk", IPv4: "10.0.0.2"}}},
		{PodInfo: &daemon.PodInfo{Namespace: "ns", Name: "p1"}, Resources: []daemon.ResourceItem{{Type: daemon.ResourceTypeENIIP, ENIID: "eni-2", IPv4: "10.0.1.2"}}},
	}
	trunkLocal := &Local{eni: &daemon.ENI{ID: "eni-trunk", Trunk: true}}
	plain := &Local{eni: &daemon.ENI{ID: "eni-2"}}
	var nis []NetworkInterface
	if zz.Bool("trunk.first") {
		nis = []NetworkInterface{&Trunk{trunkENI: trunkLocal.eni, local: trunkLocal}, plain}
	} else {
		nis = []NetworkInterface{plain, &Trunk{trunkENI: trunkLocal.eni, local: trunkLocal}}
	}
	for _, ni := range nis {
		err := ni.Run(context.Background(), recs, &sync.WaitGroup{})
		zz.Assert(err == nil, "the back end starts")
	}
	zz.Assert(runs == 2, "every address pool is started once")
	for _, l := range []*Local{trunkLocal, plain} {
		r := got[l]
		zz.Assert(len(r) == 2 && r[0].PodInfo.Name == "p0" && r[1].PodInfo.Name == "p1" && len(r[0].Resources) == 1 && r[0].Resources[0].IPv4 == "10.0.0.2", "the pool is rebuilt from exactly the stored records, also behind the trunk wrapper")
	}
}
