//go:build verif

package eni

import (
	"net/netip"
	"strconv"

	zz "github.com/AliyunContainerService/terway/internal/zzverif"
	podENITypes "github.com/AliyunContainerService/terway/pkg/apis/network.alibabacloud.com/v1beta1"
	terwayIP "github.com/AliyunContainerService/terway/pkg/ip"
	"github.com/AliyunContainerService/terway/types"
	"github.com/AliyunContainerService/terway/types/daemon"
)

// C12(b): configuration produced for a PodENI (multi-interface) allocation:
// one entry per allocation; for each family present the reported subnet is
// non-empty and the gateway is that subnet's reserved gateway (non-empty),
// otherwise no configuration at all is produced; on a trunk node the VLAN id
// comes from the matching interface info.
func ZZ_C12_remote_to_rpc() {
	n := zz.Fork("allocations", 2) + 1
	v4cidrs := []string{"", "10.0.0.0/24", "10.0.0.0/31", "junk"}
	v6cidrs := []string{"", "fd00::/64"}
	res := &RemoteIPResource{}
	trunk := zz.Bool("trunk")
	if trunk {
		res.trunkENI = daemon.ENI{ID: "eni-trunk", MAC: "00:00:00:00:00:aa"}
	}
	res.podENI.Status.ENIInfos = map[string]podENITypes.ENIInfo{}
	type al struct {
		has4, has6 bool
		c4, c6     string
		info       bool
	}
	als := make([]al, n)
	for i := 0; i < n; i++ {
		is := strconv.Itoa(i)
		a := al{has4: zz.Bool("a" + is + ".v4"), has6: zz.Bool("a" + is + ".v6"), c4: v4cidrs[zz.Fork("a"+is+".cidr4", len(v4cidrs))], c6: v6cidrs[zz.Fork("a"+is+".cidr6", len(v6cidrs))], info: zz.Bool("a" + is + ".info")}
		als[i] = a
		alloc := podENITypes.Allocation{ENI: podENITypes.ENI{ID: "eni-" + is, MAC: "00:00:00:00:00:0" + is}, Interface: "eth" + is, DefaultRoute: i == 0, IPv4CIDR: a.c4, IPv6CIDR: a.c6}
		if a.has4 {
			alloc.IPv4 = "10.0.0." + strconv.Itoa(5+i)
		}
		if a.has6 {
			alloc.IPv6 = "fd00::" + strconv.Itoa(5+i)
		}
		res.podENI.Spec.Allocations = append(res.podENI.Spec.Allocations, alloc)
		if a.info {
			res.podENI.Status.ENIInfos["eni-"+is] = podENITypes.ENIInfo{ID: "eni-" + is, Vid: 100 + i}
		}
	}
	out := res.ToRPC()
	complete := true
	for _, a := range als {
		if a.has4 && (a.c4 == "" || terwayIP.DeriveGatewayIP(a.c4) == "") {
			complete = false
		}
		if a.has6 && (a.c6 == "" || terwayIP.DeriveGatewayIP(a.c6) == "") {
			complete = false
		}
		if trunk && !a.info {
			complete = false
		}
	}
	if out == nil {
		zz.Reach("refused")
		zz.Assert(!complete, "a complete PodENI allocation always yields a configuration")
		return
	}
	zz.Assert(len(out) == n, "one configuration entry per allocated interface")
	nDefault := 0
	for i, c := range out {
		a := als[i]
		zz.Assert((c.BasicInfo.PodIP.IPv4 != "") == a.has4 && (c.BasicInfo.PodIP.IPv6 != "") == a.has6, "the entry carries exactly the families of the allocation")
		if a.has4 {
			zz.Assert(c.BasicInfo.PodCIDR.IPv4 == a.c4 && a.c4 != "" && c.BasicInfo.GatewayIP.IPv4 != "" && c.BasicInfo.GatewayIP.IPv4 == terwayIP.DeriveGatewayIP(a.c4), "the IPv4 gateway is the reserved gateway of the reported subnet")
			zz.Assert(c.BasicInfo.GatewayIP.IPv4 != c.BasicInfo.PodIP.IPv4, "the gateway differs from the pod address")
		}
		if a.has6 {
			zz.Assert(c.BasicInfo.PodCIDR.IPv6 == a.c6 && a.c6 != "" && c.BasicInfo.GatewayIP.IPv6 != "" && c.BasicInfo.GatewayIP.IPv6 == terwayIP.DeriveGatewayIP(a.c6), "the IPv6 gateway is the reserved gateway of the reported subnet")
		}
		zz.Assert(c.IfName == "eth"+strconv.Itoa(i) && c.DefaultRoute == (i == 0), "interface name and default-route flag are those of the allocation")
		if c.DefaultRoute {
			nDefault++
		}
		if trunk {
			zz.Assert(c.ENIInfo.Trunk && c.ENIInfo.MAC == "00:00:00:00:00:aa" && c.ENIInfo.Vid == uint32(100+i), "on a trunk node the entry names the trunk interface and the allocation's VLAN id")
		} else {
			zz.Assert(!c.ENIInfo.Trunk && c.ENIInfo.Vid == 0 && c.ENIInfo.MAC == "00:00:00:00:00:0"+strconv.Itoa(i), "without trunking the entry names the allocation's own interface")
		}
	}
	zz.Assert(nDefault == 1, "exactly one entry carries the default route")
	zz.Reach("produced")
}

// C12(b): configuration for an address from the node-local pool.
func ZZ_C12_local_to_rpc() {
	r := &LocalIPResource{ENI: daemon.ENI{ID: "eni-1", MAC: "00:00:00:00:00:01", ERdma: zz.Bool("erdma")}}
	has4, has6 := zz.Bool("v4"), zz.Bool("v6")
	if has4 {
		r.IP.IPv4 = netip.MustParseAddr("10.0.0.5")
		r.ENI.GatewayIP.IPv4 = []byte{10, 0, 0, 253}
	}
	if has6 {
		r.IP.IPv6 = netip.MustParseAddr("fd00::5")
	}
	out := r.ToRPC()
	zz.Assert(len(out) == 1 && out[0].DefaultRoute && out[0].IfName == "", "a pool address yields one configuration entry that carries the default route on the primary interface")
	zz.Assert((out[0].BasicInfo.PodIP.IPv4 == "10.0.0.5") == has4 && (out[0].BasicInfo.PodIP.IPv4 != "") == has4, "IPv4 is reported exactly when allocated")
	zz.Assert((out[0].BasicInfo.PodIP.IPv6 == "fd00::5") == has6 && (out[0].BasicInfo.PodIP.IPv6 != "") == has6, "IPv6 is reported exactly when allocated")
	zz.Assert(out[0].ENIInfo.MAC == "00:00:00:00:00:01" && !out[0].ENIInfo.Trunk && out[0].ENIInfo.ERDMA == r.ENI.ERdma, "the entry names the interface that owns the address")
	st := r.ToStore()
	zz.Assert(len(st) == 1 && st[0].ENIID == "eni-1" && (st[0].IPv4 == "10.0.0.5") == has4 && (st[0].IPv6 == "fd00::5") == has6, "the stored record names the same interface and addresses")
	_ = types.IPSet2{}
}
