//go:build verif

package eni

import (
	"context"
	"errors"
	"net/netip"
	"strconv"
	"sync"
	"time"

	zz "github.com/AliyunContainerService/terway/internal/zzverif"
	"github.com/AliyunContainerService/terway/types"
	"github.com/AliyunContainerService/terway/types/daemon"
)

// ---------- shared infrastructure for the per-ENI pool (C01, C06, C07) ----------

// zzCtx is a context whose Done channel the harness controls.
type zzCtx struct {
	context.Context
	done chan struct{}
}

func (c *zzCtx) Done() <-chan struct{} { return c.done }
func (c *zzCtx) Err() error {
	select {
	case <-c.done:
		return context.Canceled
	default:
		return nil
	}
}
func (c *zzCtx) Value(key any) any           { return nil }
func (c *zzCtx) Deadline() (time.Time, bool) { return time.Time{}, false }

func zzNewCtx(cancelled bool) *zzCtx {
	c := &zzCtx{done: make(chan struct{})}
	if cancelled {
		close(c.done)
	}
	return c
}

func zzNewRequest() *LocalIPRequest {
	c := zzNewCtx(false)
	return &LocalIPRequest{workerCtx: c, cancel: func() {
		select {
		case <-c.done:
		default:
			close(c.done)
		}
	}}
}

type zzCall struct {
	kind  string
	n4    int
	n6    int
	ips   []netip.Addr
	eniID string
}

// zzFactory: the cloud.  Every call returns a nondeterministic outcome
// (success / error before effect / error after effect with partial result)
// and is logged with its arguments.
type zzFactory struct {
	calls   []zzCall
	onCall  func(c zzCall)
	next    int
	faults  bool
	partial bool // some assign call returned addresses together with an error
	loadOK  bool
	onLoad  func() // called at the instant the metadata snapshot is taken
	load4   []netip.Addr
	load6   []netip.Addr
	cloud4  map[netip.Addr]bool // addresses the cloud holds for the ENI (ghost)
	cloud6  map[netip.Addr]bool
	eniLive bool
}

var errZZCloud = errors.New("cloud call failed")

func zzAddr4(i int) netip.Addr { return netip.AddrFrom4([4]byte{10, 0, 0, byte(i)}) }
func zzAddr6(i int) netip.Addr {
	return netip.AddrFrom16([16]byte{0xfd, 0, 0, 0, 0, 0, 0, 0, 0, 0, 0, 0, 0, 0, 0, byte(i)})
}

func (f *zzFactory) fresh(n int, v6 bool) []netip.Addr {
	var out []netip.Addr
	for i := 0; i < n; i++ {
		f.next++
		if v6 {
			a := zzAddr6(100 + f.next)
			f.cloud6[a] = true
			out = append(out, a)
		} else {
			a := zzAddr4(100 + f.next)
			f.cloud4[a] = true
			out = append(out, a)
		}
	}
	return out
}

func (f *zzFactory) log(c zzCall) {
	f.calls = append(f.calls, c)
	if f.onCall != nil {
		f.onCall(c)
	}
}

func zzTestENI() *daemon.ENI {
	return &daemon.ENI{ID: "eni-1", MAC: "00:00:00:00:00:01", PrimaryIP: types.IPSet{IPv4: []byte{10, 0, 0, 1}}}
}

func (f *zzFactory) CreateNetworkInterface(ipv4, ipv6 int, eniType string) (*daemon.ENI, []netip.Addr, []netip.Addr, error) {
	f.log(zzCall{kind: "create", n4: ipv4, n6: ipv6})
	out := 0
	if f.faults {
		out = zz.Fork("create.outcome", 3)
	}
	switch out {
	case 1: // error before effect
		return nil, nil, nil, errZZCloud
	case 2: // created, but a later step failed: the ENI is returned together with the error
		f.eniLive = true
		return zzTestENI(), nil, nil, errZZCloud
	}
	f.eniLive = true
	return zzTestENI(), f.fresh(ipv4, false), f.fresh(ipv6, true), nil
}

func (f *zzFactory) assign(n int, v6 bool, name string) ([]netip.Addr, error) {
	out := 0
	if f.faults {
		out = zz.Fork(name+".outcome", 3)
	}
	switch out {
	case 1:
		return nil, errZZCloud
	case 2: // the cloud assigned the addresses but a later step (metadata wait) failed: addresses AND error
		f.partial = true
		return f.fresh(n, v6), errZZCloud
	}
	return f.fresh(n, v6), nil
}

func (f *zzFactory) AssignNIPv4(eniID string, count int, mac string) ([]netip.Addr, error) {
	f.log(zzCall{kind: "assign4", n4: count, eniID: eniID})
	return f.assign(count, false, "assign4")
}
func (f *zzFactory) AssignNIPv6(eniID string, count int, mac string) ([]netip.Addr, error) {
	f.log(zzCall{kind: "assign6", n6: count, eniID: eniID})
	return f.assign(count, true, "assign6")
}
func (f *zzFactory) unassign(ips []netip.Addr, v6 bool, name string) error {
	out := 0
	if f.faults {
		out = zz.Fork(name+".outcome", 3)
	}
	if out == 1 {
		return errZZCloud
	}
	for _, a := range ips {
		if v6 {
			delete(f.cloud6, a)
		} else {
			delete(f.cloud4, a)
		}
	}
	if out == 2 { // effect happened, reply lost
		return errZZCloud
	}
	return nil
}
func (f *zzFactory) UnAssignNIPv4(eniID string, ips []netip.Addr, mac string) error {
	f.log(zzCall{kind: "unassign4", ips: append([]netip.Addr(nil), ips...), eniID: eniID})
	return f.unassign(ips, false, "unassign4")
}
func (f *zzFactory) UnAssignNIPv6(eniID string, ips []netip.Addr, mac string) error {
	f.log(zzCall{kind: "unassign6", ips: append([]netip.Addr(nil), ips...), eniID: eniID})
	return f.unassign(ips, true, "unassign6")
}
func (f *zzFactory) DeleteNetworkInterface(eniID string) error {
	f.log(zzCall{kind: "delete", eniID: eniID})
	out := 0
	if f.faults {
		out = zz.Fork("delete.outcome", 2)
	}
	if out == 1 {
		return errZZCloud
	}
	f.eniLive = false
	return nil
}
func (f *zzFactory) LoadNetworkInterface(mac string) ([]netip.Addr, []netip.Addr, error) {
	if f.onLoad != nil {
		f.onLoad()
	}
	if !f.loadOK {
		return nil, nil, errZZCloud
	}
	return f.load4, f.load6, nil
}
func (f *zzFactory) GetAttachedNetworkInterface(preferTrunkID string) ([]*daemon.ENI, error) {
	return nil, errZZCloud
}

var zzPods = []string{"ns/p0", "ns/p1", "ns/p2"}

type zzSlot struct {
	ip      *IP
	v6      bool
	owner   string
	status  ipStatus
	primary bool
}

// zzPool builds a Local with an attached ENI in use, n4 IPv4 and n6 IPv6
// addresses whose status, owner and primary flag are arbitrary, subject to the
// representation invariant zzInv.
func zzPool(n4, n6 int, f *zzFactory) (*Local, []*zzSlot) {
	l := &Local{
		batchSize:  zz.IntRange("batchSize", 1, 3),
		cap:        zz.IntRange("cap", 0, 4),
		eni:        zzTestENI(),
		eniType:    zz.OneOf("eniType", "secondary", "trunk", "erdma"),
		enableIPv4: n4 > 0,
		enableIPv6: n6 > 0,
		ipv4:       make(Set),
		ipv6:       make(Set),
		cond:       sync.NewCond(&sync.Mutex{}),
		status:     statusInUse,
		factory:    f,
	}
	var slots []*zzSlot
	for i := 0; i < n4+n6; i++ {
		v6 := i >= n4
		n := "ip" + strconv.Itoa(i)
		addr := zzAddr4(2 + i)
		if v6 {
			addr = zzAddr6(2 + i)
		}
		ip := &IP{ip: addr,
			primary: zz.Bool(n + ".primary"),
			podID:   zz.OneOf(n+".podID", "", zzPods[0], zzPods[1], zzPods[2]),
			status:  ipStatus(zz.IntRange(n+".status", int(ipStatusValid), int(ipStatusDeleting)))}
		if v6 {
			l.ipv6[addr] = ip
			f.cloud6[addr] = true
		} else {
			l.ipv4[addr] = ip
			f.cloud4[addr] = true
		}
		slots = append(slots, &zzSlot{ip: ip, v6: v6, owner: ip.podID, status: ip.status, primary: ip.primary})
	}
	return l, slots
}

func zzNewFactory(faults bool) *zzFactory {
	return &zzFactory{faults: faults, cloud4: map[netip.Addr]bool{}, cloud6: map[netip.Addr]bool{}, eniLive: true}
}

// zzInv: representation invariant of the per-ENI pool.
//   - an address scheduled for deletion has no owner
//   - the primary address is never scheduled for deletion
//   - within a family no two addresses have the same (non-empty) owner
//   - at most one IPv4 address is primary; IPv6 addresses are never primary
func zzInv(slots []*zzSlot) bool {
	var cs []bool
	nprim := 0
	for i, a := range slots {
		cs = append(cs, zz.Implies(a.ip.status == ipStatusDeleting, a.ip.podID == ""))
		cs = append(cs, zz.Implies(a.ip.primary, a.ip.status != ipStatusDeleting))
		cs = append(cs, zz.Implies(a.v6, !a.ip.primary))
		nprim += zz.IteInt(a.ip.primary, 1, 0)
		for j, b := range slots {
			if i < j && a.v6 == b.v6 {
				cs = append(cs, zz.Implies(a.ip.podID == b.ip.podID, a.ip.podID == ""))
			}
		}
	}
	cs = append(cs, nprim <= 1)
	return zz.And(cs...)
}

// zzHavoc: what other goroutines may have done to the pool while this
// thread, acting for pod `me`, did not hold the lock (rely condition):
//   - an address owned by `me` keeps its owner; its status may go valid -> invalid (cloud sync)
//     but it is never scheduled for deletion (dispose skips addresses in use)
//   - any other address may change owner (never to `me`) and status arbitrarily, within zzInv
func zzHavoc(slots []*zzSlot, me string, round string) {
	for i, s := range slots {
		n := "havoc" + round + ".ip" + strconv.Itoa(i)
		oldOwner, oldStatus := s.ip.podID, s.ip.status
		s.ip.podID = zz.OneOf(n+".podID", "", zzPods[0], zzPods[1], zzPods[2])
		s.ip.status = ipStatus(zz.IntRange(n+".status", int(ipStatusValid), int(ipStatusDeleting)))
		mine := zz.And(oldOwner == me, me != "")
		zz.Assume(zz.Implies(mine, zz.And(s.ip.podID == me, zz.Or(s.ip.status == oldStatus, zz.And(oldStatus == ipStatusValid, s.ip.status == ipStatusInvalid)))))
		zz.Assume(zz.Implies(!mine, zz.Or(s.ip.podID != me, me == "")))
		// an address that was invalid never becomes valid again
		zz.Assume(zz.Implies(oldStatus == ipStatusInvalid, s.ip.status != ipStatusValid))
	}
	zz.Assume(zzInv(slots))
}

func zzOwned(slots []*zzSlot, pod string, v6 bool) int {
	n := 0
	for _, s := range slots {
		if s.v6 == v6 {
			n += zz.IteInt(s.ip.podID == pod, 1, 0)
		}
	}
	return n
}

// ---------- C01 ----------

// C01: ADD served from the pool (cache hit).  Two atomic sections: Allocate
// marks the owner under the lock; a spawned goroutine later commits and
// replies.  Between them other goroutines run (havoc under the rely).
// zz:noreplay the schedule (goroutine hand-over points, other goroutines' steps) is chosen by the engine; a native run cannot be forced onto it
func ZZ_C01_allocate_cached() {
	n4 := 2
	n6 := zz.Fork("n6", 2) * 2 // IPv4-only or dual stack
	f := zzNewFactory(false)
	l, slots := zzPool(n4, n6, f)
	zz.Assume(zzInv(slots))
	me := zzPods[0]
	hadV4, hadV6 := zzOwned(slots, me, false) > 0, zzOwned(slots, me, true) > 0
	var mineBefore4, mineBefore6 netip.Addr
	for _, s := range slots {
		if s.ip.podID == me {
			if s.v6 {
				mineBefore6 = s.ip.ip
			} else {
				mineBefore4 = s.ip.ip
			}
		}
	}
	req := zzNewRequest()
	req.NetworkInterfaceID = zz.OneOf("req.eni", "", "eni-1", "eni-other")
	ctx := zzNewCtx(false)
	cancelLater := zz.Bool("ctx.cancelled.before.commit")

	ch, traces := l.Allocate(ctx, &daemon.CNI{PodID: me}, req)
	zz.Assert(zz.LockState(l.cond.L) == 0, "the pool lock is released when Allocate returns")
	zz.Assert(zzInv(slots), "Allocate preserves the pool invariant")
	for _, s := range slots {
		zz.Assert(zz.Or(s.ip.podID == s.owner, zz.And(s.owner == "", s.ip.podID == me)), "Allocate changes no owner except to grant an unowned address to the requesting pod")
	}
	if req.NetworkInterfaceID == "eni-other" {
		zz.Assert(ch == nil && len(traces) == 1 && (traces[0].Condition == NetworkInterfaceMismatch || traces[0].Condition == ResourceTypeMismatch), "a request pinned to another interface is refused")
		for _, s := range slots {
			zz.Assert(s.ip.podID == s.owner, "a refused request changes nothing")
		}
		return
	}
	if ch == nil {
		zz.Reach("refused")
		for _, s := range slots {
			zz.Assert(s.ip.podID == s.owner, "a refused request changes nothing")
		}
		return
	}
	if zz.Spawned() != 1 || len(l.allocatingV4) > 0 || len(l.allocatingV6) > 0 {
		zz.Reach("queued") // not a cache hit: covered by ZZ_C01_alloc_worker
		return
	}
	zz.Reach("cache-hit")
	zz.Assert(zzOwned(slots, me, false) == 1 && (n6 == 0 || zzOwned(slots, me, true) == 1), "on a cache hit the pod owns exactly one address per enabled family when Allocate returns")

	// other goroutines run
	zzHavoc(slots, me, "1")
	if cancelLater {
		close(ctx.done)
	}
	zz.RunSpawned(0) // the commit goroutine
	zz.Assert(zz.LockState(l.cond.L) == 0, "the pool lock is released when the commit goroutine ends")
	zz.Assert(zzInv(slots), "commit preserves the pool invariant")

	select {
	case resp, ok := <-ch:
		if !ok {
			zz.Reach("cancelled")
			zz.Assert(cancelLater, "the reply channel is closed without an answer only when the caller is gone")
			zz.Assert(zzOwned(slots, me, false) == 0 && zzOwned(slots, me, true) == 0, "a grant that was never delivered is rolled back")
			return
		}
		zz.Reach("replied")
		zz.Assert(resp != nil && resp.Err == nil && len(resp.NetworkConfigs) == 1, "the reply carries one allocation")
		res := resp.NetworkConfigs[0].(*LocalIPResource)
		zz.Assert(res.ENI.ID == "eni-1", "the allocation names this interface")
		got4 := l.ipv4[res.IP.IPv4]
		zz.Assert(got4 != nil && got4.podID == me, "the IPv4 address handed out is owned by the requesting pod at the moment of the reply")
		zz.Assert(got4 == nil || got4.status != ipStatusDeleting, "an address scheduled for unassignment is never handed out")
		zz.Assert(zzOwned(slots, me, false) == 1, "the pod holds exactly one IPv4 address of this interface")
		zz.Assert(zz.Implies(hadV4, res.IP.IPv4 == mineBefore4), "a repeated ADD receives the address the pod already holds")
		if n6 > 0 {
			got6 := l.ipv6[res.IP.IPv6]
			zz.Assert(got6 != nil && got6.podID == me && got6.status != ipStatusDeleting, "the IPv6 address handed out is owned by the requesting pod and not scheduled for unassignment")
			zz.Assert(zzOwned(slots, me, true) == 1, "the pod holds exactly one IPv6 address of this interface")
			zz.Assert(zz.Implies(hadV6, res.IP.IPv6 == mineBefore6), "a repeated ADD receives the IPv6 address the pod already holds")
		} else {
			zz.Assert(!res.IP.IPv6.IsValid(), "no IPv6 address on an IPv4-only pool")
		}
	default:
		zz.Unreachable("the commit goroutine either replies or closes the channel")
	}
}

// C01: DEL only clears the owner if it matches.
func ZZ_C01_release() {
	f := zzNewFactory(false)
	l, slots := zzPool(2, 1, f)
	zz.Assume(zzInv(slots))
	pod := zz.OneOf("del.pod", zzPods[0], zzPods[1], "")
	k := zz.Fork("del.slot", 4) // which address the DEL names (3 = foreign address)
	res := &LocalIPResource{ENI: daemon.ENI{ID: zz.OneOf("del.eni", "eni-1", "eni-other")}}
	switch k {
	case 0, 1:
		res.IP.IPv4 = slots[k].ip.ip
	case 2:
		res.IP.IPv6 = slots[2].ip.ip
	default:
		res.IP.IPv4 = zzAddr4(200)
	}
	ok, err := l.Release(context.Background(), &daemon.CNI{PodID: pod}, res)
	zz.Assert(err == nil, "release never fails")
	zz.Assert(ok == (res.ENI.ID == "eni-1"), "release is handled by the interface the allocation names")
	zz.Assert(zz.LockState(l.cond.L) == 0, "the pool lock is released when Release returns")
	for i, s := range slots {
		named := i == k && res.ENI.ID == "eni-1"
		zz.Assert(zz.Implies(!named, s.ip.podID == s.owner), "release touches no address other than the one named")
		zz.Assert(zz.Implies(zz.And(named, s.owner != pod), s.ip.podID == s.owner), "a release by a pod that does not own the address leaves the owner")
		zz.Assert(zz.Implies(zz.And(named, s.owner == pod), s.ip.podID == ""), "a release by the owner frees the address")
		zz.Assert(s.ip.status == s.status, "release does not change address status")
	}
}

// C01: lookup offers only the pod's own address or a valid unowned one.
func ZZ_C01_peek_available() {
	f := zzNewFactory(false)
	l, slots := zzPool(3, 0, f)
	zz.Assume(zzInv(slots))
	pod := zz.OneOf("pod", zzPods[0], zzPods[1], "")
	got := l.ipv4.PeekAvailable(pod)
	anyMine, anyFree := false, false
	for _, s := range slots {
		anyMine = zz.Or(anyMine, zz.And(pod != "", s.owner == pod))
		anyFree = zz.Or(anyFree, zz.And(s.owner == "", s.status == ipStatusValid))
	}
	zz.Assert((got != nil) == zz.Or(anyMine, anyFree), "an address is offered iff the pod holds one or a valid unowned one exists")
	if got != nil {
		zz.Assert(zz.Or(zz.And(pod != "", got.podID == pod), zz.And(got.podID == "", got.status == ipStatusValid)), "only the pod's own address or a valid unowned address is offered (never an invalid or deleting one of another pod)")
		zz.Assert(zz.Implies(anyMine, got.podID == pod), "the address the pod already holds is preferred")
	}
}

// C01: cloud sync marks exactly the valid addresses the cloud no longer
// reports as invalid, never un-invalidates, never changes an owner.
func ZZ_C01_sync() {
	f := zzNewFactory(false)
	l, slots := zzPool(3, 0, f)
	zz.Assume(zzInv(slots))
	var remote []netip.Addr
	present := make([]bool, len(slots))
	for i, s := range slots {
		present[i] = zz.Bool("remote.has" + strconv.Itoa(i))
		if present[i] {
			remote = append(remote, s.ip.ip)
		}
	}
	if zz.Bool("remote.extra") {
		remote = append(remote, zzAddr4(250))
	}
	// per-entry updates: the iteration orders inside the sync are fixed here and
	// explored exhaustively on a 2-address pool by ZZ_C01_sync_orders
	zz.FixedMapOrder(true)
	syncIPLocked(l.ipv4, remote)
	for i, s := range slots {
		zz.Assert(s.ip.podID == s.owner, "sync never changes an owner")
		want := s.status
		if s.status == ipStatusValid && !present[i] {
			want = ipStatusInvalid
		}
		zz.Assert(s.ip.status == want, "sync marks exactly the valid addresses missing from the cloud as invalid")
	}
	zz.Assert(len(l.ipv4) == len(slots), "sync neither adds nor removes pool entries")
	// after the sync an absent address is never offered to a pod that does not already hold it
	other := zz.OneOf("other", zzPods[0], zzPods[1])
	zz.FixedMapOrder(false)
	got := l.ipv4.PeekAvailable(other)
	for i, s := range slots {
		zz.Assert(zz.Implies(zz.And(got == s.ip, !present[i]), s.owner == other), "an address seen as removed by the cloud sync is not offered to another pod")
	}
}

// the same obligations on a 2-address pool under every map iteration order
func ZZ_C01_sync_orders() {
	f := zzNewFactory(false)
	l, slots := zzPool(2, 0, f)
	zz.Assume(zzInv(slots))
	var remote []netip.Addr
	present := make([]bool, len(slots))
	for i, s := range slots {
		present[i] = zz.Bool("remote.has" + strconv.Itoa(i))
		if present[i] {
			remote = append(remote, s.ip.ip)
		}
	}
	syncIPLocked(l.ipv4, remote)
	for i, s := range slots {
		want := s.status
		if s.status == ipStatusValid && !present[i] {
			want = ipStatusInvalid
		}
		zz.Assert(zz.And(s.ip.podID == s.owner, s.ip.status == want), "sync marks exactly the valid addresses missing from the cloud as invalid and changes no owner (any iteration order)")
	}
}

// C01: ADD that has to wait for the factory (allocWorker).  The worker parks
// on the condition variable; every time it wakes up other goroutines have run
// (havoc under the rely); it must only ever commit addresses that are, at the
// moment of the commit, its own or valid and unowned.
// zz:noreplay the schedule (wake-ups of the condition variable, other goroutines' steps) is chosen by the engine
func ZZ_C01_alloc_worker() {
	n4 := 2
	n6 := zz.Fork("n6", 2) // IPv4-only or dual stack with one IPv6 address
	f := zzNewFactory(false)
	l, slots := zzPool(n4, n6, f)
	zz.Assume(zzInv(slots))
	me := zzPods[0]
	req := zzNewRequest()
	l.allocatingV4 = append(l.allocatingV4, req)
	if n6 > 0 {
		l.allocatingV6 = append(l.allocatingV6, req)
	}
	ctx := zzNewCtx(false)
	ch := make(chan *AllocResp)
	waits := 0
	maxWaits := 1
	if zz.Tier() > 0 {
		maxWaits = 2
	}
	// guarantee of every atomic section of this thread: the owner of an
	// address changes only from "" to the requesting pod (grant) or from the
	// requesting pod to "" (roll-back of an undelivered grant)
	snap := make([]string, len(slots))
	takeSnap := func() {
		for i, s := range slots {
			snap[i] = s.ip.podID
		}
	}
	guarantee := func() bool {
		ok := true
		for i, s := range slots {
			ok = zz.And(ok, zz.Or(s.ip.podID == snap[i], zz.And(snap[i] == "", s.ip.podID == me), zz.And(snap[i] == me, s.ip.podID == "")))
		}
		return ok
	}
	takeSnap()
	zz.OnUnlock(l.cond.L, func() {
		zz.Assert(zzInv(slots), "the pool invariant holds whenever the worker releases the lock")
		zz.Assert(guarantee(), "while it holds the lock the worker never takes an address away from another pod")
	})
	first := true
	// every re-acquisition of the lock after a Wait: other goroutines ran
	zz.OnLock(l.cond.L, func() {
		if first {
			first = false
			return
		}
		waits++
		if waits > maxWaits {
			zz.Assume(false) // bound on the number of wake-ups explored
		}
		zzHavoc(slots, me, strconv.Itoa(waits))
		takeSnap()
		if zz.Bool("ctx.cancelled.at.wakeup" + strconv.Itoa(waits)) {
			select {
			case <-ctx.done:
			default:
				close(ctx.done)
			}
		}
	})
	l.allocWorker(ctx, &daemon.CNI{PodID: me}, req, ch)
	zz.OnLock(l.cond.L, nil)
	zz.OnUnlock(l.cond.L, nil)
	zz.Assert(zz.LockState(l.cond.L) == 0, "the pool lock is released when the worker ends")
	zz.Assert(zzInv(slots), "the worker preserves the pool invariant")
	pending := false
	for _, r := range l.allocatingV4 {
		pending = pending || r == req
	}
	for _, r := range l.allocatingV6 {
		pending = pending || r == req
	}
	zz.Assert(!pending, "the finished request no longer counts as pending demand")
	select {
	case resp, ok := <-ch:
		if !ok {
			zz.Reach("worker-cancelled")
			return
		}
		zz.Reach("worker-replied")
		res := resp.NetworkConfigs[0].(*LocalIPResource)
		got4 := l.ipv4[res.IP.IPv4]
		zz.Assert(got4 != nil && got4.podID == me && got4.status != ipStatusDeleting, "the IPv4 address handed out is owned by the requesting pod and not scheduled for unassignment")
		zz.Assert(zzOwned(slots, me, false) == 1, "the pod holds exactly one IPv4 address of this interface")
		if n6 > 0 {
			got6 := l.ipv6[res.IP.IPv6]
			zz.Assert(got6 != nil && got6.podID == me && got6.status != ipStatusDeleting, "the IPv6 address handed out is owned by the requesting pod and not scheduled for unassignment")
		}
	default:
		zz.Unreachable("the worker either replies or closes the channel")
	}
}

// C01 (an address is handed to at most one pod): an interface may only be
// given up - its address sets reset, its addresses free for re-issue by the
// cloud - when no pod holds any of its addresses, IPv4 or IPv6.  Arbitrary
// pool with both families.
func ZZ_C01_interface_kept_while_held() {
	f := zzNewFactory(false)
	l, slots := zzPool(2, 2, f)
	zz.Assume(zzInv(slots))
	l.eniType = zz.OneOf("eni.type", "secondary", "trunk", "erdma", "Secondary")
	l.eni.Trunk = zz.Bool("eni.trunk")
	anyHeld := false
	for _, s := range slots {
		anyHeld = zz.Or(anyHeld, s.ip.podID != "")
	}
	ok := l.canDispose()
	zz.Assert(zz.Implies(ok, !anyHeld), "an interface with an address held by a pod - in either family - is never given up")
	zz.Assert(zz.Implies(ok, zz.And(!l.eni.Trunk, l.eniType != "trunk", l.eniType != "erdma")), "trunk and RDMA interfaces are never given up")
}

// C01 (an address is handed to at most one pod, and only while the cloud
// assigns it to the node): when the dispose worker has deleted an interface
// the slot forgets all of its addresses, IPv4 and IPv6, before it is reused.
// Same exploration as ZZ_C06_factory_dispose_args.
// zz:noreplay the schedule is chosen by the engine
func ZZ_C01_deleted_interface_leaves_no_address() { zzDisposeIteration() }
