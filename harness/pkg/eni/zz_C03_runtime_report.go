//go:build verif

package eni

import (
	"context"
	"errors"

	"github.com/go-logr/logr"
	metav1 "k8s.io/apimachinery/pkg/apis/meta/v1"
	"sigs.k8s.io/controller-runtime/pkg/client"
	"sigs.k8s.io/controller-runtime/pkg/controller/controllerutil"

	zz "github.com/AliyunContainerService/terway/internal/zzverif"
	networkv1beta1 "github.com/AliyunContainerService/terway/pkg/apis/network.alibabacloud.com/v1beta1"
	"github.com/AliyunContainerService/terway/pkg/utils"
	"github.com/AliyunContainerService/terway/types/daemon"
)

var errZZSave = errors.New("api server error")

type zzRuntimeCRClient struct {
	client.Client
	rt      *networkv1beta1.NodeRuntime
	node    *networkv1beta1.Node
	getErr  bool
	saveErr bool
	saved   *networkv1beta1.NodeRuntime
	nWrites int
}

func (c *zzRuntimeCRClient) Get(ctx context.Context, key client.ObjectKey, obj client.Object, opts ...client.GetOption) error {
	switch o := obj.(type) {
	case *networkv1beta1.NodeRuntime:
		if c.getErr {
			return errZZSave
		}
		c.rt.DeepCopyInto(o)
		return nil
	case *networkv1beta1.Node:
		c.node.DeepCopyInto(o)
		return nil
	}
	return errZZSave
}
func (c *zzRuntimeCRClient) Status() client.SubResourceWriter { return &zzRuntimeCRStatus{c: c} }

type zzRuntimeCRStatus struct {
	client.SubResourceWriter
	c *zzRuntimeCRClient
}

func (s *zzRuntimeCRStatus) Patch(ctx context.Context, obj client.Object, patch client.Patch, opts ...client.SubResourcePatchOption) error {
	s.c.nWrites++
	if s.c.saveErr {
		return errZZSave
	}
	s.c.saved = obj.(*networkv1beta1.NodeRuntime).DeepCopy()
	return nil
}

func zzInstallCreateOrPatch() {
	// engine-side summary of CreateOrPatch (its diffing goes through reflection): mutate, then write the status
	zz.Override("sigs.k8s.io/controller-runtime/pkg/controller/controllerutil.CreateOrPatch", func(ctx context.Context, c client.Client, obj client.Object, f controllerutil.MutateFn) (controllerutil.OperationResult, error) {
		if err := f(); err != nil {
			return controllerutil.OperationResultNone, err
		}
		if err := c.Status().Patch(ctx, obj, nil); err != nil {
			return controllerutil.OperationResultNone, err
		}
		return controllerutil.OperationResultUpdated, nil
	})
}

// C03(c), daemon side of the teardown report: the daemon writes a "deleted"
// status for a pod UID into the node runtime record only after it processed a
// DEL for exactly that UID; a failed write keeps the report pending (it is
// retried), a successful one clears it; records of other pods are not touched
// and no existing status entry is removed.
// zz:noreplay controllerutil.CreateOrPatch is summarised through an engine-side override
func ZZ_C03_daemon_reports_deleted() {
	zzInstallCreateOrPatch()
	uids := []string{"uid-a", "uid-b"}
	rt := &networkv1beta1.NodeRuntime{ObjectMeta: metav1.ObjectMeta{Name: "n1"}}
	hadRecord := make([]bool, len(uids))
	hadDeleted := make([]bool, len(uids))
	old := metav1.Unix(-1000, 0) // earlier than every instant the symbolic clock can show
	for i, u := range uids {
		hadRecord[i] = zz.Bool(u + ".has.record")
		if !hadRecord[i] {
			continue
		}
		if rt.Status.Pods == nil {
			rt.Status.Pods = map[string]*networkv1beta1.RuntimePodStatus{}
		}
		st := &networkv1beta1.RuntimePodStatus{PodID: "ns/" + u}
		if zz.Bool(u + ".has.status") {
			st.Status = map[networkv1beta1.CNIStatus]*networkv1beta1.CNIStatusInfo{networkv1beta1.CNIStatusInitial: {LastUpdateTime: old}}
			hadDeleted[i] = zz.Bool(u + ".already.deleted")
			if hadDeleted[i] {
				st.Status[networkv1beta1.CNIStatusDeleted] = &networkv1beta1.CNIStatusInfo{LastUpdateTime: old}
			}
		}
		rt.Status.Pods[u] = st
	}
	if zz.Bool("runtime.record.deleting") {
		rt.DeletionTimestamp = &old
	}
	cl := &zzRuntimeCRClient{rt: rt, getErr: zz.Bool("get.fails"), saveErr: zz.Bool("save.fails")}
	r := &CRDV2{client: cl, nodeName: "n1", deletedPods: map[string]*networkv1beta1.RuntimePodStatus{}}
	// the DELs the daemon processed since the last report; a DEL may be followed, before the report is
	// flushed, by an answered ADD for the same pod instance (the runtime re-created the sandbox): that
	// cancels the pending report - the pod's last CNI operation is an ADD
	cl.node = &networkv1beta1.Node{}
	cl.node.Spec.ENISpec = &networkv1beta1.ENISpec{}
	cl.node.Status.NetworkInterfaces = map[string]*networkv1beta1.NetworkInterface{"eni-1": {ID: "eni-1", Status: "InUse", IPv4CIDR: "10.0.0.0/24", IPv4: map[string]*networkv1beta1.IP{}}}
	del := make([]bool, len(uids))
	for i, u := range uids {
		del[i] = zz.Bool(u + ".del.processed")
		if del[i] {
			_, err := r.Release(context.Background(), &daemon.CNI{PodID: "ns/" + u, PodUID: u}, &LocalIPResource{})
			zz.Assert(err == nil, "a DEL is always accepted by the centralised backend")
			if zz.Bool(u + ".readded.before.flush") {
				ip := "10.0.0." + string(rune('5'+i))
				cl.node.Status.NetworkInterfaces["eni-1"].IPv4[ip] = &networkv1beta1.IP{IP: ip, Status: networkv1beta1.IPStatusValid, PodID: "ns/" + u, PodUID: u}
				n := zz.Spawned()
				ch, _ := r.Allocate(context.Background(), &daemon.CNI{PodNamespace: "ns", PodName: u, PodID: "ns/" + u, PodUID: u}, &LocalIPRequest{})
				zz.RunSpawned(n)
				resp := <-ch
				zz.Assert(resp != nil && resp.Err == nil, "the re-created sandbox gets its address")
				del[i] = false
			}
		}
	}
	err := r.syncNodeRuntime(context.Background())
	nDel := 0
	for i := range uids {
		if del[i] {
			nDel++
		}
	}
	if nDel == 0 {
		zz.Assert(err == nil && cl.nWrites == 0, "without a processed DEL nothing is written")
		return
	}
	if cl.getErr || rt.DeletionTimestamp != nil || cl.saveErr {
		zz.Assert(cl.saved == nil, "nothing is reported when the record cannot be read or written or is being deleted")
		zz.Assert(len(r.deletedPods) == nDel, "an unreported DEL stays pending and is retried")
		zz.Assert(zz.Implies(cl.getErr || (cl.saveErr && rt.DeletionTimestamp == nil), err != nil), "a failed read or write is reported as an error")
		return
	}
	zz.Assert(err == nil && cl.saved != nil && len(r.deletedPods) == 0, "after a successful report nothing is pending")
	for i, u := range uids {
		after := cl.saved.Status.Pods[u]
		if del[i] {
			zz.Assert(after != nil && after.Status[networkv1beta1.CNIStatusDeleted] != nil && after.PodID == "ns/"+u, "a processed DEL is reported as deleted for that pod UID")
			s, _, ok := utils.RuntimeFinalStatus(after.Status)
			zz.Assert(ok && s == networkv1beta1.CNIStatusDeleted, "the deleted report is the latest status of the pod")
		} else {
			zz.Assert((after != nil) == hadRecord[i], "no record is created or dropped for a pod without a processed DEL")
			if after != nil {
				zz.Assert((after.Status[networkv1beta1.CNIStatusDeleted] != nil) == hadDeleted[i], "a pod is reported deleted only after its DEL was processed")
			}
		}
		if after != nil && hadRecord[i] && rt.Status.Pods[u].Status != nil {
			zz.Assert(after.Status[networkv1beta1.CNIStatusInitial] != nil, "existing status entries are kept")
		}
	}
	zz.Reach("reported")
}

// C03(c): the 5-minute reconciliation of the runtime record against the IPAM
// record.  A pod's runtime record is dropped only when IPAM no longer knows
// the UID *and* its final status is deleted; a UID that IPAM holds but the
// runtime record lacks is added back as "initial" - never as deleted; records
// of UIDs that IPAM still holds are kept whatever their status.
// zz:noreplay controllerutil.CreateOrPatch is summarised through an engine-side override
func ZZ_C03_daemon_sync_deleted_pods() {
	uids := []string{"uid-a", "uid-b"}
	rt := &networkv1beta1.NodeRuntime{ObjectMeta: metav1.ObjectMeta{Name: "n1"}}
	rt.Status.Pods = map[string]*networkv1beta1.RuntimePodStatus{}
	inUse := map[string]networkv1beta1.RuntimePodStatus{}
	t0, t1 := metav1.Unix(1700000000, 0), metav1.Unix(1700000100, 0)
	type pre struct{ record, deletedFinal, held bool }
	ps := make([]pre, len(uids))
	for i, u := range uids {
		p := pre{record: zz.Bool(u + ".has.record"), held: zz.Bool(u + ".held.by.ipam")}
		if p.record {
			st := &networkv1beta1.RuntimePodStatus{PodID: "ns/" + u, Status: map[networkv1beta1.CNIStatus]*networkv1beta1.CNIStatusInfo{}}
			switch zz.Fork(u+".status", 4) {
			case 1:
				st.Status[networkv1beta1.CNIStatusInitial] = &networkv1beta1.CNIStatusInfo{LastUpdateTime: t0}
			case 2: // deleted is the final status
				st.Status[networkv1beta1.CNIStatusInitial] = &networkv1beta1.CNIStatusInfo{LastUpdateTime: t0}
				st.Status[networkv1beta1.CNIStatusDeleted] = &networkv1beta1.CNIStatusInfo{LastUpdateTime: t1}
				p.deletedFinal = true
			case 3: // re-created: initial after deleted
				st.Status[networkv1beta1.CNIStatusInitial] = &networkv1beta1.CNIStatusInfo{LastUpdateTime: t1}
				st.Status[networkv1beta1.CNIStatusDeleted] = &networkv1beta1.CNIStatusInfo{LastUpdateTime: t0}
			}
			rt.Status.Pods[u] = st
		}
		if p.held {
			inUse[u] = networkv1beta1.RuntimePodStatus{PodID: "ns/" + u, Status: map[networkv1beta1.CNIStatus]*networkv1beta1.CNIStatusInfo{networkv1beta1.CNIStatusInitial: {LastUpdateTime: t1}}}
		}
		ps[i] = p
	}
	removeDeleted(logr.Discard(), rt, inUse)
	syncBack(logr.Discard(), rt, inUse)
	for i, u := range uids {
		p := ps[i]
		after := rt.Status.Pods[u]
		zz.Assert((after == nil) == (!p.held && (!p.record || p.deletedFinal)), "a runtime record is dropped only when IPAM forgot the pod and its final status is deleted; a pod IPAM holds always has one")
		if after != nil && !p.record {
			s, _, ok := utils.RuntimeFinalStatus(after.Status)
			zz.Assert(ok && s == networkv1beta1.CNIStatusInitial, "a record synced back from IPAM starts as initial, never as deleted")
		}
	}
}
