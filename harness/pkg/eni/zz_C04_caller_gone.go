//go:build verif

package eni

import (
	zz "github.com/AliyunContainerService/terway/internal/zzverif"
	"github.com/AliyunContainerService/terway/types/daemon"
)

// C04 (an ADD that fails hands back every address it took), pool side of the
// hand-over: Local.Allocate tags the address for the pod before anybody has
// received the answer.  When the caller gives up (context cancelled, nobody
// receives from the reply channel any more) the spawned goroutine must take
// the tag back: the answer may only count as delivered when a receiver took
// it.  Both the cache-hit path (commit goroutine) and the queued path
// (allocWorker) are run with an arbitrary valid pool.
// zz:noreplay the goroutine is run by the engine after the receiver was declared gone (zz.NoReceiver); natively the outcome depends on the scheduler
func ZZ_C04_caller_gone() {
	// the pool's families: IPv4 only, dual stack, IPv6 only
	n4, n6 := 2, 0
	switch zz.Fork("stack", 3) {
	case 1:
		n6 = 1
	case 2:
		n4, n6 = 0, 2
	}
	f := zzNewFactory(false)
	l, slots := zzPool(n4, n6, f)
	zz.Assume(zzInv(slots))
	me := zzPods[0]
	before4, before6 := zzOwned(slots, me, false), zzOwned(slots, me, true)
	req := zzNewRequest()
	ctx := zzNewCtx(false)
	ch, _ := l.Allocate(ctx, &daemon.CNI{PodID: me}, req)
	if ch == nil {
		zz.Reach("refused")
		zz.Assert(zzOwned(slots, me, false) == before4 && zzOwned(slots, me, true) == before6, "a refused request tags nothing")
		return
	}
	zz.Assert(zz.Spawned() == 1, "an accepted request is answered by exactly one goroutine")
	cached := len(l.allocatingV4) == 0 && len(l.allocatingV6) == 0
	// the caller gives up before the goroutine gets to run
	close(ctx.done)
	zz.NoReceiver(ch)
	zz.RunSpawned(0)
	zz.Assert(zz.LockState(l.cond.L) == 0, "the pool lock is released when the goroutine ends")
	zz.Assert(zzOwned(slots, me, false) <= before4 && zzOwned(slots, me, true) <= before6, "an answer nobody received leaves no address tagged for the pod")
	zz.Assert(zzInv(slots), "the pool invariant holds after the roll-back")
	if cached {
		zz.Reach("cache-hit path")
	} else {
		zz.Reach("queued path")
		pending := false
		for _, r := range l.allocatingV4 {
			pending = pending || r == req
		}
		for _, r := range l.allocatingV6 {
			pending = pending || r == req
		}
		zz.Assert(!pending, "the abandoned request no longer counts as pending demand")
	}
	select {
	case resp, ok := <-ch:
		zz.Assert(!ok && resp == nil, "the reply channel is closed without an answer")
	default:
		zz.Unreachable("the goroutine closes the reply channel when the caller is gone")
	}
}

// C04 (a repeated ADD for the same pod receives the same address): the pool's
// lookup.  Arbitrary set of three addresses (status, owner symbolic, at most
// one per pod), every map iteration order: a pod that already holds an
// address gets exactly that one back, however many idle addresses exist; a
// pod that holds none gets a valid unowned address or nothing.
// zz:repeat 64
func ZZ_C04_same_pod_same_address() {
	f := zzNewFactory(false)
	_, slots := zzPool(3, 0, f)
	zz.Assume(zzInv(slots))
	set := Set{}
	for _, s := range slots {
		set[s.ip.ip] = s.ip
	}
	pod := zz.OneOf("pod", zzPods[0], zzPods[1], "")
	got := set.PeekAvailable(pod)
	var mine *IP
	anyFree := false
	for _, s := range slots {
		if pod != "" && s.ip.podID == pod {
			mine = s.ip
		}
		anyFree = anyFree || (s.ip.status == ipStatusValid && s.ip.podID == "")
	}
	if mine != nil {
		zz.Reach("holds one")
		zz.Assert(got == mine, "a pod that already holds an address is given exactly that address again")
		return
	}
	zz.Assert((got != nil) == anyFree, "a pod without an address gets one iff a valid unowned address exists")
	if got != nil {
		zz.Assert(got.status == ipStatusValid && got.podID == "", "a fresh grant is a valid address nobody owns")
	}
}
