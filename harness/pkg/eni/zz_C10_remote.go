//go:build verif

package eni

import (
	"context"
	"errors"

	metav1 "k8s.io/apimachinery/pkg/apis/meta/v1"
	"sigs.k8s.io/controller-runtime/pkg/client"

	zz "github.com/AliyunContainerService/terway/internal/zzverif"
	podENITypes "github.com/AliyunContainerService/terway/pkg/apis/network.alibabacloud.com/v1beta1"
	"github.com/AliyunContainerService/terway/types"
	"github.com/AliyunContainerService/terway/types/daemon"
)

type zzPodENIClient struct {
	client.Client
	rec    *podENITypes.PodENI
	getErr bool
}

var errZZGetPodENI = errors.New("get podeni failed")

func (c *zzPodENIClient) Get(ctx context.Context, key client.ObjectKey, obj client.Object, opts ...client.GetOption) error {
	if c.getErr {
		return errZZGetPodENI
	}
	*(obj.(*podENITypes.PodENI)) = *c.rec
	return nil
}

// C10(e): the node daemon accepts a PodENI record for a pod only when the
// record is bound, not under deletion, belongs to this pod instance (UID) and
// - on a trunk node - names this node's trunk interface.
// zz:noreplay the goroutine that answers the request is run by the engine (RunSpawned)
func ZZ_C10_daemon_accepts_record() {
	rec := &podENITypes.PodENI{ObjectMeta: metav1.ObjectMeta{Namespace: "ns", Name: "p0", Annotations: map[string]string{types.PodUID: zz.OneOf("record.uid", "uid-a", "uid-b", "")}}}
	rec.Status.Phase = podENITypes.Phase(zz.OneOf("record.phase", string(podENITypes.ENIPhaseBind), string(podENITypes.ENIPhaseBinding), string(podENITypes.ENIPhaseUnbind), string(podENITypes.ENIPhaseDetaching), string(podENITypes.ENIPhaseDeleting), string(podENITypes.ENIPhaseInitial)))
	rec.Status.TrunkENIID = zz.OneOf("record.trunk", "", "eni-trunk", "eni-other")
	if zz.Bool("record.deleting") {
		ts := metav1.Unix(1700000000, 0)
		rec.DeletionTimestamp = &ts
	}
	if zz.Bool("record.hasAllocation") {
		rec.Spec.Allocations = []podENITypes.Allocation{{ENI: podENITypes.ENI{ID: "eni-1"}, IPv4: "10.0.0.5", IPv4CIDR: "10.0.0.0/24"}}
	}
	cl := &zzPodENIClient{rec: rec, getErr: zz.Bool("get.fails")}
	var trunk *daemon.ENI
	if zz.Bool("node.trunk") {
		trunk = &daemon.ENI{ID: "eni-trunk"}
	}
	r := NewRemote(cl, trunk)
	podUID := zz.OneOf("pod.uid", "uid-a", "")
	ch, _ := r.Allocate(context.Background(), &daemon.CNI{PodNamespace: "ns", PodName: "p0", PodUID: podUID}, &RemoteIPRequest{})
	zz.Assert(ch != nil && zz.Spawned() == 1, "a remote request is taken by the PodENI backend")
	zz.RunSpawned(0)
	select {
	case resp := <-ch:
		if resp.Err == nil {
			zz.Reach("accepted")
			zz.Assert(!cl.getErr, "a record that cannot be read is not accepted")
			zz.Assert(rec.Status.Phase == podENITypes.ENIPhaseBind, "only a bound record is accepted")
			zz.Assert(rec.DeletionTimestamp.IsZero(), "a record under deletion is not accepted")
			zz.Assert(zz.Implies(podUID != "", rec.Annotations[types.PodUID] == podUID), "the record must belong to this pod instance (UID)")
			zz.Assert(zz.Implies(trunk != nil, rec.Status.TrunkENIID == "eni-trunk"), "on a trunk node the record must name this node's trunk interface")
			zz.Assert(len(rec.Spec.Allocations) > 0 && len(resp.NetworkConfigs) == 1, "an accepted record carries its allocations")
		} else {
			zz.Reach("refused")
		}
	default:
		zz.Unreachable("the backend answers every request")
	}
}
