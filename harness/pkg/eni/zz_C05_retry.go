//go:build verif

package eni

import (
	"net/netip"
	"sync"

	zz "github.com/AliyunContainerService/terway/internal/zzverif"
	"github.com/AliyunContainerService/terway/types/daemon"
)

// C05 (an ADD whose record was written but whose answer was lost, then a
// restart, then the retry): the pool is rebuilt from the record and the
// cloud's addresses, and the retried ADD - pinned to the recorded interface
// the way the daemon pins it - is answered with exactly the recorded
// addresses, however many idle addresses the interface has and in whatever
// order the pool is walked.  Afterwards the pod owns one address per family,
// the recorded one: memory still equals the record.
// zz:repeat 64
// zz:noreplay the commit goroutine is scheduled by the engine
func ZZ_C05_retry_after_restart() {
	f := zzNewFactory(false)
	f.loadOK = true
	f.load4 = []netip.Addr{zzAddr4(1), zzAddr4(2), zzAddr4(3), zzAddr4(4)} // .1 is the primary address
	dual := zz.Bool("dual.stack")
	if dual {
		f.load6 = []netip.Addr{zzAddr6(2), zzAddr6(3), zzAddr6(4)}
	}
	l := &Local{cap: 8, eni: zzTestENI(), eniType: "secondary", enableIPv4: true, enableIPv6: dual, batchSize: 2,
		ipv4: make(Set), ipv6: make(Set), cond: sync.NewCond(&sync.Mutex{}), factory: f}
	k := zz.IntRange("recorded.index", 2, 4)
	rec4 := zzAddr4(k)
	item := daemon.ResourceItem{Type: daemon.ResourceTypeENIIP, ENIID: "eni-1", ENIMAC: "00:00:00:00:00:01", IPv4: rec4.String()}
	var rec6 netip.Addr
	if dual {
		rec6 = zzAddr6(zz.IntRange("recorded.index6", 2, 4))
		item.IPv6 = rec6.String()
	}
	prs := []daemon.PodResources{{PodInfo: &daemon.PodInfo{Namespace: "ns", Name: "p0"}, Resources: []daemon.ResourceItem{item}}}
	// another pod's record, so that not every other address is idle
	if zz.Bool("other.record") {
		o := 2 + (k-1)%3 // an address other than the recorded one
		prs = append(prs, daemon.PodResources{PodInfo: &daemon.PodInfo{Namespace: "ns", Name: "p1"}, Resources: []daemon.ResourceItem{{Type: daemon.ResourceTypeENIIP, ENIID: "eni-1", IPv4: zzAddr4(o).String()}}})
	}
	zz.FixedMapOrder(true) // the walk order matters for the lookup below, not for load
	zz.Assert(l.load(prs) == nil, "the records load")
	zz.FixedMapOrder(false)

	ctx := zzNewCtx(false)
	req := &LocalIPRequest{NetworkInterfaceID: "eni-1", IPv4: rec4, IPv6: rec6}
	ch, _ := l.Allocate(ctx, &daemon.CNI{PodID: "ns/p0", PodName: "p0", PodNamespace: "ns"}, req)
	zz.Assert(ch != nil && zz.Spawned() == 1 && len(l.allocatingV4) == 0 && len(l.allocatingV6) == 0, "the retried ADD is served from the restored pool, no cloud call")
	if ch == nil || zz.Spawned() != 1 {
		return
	}
	zz.FixedMapOrder(true)
	zz.RunSpawned(0)
	select {
	case resp, ok := <-ch:
		zz.Assert(ok && resp != nil && resp.Err == nil && len(resp.NetworkConfigs) == 1, "the retried ADD is answered")
		if !ok || resp == nil || len(resp.NetworkConfigs) != 1 {
			return
		}
		res := resp.NetworkConfigs[0].(*LocalIPResource)
		zz.Assert(res.IP.IPv4 == rec4, "the retried ADD is answered with the recorded IPv4 address")
		zz.Assert(zz.Implies(dual, res.IP.IPv6 == rec6), "the retried ADD is answered with the recorded IPv6 address")
	default:
		zz.Unreachable("the commit goroutine answers")
	}
	n4, n6 := 0, 0
	for a, ip := range l.ipv4 {
		if ip.podID == "ns/p0" {
			n4++
			zz.Assert(a == rec4, "the pod owns no IPv4 address but the recorded one")
		}
	}
	for a, ip := range l.ipv6 {
		if ip.podID == "ns/p0" {
			n6++
			zz.Assert(a == rec6, "the pod owns no IPv6 address but the recorded one")
		}
	}
	zz.Assert(n4 == 1 && (!dual || n6 == 1) && (dual || n6 == 0), "memory equals the record: one address per enabled family")
	zz.Assert(len(f.calls) == 0 || f.calls[len(f.calls)-1].kind == "load", "no address is requested from or returned to the cloud")
}
