//go:build verif

package eni

// C08 (never more interfaces than the flavor allows - and the flavor never
// more than the instance can attach): the pool controller plans interfaces
// from the flavor the daemon publishes in the Node CR and never looks at the
// adapter limit itself, so the published slots - ordinary, trunk and RDMA
// together - sum to at most adapters-1 for every limit vector and
// configuration; an over-planned flavor makes the controller create and try
// to attach one interface too many in every round.  Same exploration as
// ZZ_C19_node_cr_flavor, slot obligations only.
// zz:noreplay the cluster eni-config, node capabilities and the unstructured converter are summarised through engine-side overrides
func ZZ_C08_published_flavor_within_adapters() { _, _, _ = zzNodeCRFlavor() }
