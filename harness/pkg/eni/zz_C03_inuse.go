//go:build verif

package eni

import (
	"context"
	"strconv"

	zz "github.com/AliyunContainerService/terway/internal/zzverif"
	networkv1beta1 "github.com/AliyunContainerService/terway/pkg/apis/network.alibabacloud.com/v1beta1"
	"github.com/AliyunContainerService/terway/pkg/utils"
)

// C03(c), input of the 5-minute reconciliation: the set of pod instances the
// per-node record still binds.  Arbitrary record of two interfaces with one
// IPv4 and one IPv6 entry each (owner UID symbolic, may be empty): the set
// holds exactly the UIDs bound through *either* family on *any* interface -
// a pod bound only through IPv6 (IPv6-only node) is as much "in use" as any
// other, otherwise its teardown record would be dropped before the
// controller has read it and the address would stay bound for good.
func ZZ_C03_in_use_uids() {
	node := &networkv1beta1.Node{}
	node.Name = "n1"
	node.Status.NetworkInterfaces = map[string]*networkv1beta1.NetworkInterface{}
	bound := map[string]string{} // uid -> pod id
	for e := 0; e < 2; e++ {
		id := "eni-" + strconv.Itoa(e)
		ni := &networkv1beta1.NetworkInterface{ID: id, IPv4: map[string]*networkv1beta1.IP{}, IPv6: map[string]*networkv1beta1.IP{}}
		for fam := 0; fam < 2; fam++ {
			name := id + [2]string{".v4", ".v6"}[fam]
			uid := []string{"", "uid-a", "uid-b"}[zz.Fork(name+".uid", 3)]
			ip := &networkv1beta1.IP{IP: name, Status: networkv1beta1.IPStatusValid}
			if uid != "" {
				ip.PodUID, ip.PodID = uid, "ns/"+uid[4:]
				bound[uid] = ip.PodID
			}
			if fam == 0 {
				ni.IPv4[name] = ip
			} else {
				ni.IPv6[name] = ip
			}
		}
		node.Status.NetworkInterfaces[id] = ni
	}
	r := &CRDV2{client: &zzNodeCRClient{node: node}, nodeName: "n1", deletedPods: map[string]*networkv1beta1.RuntimePodStatus{}}
	got, err := r.inUsedPodUIDs(context.Background())
	zz.Assert(err == nil, "the record is read")
	zz.Assert(len(got) == len(bound), "the set holds nothing but bound pod instances")
	for uid, pod := range bound {
		st, ok := got[uid]
		zz.Assert(ok, "a pod instance bound through either family on any interface is in the set")
		if ok {
			s, _, fin := utils.RuntimeFinalStatus(st.Status)
			zz.Assert(st.PodID == pod && fin && s == networkv1beta1.CNIStatusInitial, "it is listed under its pod with status initial, never deleted")
		}
	}
}
