//go:build verif

package eni

import (
	"context"
	"strconv"

	"sigs.k8s.io/controller-runtime/pkg/client"

	zz "github.com/AliyunContainerService/terway/internal/zzverif"
	aliyunClient "github.com/AliyunContainerService/terway/pkg/aliyun/client"
	networkv1beta1 "github.com/AliyunContainerService/terway/pkg/apis/network.alibabacloud.com/v1beta1"
	terwayIP "github.com/AliyunContainerService/terway/pkg/ip"
	"github.com/AliyunContainerService/terway/types/daemon"
)

type zzNodeCRClient struct {
	client.Client
	node *networkv1beta1.Node
}

func (c *zzNodeCRClient) Get(ctx context.Context, key client.ObjectKey, obj client.Object, opts ...client.GetOption) error {
	c.node.DeepCopyInto(obj.(*networkv1beta1.Node))
	return nil
}

// C12(b), centralised-IPAM path: the configuration the daemon derives from
// the per-node record for a pod.  Arbitrary record with two interfaces, each
// with one IPv4 and one IPv6 entry (owner, owner UID, status symbolic;
// interface status and subnets symbolic).  Whatever the record holds, an
// answer names only addresses that are valid, on an in-use interface, bound
// to this pod and not to another instance (UID) of it; and when the record
// satisfies the controller's invariant (C02: the pod's addresses sit on one
// interface) the interface, subnet and gateway of the answer are those of the
// interface that holds the addresses, the gateway being the subnet's reserved
// gateway and different from the pod address.
// zz:noreplay the goroutine that answers the request is run by the engine (RunSpawned)
func ZZ_C12_crdv2_multi_ip() {
	me, myUID := "ns/p0", "uid-new"
	node := &networkv1beta1.Node{}
	node.Spec.ENISpec = &networkv1beta1.ENISpec{EnableERDMA: zz.Bool("node.erdma")}
	node.Status.NetworkInterfaces = map[string]*networkv1beta1.NetworkInterface{}
	type rec struct {
		eni  *networkv1beta1.NetworkInterface
		ip   *networkv1beta1.IP
		v6   bool
		elig bool
	}
	var recs []*rec
	// shards 0-8: both interfaces in use, split by the owners of eni0's IPv4 and eni1's IPv6 entry;
	// shards 9-11: one or both interfaces not in use
	sh := zz.Shard(12)
	stPairs := [][2]string{{aliyunClient.ENIStatusInUse, aliyunClient.ENIStatusAttaching}, {aliyunClient.ENIStatusDeleting, aliyunClient.ENIStatusInUse}, {aliyunClient.ENIStatusAttaching, aliyunClient.ENIStatusDeleting}}
	owners := []string{"", me, "ns/other"}
	cidr4 := []string{"10.0.1.0/24", "10.0.2.0/24"}
	cidr6 := []string{"fd00:a::/64", "fd00:b::/64"}
	for e := 0; e < 2; e++ {
		es := strconv.Itoa(e)
		eni := &networkv1beta1.NetworkInterface{
			ID: "eni-" + es, MacAddress: "00:00:00:00:00:0" + es, VSwitchID: "vsw-" + es,
			Status:   aliyunClient.ENIStatusInUse,
			IPv4CIDR: cidr4[e], IPv6CIDR: cidr6[e],
			IPv4: map[string]*networkv1beta1.IP{}, IPv6: map[string]*networkv1beta1.IP{},
		}
		if sh >= 9 {
			eni.Status = stPairs[sh-9][e]
		}
		if zz.Bool("eni" + es + ".rdma") {
			eni.NetworkInterfaceTrafficMode = networkv1beta1.NetworkInterfaceTrafficModeHighPerformance
		}
		for f := 0; f < 2; f++ {
			n := "eni" + es + ".v" + strconv.Itoa(4+2*f)
			ip := &networkv1beta1.IP{
				Status: networkv1beta1.IPStatus(zz.OneOf(n+".status", string(networkv1beta1.IPStatusValid), string(networkv1beta1.IPStatusDeleting))),
				PodID:  zz.OneOf(n+".podID", "", me, "ns/other"),
				PodUID: zz.OneOf(n+".podUID", "", myUID, "uid-old"),
			}
			if sh < 9 && e == 0 && f == 0 {
				zz.Assume(ip.PodID == owners[sh%3])
			}
			if sh < 9 && e == 1 && f == 1 {
				zz.Assume(ip.PodID == owners[sh/3])
			}
			if f == 0 {
				ip.IP = "10.0." + strconv.Itoa(e+1) + ".7"
				eni.IPv4[ip.IP] = ip
			} else {
				ip.IP = "fd00:" + string(rune('a'+e)) + "::5"
				eni.IPv6[ip.IP] = ip
			}
			r := &rec{eni: eni, ip: ip, v6: f == 1}
			r.elig = eni.Status == aliyunClient.ENIStatusInUse && ip.Status == networkv1beta1.IPStatusValid && ip.PodID == me && (ip.PodUID == "" || ip.PodUID == myUID)
			recs = append(recs, r)
		}
		node.Status.NetworkInterfaces[eni.ID] = eni
	}
	r := &CRDV2{client: &zzNodeCRClient{node: node}, nodeName: "n1", deletedPods: map[string]*networkv1beta1.RuntimePodStatus{}}
	ch, _ := r.Allocate(context.Background(), &daemon.CNI{PodNamespace: "ns", PodName: "p0", PodID: me, PodUID: myUID}, &LocalIPRequest{})
	zz.Assert(ch != nil && zz.Spawned() == 1, "a local-IP request is taken by the centralised backend")
	zz.RunSpawned(0)
	var resp *AllocResp
	select {
	case resp = <-ch:
	default:
		zz.Unreachable("the backend answers every request")
	}
	nElig4, nElig6 := 0, 0
	var eniOf4, eniOf6 string
	for _, rc := range recs {
		if rc.elig && !rc.v6 {
			nElig4++
			eniOf4 = rc.eni.ID
		}
		if rc.elig && rc.v6 {
			nElig6++
			eniOf6 = rc.eni.ID
		}
	}
	if resp.Err != nil {
		zz.Reach("refused")
		zz.Assert(nElig4 == 0 && nElig6 == 0, "a pod with a usable address in the record is answered")
		return
	}
	zz.Reach("answered")
	zz.Assert(len(resp.NetworkConfigs) == 1, "one configuration entry")
	res := resp.NetworkConfigs[0].(*LocalIPResource)
	zz.Assert(res.IP.IPv4.IsValid() || res.IP.IPv6.IsValid(), "an answer carries an address")
	var holder4, holder6 *rec
	for _, rc := range recs {
		if !rc.v6 && res.IP.IPv4.IsValid() && rc.ip.IP == res.IP.IPv4.String() {
			holder4 = rc
		}
		if rc.v6 && res.IP.IPv6.IsValid() && rc.ip.IP == res.IP.IPv6.String() {
			holder6 = rc
		}
	}
	if res.IP.IPv4.IsValid() {
		zz.Assert(holder4 != nil && holder4.elig, "the IPv4 address of the answer is a valid record entry on an in-use interface bound to this pod instance")
	}
	if res.IP.IPv6.IsValid() {
		zz.Assert(holder6 != nil && holder6.elig, "the IPv6 address of the answer is a valid record entry on an in-use interface bound to this pod instance (a record of a previous instance with another UID is ignored)")
	}
	zz.Assert((nElig4 > 0) == res.IP.IPv4.IsValid() && (nElig6 > 0) == res.IP.IPv6.IsValid(), "the answer carries a family exactly when the record holds a usable address of it")
	// controller invariant (C02): at most one address per family, both on one interface
	if nElig4 <= 1 && nElig6 <= 1 && (nElig4 == 0 || nElig6 == 0 || eniOf4 == eniOf6) {
		home := eniOf4
		if nElig4 == 0 {
			home = eniOf6
		}
		eni := node.Status.NetworkInterfaces[home]
		zz.Assert(res.ENI.ID == home && res.ENI.MAC == eni.MacAddress && res.ENI.VSwitchID == eni.VSwitchID, "the answer names the interface that holds the pod's addresses")
		if res.IP.IPv4.IsValid() {
			zz.Assert(res.ENI.VSwitchCIDR.IPv4 != nil && res.ENI.VSwitchCIDR.IPv4.String() == eni.IPv4CIDR, "the IPv4 subnet is that of the interface")
			zz.Assert(res.ENI.GatewayIP.IPv4 != nil && res.ENI.GatewayIP.IPv4.String() == terwayIP.DeriveGatewayIP(eni.IPv4CIDR), "the IPv4 gateway is the subnet's reserved gateway")
			zz.Assert(res.ENI.VSwitchCIDR.IPv4 != nil && res.ENI.VSwitchCIDR.IPv4.Contains(res.IP.IPv4.AsSlice()), "the IPv4 address lies in the reported subnet")
			zz.Assert(res.ENI.GatewayIP.IPv4.String() != res.IP.IPv4.String(), "the gateway differs from the pod address")
		}
		if res.IP.IPv6.IsValid() {
			zz.Assert(res.ENI.VSwitchCIDR.IPv6 != nil && res.ENI.VSwitchCIDR.IPv6.String() == eni.IPv6CIDR, "the IPv6 subnet is that of the interface")
			zz.Assert(res.ENI.GatewayIP.IPv6 != nil && res.ENI.GatewayIP.IPv6.String() == terwayIP.DeriveGatewayIP(eni.IPv6CIDR), "the IPv6 gateway is the subnet's reserved gateway")
		}
		zz.Assert(res.ENI.ERdma == (node.Spec.ENISpec.EnableERDMA && eni.NetworkInterfaceTrafficMode == networkv1beta1.NetworkInterfaceTrafficModeHighPerformance), "the RDMA flag follows the interface and the node switch")
		zz.Reach("invariant case")
	}
}
