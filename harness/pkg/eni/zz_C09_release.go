//go:build verif

package eni

// C09 (the collector releases the addresses of exactly the vanished pods):
// the release the collector (and DEL) ends in frees the address for its
// owner whatever state the address is in - also one the cloud sync has
// marked invalid in the meantime; otherwise the record goes and the address
// stays owned by a pod that no longer exists.  Same exploration as
// ZZ_C01_release (address status symbolic).
func ZZ_C09_release_frees_in_every_state() { ZZ_C01_release() }
