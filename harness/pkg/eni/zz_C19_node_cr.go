//go:build verif

package eni

import (
	"context"
	"encoding/json"

	corev1 "k8s.io/api/core/v1"
	metav1 "k8s.io/apimachinery/pkg/apis/meta/v1"
	k8stypes "k8s.io/apimachinery/pkg/types"
	"sigs.k8s.io/controller-runtime/pkg/client"
	"sigs.k8s.io/controller-runtime/pkg/reconcile"

	zz "github.com/AliyunContainerService/terway/internal/zzverif"
	networkv1beta1 "github.com/AliyunContainerService/terway/pkg/apis/network.alibabacloud.com/v1beta1"
	"github.com/AliyunContainerService/terway/types"
	"github.com/AliyunContainerService/terway/types/daemon"
)

type zzNodeClient struct {
	client.Client
	node    *networkv1beta1.Node
	k8sNode *corev1.Node
	updated *networkv1beta1.Node
}

func (c *zzNodeClient) Get(ctx context.Context, key client.ObjectKey, obj client.Object, opts ...client.GetOption) error {
	switch o := obj.(type) {
	case *networkv1beta1.Node:
		*o = *c.node.DeepCopy()
	case *corev1.Node:
		*o = *c.k8sNode
	}
	return nil
}
func (c *zzNodeClient) Update(ctx context.Context, obj client.Object, opts ...client.UpdateOption) error {
	c.updated = obj.(*networkv1beta1.Node)
	return nil
}

// C19 (daemon-side Node CR): the interface flavor and the feature switches
// the daemon publishes for centralised IPAM never exceed what the declared
// instance limits can deliver, for every limit vector and configuration.
// zz:noreplay the cluster eni-config, node capabilities and the unstructured converter are summarised through engine-side overrides
func ZZ_C19_node_cr_flavor() {
	erdmaCapacity, nRdma, perAdapter := zzNodeCRFlavor()
	if erdmaCapacity >= 0 {
		zz.Assert(erdmaCapacity <= nRdma*perAdapter, "the advertised RDMA capacity is at most RDMA interfaces times addresses per interface")
	}
}

// zzNodeCRFlavor runs the daemon-side reconciler and checks the feature gates and the planned
// interface slots; it returns what the RDMA capacity obligation (C19 only) needs
func zzNodeCRFlavor() (erdmaCapacity, nRdmaOut, perAdapter int) {
	cap := networkv1beta1.NodeCap{
		Adapters:           zz.IntRange("cap.adapters", 1, 16), // every instance has its primary interface
		IPv4PerAdapter:     zz.IntRange("cap.ipv4PerAdapter", 0, 64),
		IPv6PerAdapter:     zz.IntRange("cap.ipv6PerAdapter", 0, 64),
		MemberAdapterLimit: zz.IntRange("cap.memberAdapterLimit", 0, 64),
		EriQuantity:        zz.IntRange("cap.eriQuantity", 0, 2), // published as Limits.ERDMARes() <= 2
	}
	node := &networkv1beta1.Node{ObjectMeta: metav1.ObjectMeta{Name: "n1", Labels: map[string]string{}}}
	node.Spec.NodeCap = cap
	node.Spec.NodeMetadata.ZoneID = "z1"
	exclusive := zz.Bool("node.exclusiveENI")
	if exclusive {
		node.Labels[types.ExclusiveENIModeLabel] = string(types.ExclusiveENIOnly)
	}
	cfg := &daemon.Config{
		IPStack:           zz.OneOf("cfg.ipStack", "", "ipv4", "ipv6", "dual"),
		EnableENITrunking: zz.Bool("cfg.trunk"),
		EnableERDMA:       zz.Bool("cfg.erdma"),
		VSwitches:         map[string][]string{"z1": {"vsw-1"}},
		SecurityGroups:    []string{"sg-1"},
		MaxPoolSize:       zz.IntRange("cfg.maxPool", 0, 64),
		MinPoolSize:       zz.IntRange("cfg.minPool", 0, 64),
	}
	osERDMA := zz.OneOf("os.erdma", "", "true")
	zz.Override("github.com/AliyunContainerService/terway/types/daemon.ConfigFromConfigMap", func(ctx context.Context, c client.Client, nodeName string) (*daemon.Config, error) {
		return cfg, nil
	})
	zz.Override("github.com/AliyunContainerService/terway/pkg/utils/nodecap.GetNodeCapabilities", func(name string) string { return osERDMA })
	calls := 0
	zz.Override("(*k8s.io/apimachinery/pkg/runtime.unstructuredConverter).ToUnstructured", func(c any, obj interface{}) (map[string]interface{}, error) {
		calls++
		return map[string]interface{}{"version": calls}, nil // always "changed": the update is always issued
	})
	erdmaCapacity = -1
	zz.Override("(*github.com/AliyunContainerService/terway/pkg/eni.nodeReconcile).runERDMADevicePlugin", func(r *nodeReconcile, count int) { erdmaCapacity = count })
	cl := &zzNodeClient{node: node, k8sNode: &corev1.Node{ObjectMeta: metav1.ObjectMeta{Name: "n1"}}}
	r := &nodeReconcile{client: cl}
	_, err := r.Reconcile(context.Background(), reconcile.Request{NamespacedName: k8stypes.NamespacedName{Name: "n1"}})
	zz.Assert(err == nil && cl.updated != nil, "a supported configuration is published")
	if cl.updated == nil {
		return
	}
	spec := cl.updated.Spec
	zz.Assert(zz.Implies(spec.ENISpec.EnableIPv6, cap.IPv6PerAdapter > 0), "IPv6 is only advertised when the instance type has IPv6 addresses per interface")
	zz.Assert(zz.Implies(zz.And(spec.ENISpec.EnableIPv6, spec.ENISpec.EnableIPv4), cap.IPv6PerAdapter == cap.IPv4PerAdapter), "dual stack needs as many IPv6 as IPv4 addresses per interface")
	zz.Assert(zz.Implies(spec.ENISpec.EnableTrunk, zz.And(cap.MemberAdapterLimit > 0, !exclusive, cfg.EnableENITrunking)), "trunking is only advertised with a positive member-adapter limit and outside exclusive-ENI mode")
	zz.Assert(zz.Implies(spec.ENISpec.EnableERDMA, zz.And(cap.EriQuantity > 0, osERDMA != "", cfg.EnableERDMA)), "RDMA is only advertised when the instance and the OS support it")
	total, nTrunk, nRdma := 0, 0, 0
	for _, f := range spec.Flavor {
		zz.Assert(f.Count >= 0, "no negative interface count is advertised")
		total += f.Count
		if f.NetworkInterfaceType == networkv1beta1.ENITypeTrunk {
			nTrunk += f.Count
		}
		if f.NetworkInterfaceTrafficMode == networkv1beta1.NetworkInterfaceTrafficModeHighPerformance {
			nRdma += f.Count
		}
	}
	zz.Assert(total <= max(cap.Adapters-1, 0), "interface slots sum to at most the attachable secondary interfaces")
	zz.Assert(zz.Implies(cap.Adapters >= 1, total == cap.Adapters-1), "all attachable secondary interfaces are offered")
	zz.Assert(nTrunk <= 1 && nRdma <= 1, "at most one trunk and one RDMA interface")
	zz.Assert(zz.Implies(nTrunk == 1, spec.ENISpec.EnableTrunk) && zz.Implies(nRdma == 1, spec.ENISpec.EnableERDMA), "a trunk / RDMA slot is only planned when the feature is enabled")
	nRdmaOut, perAdapter = nRdma, cap.IPv4PerAdapter
	zz.Reach("published")
	return
}

// C19 across an instance-type change: the Node CR as stored in the API server
// (what the controllers read to advertise capacity and to plan interfaces)
// follows the current limits.  First reconcile with the limits of the old
// type, then the controller rewrites spec.nodeCap for a smaller type and the
// daemon reconciles again with an unchanged configuration: the stored flavor
// must fit the new limits.  The "did anything change" comparison is modelled
// faithfully: the unstructured form of an object is a function of its content.
// zz:noreplay the cluster eni-config, node capabilities and the unstructured converter are summarised through engine-side overrides
func ZZ_C19_node_cr_resize() {
	cfg := &daemon.Config{IPStack: "ipv4", EnableENITrunking: zz.Bool("cfg.trunk"), VSwitches: map[string][]string{"z1": {"vsw-1"}}, SecurityGroups: []string{"sg-1"}, MaxPoolSize: 5, MinPoolSize: 1}
	zz.Override("github.com/AliyunContainerService/terway/types/daemon.ConfigFromConfigMap", func(ctx context.Context, c client.Client, nodeName string) (*daemon.Config, error) {
		return cfg, nil
	})
	zz.Override("github.com/AliyunContainerService/terway/pkg/utils/nodecap.GetNodeCapabilities", func(name string) string { return "" })
	zz.Override("(*k8s.io/apimachinery/pkg/runtime.unstructuredConverter).ToUnstructured", func(c any, obj interface{}) (map[string]interface{}, error) {
		b, err := jsonMarshalForZZ(obj)
		return map[string]interface{}{"content": string(b)}, err
	})
	big := networkv1beta1.NodeCap{Adapters: zz.IntRange("old.adapters", 2, 8), IPv4PerAdapter: 10, MemberAdapterLimit: zz.IntRange("old.memberAdapterLimit", 0, 4)}
	small := networkv1beta1.NodeCap{Adapters: zz.IntRange("new.adapters", 1, 8), IPv4PerAdapter: 10, MemberAdapterLimit: zz.IntRange("new.memberAdapterLimit", 0, 4)}
	node := &networkv1beta1.Node{ObjectMeta: metav1.ObjectMeta{Name: "n1", Labels: map[string]string{}}}
	node.Spec.NodeCap = big
	node.Spec.NodeMetadata.ZoneID = "z1"
	cl := &zzNodeClient{node: node, k8sNode: &corev1.Node{ObjectMeta: metav1.ObjectMeta{Name: "n1"}}}
	r := &nodeReconcile{client: cl}
	_, err := r.Reconcile(context.Background(), reconcile.Request{NamespacedName: k8stypes.NamespacedName{Name: "n1"}})
	zz.Assert(err == nil && cl.updated != nil, "the first reconcile publishes the configuration")
	if cl.updated == nil {
		return
	}
	// the API server now holds what was published; the controller then rewrites the capabilities
	stored := cl.updated.DeepCopy()
	stored.Spec.NodeCap = small
	cl.node, cl.updated = stored, nil
	_, err = r.Reconcile(context.Background(), reconcile.Request{NamespacedName: k8stypes.NamespacedName{Name: "n1"}})
	zz.Assert(err == nil, "the second reconcile succeeds")
	final := stored
	if cl.updated != nil {
		final = cl.updated
		zz.Reach("second reconcile wrote")
	}
	total := 0
	for _, f := range final.Spec.Flavor {
		total += f.Count
	}
	zz.Assert(total <= max(small.Adapters-1, 0), "after the instance type changed the stored interface slots fit the attachable secondary interfaces of the new type")
	zz.Assert(zz.Implies(final.Spec.ENISpec != nil && final.Spec.ENISpec.EnableTrunk, small.MemberAdapterLimit > 0), "trunking is only advertised when the new type supports it")
}

func jsonMarshalForZZ(v any) ([]byte, error) { return json.Marshal(v) }
