//go:build verif

package eni

// C14 (the gateway derived from a subnet is the third-from-last address inside
// it), at the daemon-side call site for PodENI / trunk-member allocations:
// each family's gateway is derived from that family's own subnet.  Same
// exploration as ZZ_C12_remote_to_rpc.
func ZZ_C14_remote_gateway_per_family() { ZZ_C12_remote_to_rpc() }
