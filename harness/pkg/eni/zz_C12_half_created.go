//go:build verif

package eni

// C12 (addresses inside the reported subnet together with that subnet's
// gateway): an interface whose creation failed half-way is described without
// subnet and gateway; the pool must never serve pods from it - it is marked
// for deletion the moment it comes back together with the error, so Allocate
// refuses it.  Same exploration as ZZ_C07_alloc_faults.
// zz:noreplay the schedule is chosen by the engine
func ZZ_C12_half_created_interface_not_served() { ZZ_C07_alloc_faults() }
