//go:build verif

package eni

import (
	"net/netip"
	"strconv"
	"sync"

	zz "github.com/AliyunContainerService/terway/internal/zzverif"
	"github.com/AliyunContainerService/terway/types/daemon"
)

// C05(c): restart.  The pool is rebuilt from the stored records (arbitrary
// contents: current and legacy id format, records of other interfaces,
// foreign addresses) and the addresses the cloud reports for the interface.
// Every acknowledged binding whose address the cloud still reports is owned
// by its pod again, no address has an owner no record names, records of other
// interfaces are ignored.
// zz:repeat 32
func ZZ_C05_load() {
	f := zzNewFactory(false)
	f.loadOK = true
	v4 := []netip.Addr{zzAddr4(1), zzAddr4(2), zzAddr4(3)} // .1 is the primary address
	v6 := []netip.Addr{zzAddr6(2), zzAddr6(3)}
	in4 := make([]bool, len(v4))
	in6 := make([]bool, len(v6))
	for i, a := range v4 {
		in4[i] = i == 0 || zz.Bool("cloud.v4."+strconv.Itoa(i)) // the primary address is always reported
		if in4[i] {
			f.load4 = append(f.load4, a)
		}
	}
	for i, a := range v6 {
		in6[i] = i == 1 || zz.Bool("cloud.v6."+strconv.Itoa(i))
		if in6[i] {
			f.load6 = append(f.load6, a)
		}
	}
	l := &Local{cap: zz.IntRange("cap", 0, 4), eni: zzTestENI(), eniType: "secondary", enableIPv4: true, enableIPv6: true,
		ipv4: make(Set), ipv6: make(Set), cond: sync.NewCond(&sync.Mutex{}), factory: f}

	type rec struct {
		pod    string
		eniID  string
		k4, k6 int // index into v4/v6, -1 none, len = foreign
		legacy bool
	}
	nrec := 2
	sh := zz.Shard(8) // first record: IPv4 choice x record format
	var recs []rec
	var prs []daemon.PodResources
	for i := 0; i < nrec; i++ {
		is := strconv.Itoa(i)
		r := rec{pod: "ns/p" + is, eniID: zz.OneOf("rec"+is+".eni", "eni-1", "eni-2"), k4: zz.Fork("rec"+is+".v4", 4) - 1, k6: zz.Fork("rec"+is+".v6", 3) - 1, legacy: zz.Bool("rec" + is + ".legacy")}
		if i == 0 {
			zz.Assume(r.k4 == sh%4-1 && r.legacy == (sh/4 == 1))
		}
		if i == 1 && zz.Tier() > 0 {
			// thorough: the second record is in the current format and belongs to this interface (any addresses)
			zz.Assume(!r.legacy && r.eniID == "eni-1")
		}
		if i == 1 && zz.Tier() == 0 {
			// quick: the second record is restricted (IPv4 .3 or none, no IPv6, current format)
			zz.Assume((r.k4 == -1 || r.k4 == 1) && r.k6 == -1 && !r.legacy)
		}
		item := daemon.ResourceItem{Type: daemon.ResourceTypeENIIP, ENIID: r.eniID}
		if r.k4 >= 0 {
			if r.k4 < 2 {
				item.IPv4 = v4[1+r.k4].String() // secondary addresses .2 / .3
			} else {
				item.IPv4 = "10.9.9.9"
			}
		}
		if r.k6 >= 0 {
			if r.k6 < 1 {
				item.IPv6 = v6[r.k6].String()
			} else {
				item.IPv6 = "fd99::1"
			}
		}
		if r.legacy {
			// pre-ENIID record format: id = mac.ip, IPv4 only
			mac := "00:00:00:00:00:01"
			if r.eniID != "eni-1" {
				mac = "00:00:00:00:00:02"
			}
			item = daemon.ResourceItem{Type: daemon.ResourceTypeENIIP, ID: mac + "." + item.IPv4}
			if r.k4 < 0 {
				item.ID = mac + ".10.9.9.8"
			}
		}
		recs = append(recs, r)
		prs = append(prs, daemon.PodResources{PodInfo: &daemon.PodInfo{Namespace: "ns", Name: "p" + is}, Resources: []daemon.ResourceItem{item}})
	}
	// database invariant (C01): two records never name the same address
	zz.Assume(!(recs[0].eniID == recs[1].eniID && recs[0].k4 >= 0 && recs[0].k4 == recs[1].k4 && recs[0].k4 < 2))
	zz.Assume(!(recs[0].eniID == recs[1].eniID && recs[0].k6 == 0 && recs[1].k6 == 0 && !recs[0].legacy && !recs[1].legacy))

	err := l.load(prs)
	zz.Assert(err == nil, "well-formed records load without error")
	if err != nil {
		return
	}
	zz.Assert(l.status == statusInUse, "an attached interface is in use after the restart")
	for i, a := range v4 {
		ip, ok := l.ipv4[a]
		zz.Assert(ok == in4[i], "the pool holds exactly the IPv4 addresses the cloud reports")
		if !ok {
			continue
		}
		zz.Assert(ip.primary == (i == 0), "the interface's primary address is recognised")
		want := ""
		for _, r := range recs {
			if r.eniID == "eni-1" && i >= 1 && r.k4 == i-1 {
				want = r.pod
			}
		}
		zz.Assert(ip.podID == want, "after a restart an IPv4 address is owned by exactly the pod whose acknowledged record names it (and by nobody otherwise)")
		zz.Assert(zz.Implies(ip.status == ipStatusDeleting, ip.podID == "" && !ip.primary), "only idle, non-primary addresses are given up when the pool exceeds its cap")
	}
	for i, a := range v6 {
		ip, ok := l.ipv6[a]
		zz.Assert(ok == in6[i], "the pool holds exactly the IPv6 addresses the cloud reports")
		if !ok {
			continue
		}
		want := ""
		for _, r := range recs {
			if r.eniID == "eni-1" && !r.legacy && i == 0 && r.k6 == 0 {
				want = r.pod
			}
		}
		zz.Assert(ip.podID == want, "after a restart an IPv6 address is owned by exactly the pod whose acknowledged record names it (and by nobody otherwise)")
	}
}
