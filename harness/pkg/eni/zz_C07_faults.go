//go:build verif

package eni

import (
	"errors"
	"fmt"
	"net/netip"
	"strconv"
	"sync"

	zz "github.com/AliyunContainerService/terway/internal/zzverif"
	apiErr "github.com/AliyunContainerService/terway/pkg/aliyun/client/errors"
)

func zzTracked(l *Local, f *zzFactory) bool {
	ok := true
	for a := range f.cloud4 {
		_, t := l.ipv4[a]
		ok = zz.And(ok, t)
	}
	for a := range f.cloud6 {
		_, t := l.ipv6[a]
		ok = zz.And(ok, t)
	}
	return ok
}

// C07: whatever the outcome of the cloud calls of one factory-worker
// iteration (success, error before effect, error after effect with the
// addresses returned), everything the cloud created is tracked by the pool
// (valid, or scheduled for unassignment); an interface returned together with
// an error is kept and marked for deletion.
// zz:noreplay the schedule is chosen by the engine
func ZZ_C07_alloc_faults() {
	n4, n6 := 1, zz.Fork("n6", 2)
	f := zzNewFactory(true)
	l, slots := zzPool(n4, n6, f)
	zz.Assume(zzInv(slots))
	hasENI := zz.Bool("has.eni")
	if !hasENI {
		l.eni = nil
		l.status = statusInit
		l.ipv4, l.ipv6 = make(Set), make(Set)
		f.cloud4, f.cloud6 = map[netip.Addr]bool{}, map[netip.Addr]bool{}
		f.eniLive = false
		slots = nil
	}
	l.cap = 4
	p4 := zz.Fork("pending4", 2) + 1
	for i := 0; i < p4; i++ {
		l.allocatingV4 = append(l.allocatingV4, zzNewRequest())
	}
	if n6 > 0 {
		l.allocatingV6 = append(l.allocatingV6, zzNewRequest())
	}
	inhibit0 := l.ipAllocInhibitExpireAt
	ctx := zzNewCtx(false)
	f.onCall = func(c zzCall) {
		select {
		case <-ctx.done:
		default:
			if len(f.calls) >= 2 || c.kind == "create" {
				close(ctx.done)
			}
		}
	}
	// wake-up discipline: the dispose worker sleeps on the pool's condition
	// variable and nothing else signals a slot that is being deleted (sync and
	// Dispose return early on it, Allocate refuses it), so the worker that
	// marks the interface for deletion has to signal before it sleeps or
	// exits - otherwise the interface the cloud created is never handed back
	deleting0 := l.status == statusDeleting
	signalled := false
	zz.Override("(*sync.Cond).Broadcast", func(c *sync.Cond) {
		if l.status == statusDeleting && l.eni != nil {
			signalled = true
		}
	})
	zz.OnYield(func() {
		zz.Reach("c07-alloc-parked")
		zz.Assert(zz.Implies(!deleting0 && l.status == statusDeleting && l.eni != nil, signalled), "marking the interface for deletion wakes the dispose worker before the allocation worker sleeps")
		zz.Assume(false)
	})
	l.factoryAllocWorker(ctx)
	zz.OnYield(nil)
	zz.Assert(zz.Implies(!deleting0 && l.status == statusDeleting && l.eni != nil, signalled), "marking the interface for deletion wakes the dispose worker")
	zz.Assert(zzTracked(l, f), "every address the cloud assigned is tracked by the pool, even when the call returned an error")
	zz.Assert(zz.Implies(f.eniLive, l.eni != nil), "an interface the cloud created is kept by the pool, even when the call returned an error")
	zz.Assert(zz.Implies(zz.And(f.eniLive, !hasENI, len(l.ipv4) == 0 && len(f.calls) > 0 && l.status != statusInUse), l.status == statusDeleting), "an interface returned together with an error is marked for deletion")
	zz.Assert(!l.ipAllocInhibitExpireAt.Before(inhibit0), "the allocation back-off deadline never moves backwards")
	for _, s := range slots {
		zz.Assert(s.ip.podID == s.owner, "the factory worker never changes an owner")
	}
	for _, ip := range l.ipv4 {
		zz.Assert(zz.Implies(ip.status == ipStatusDeleting, ip.podID == ""), "addresses queued for unassignment have no owner")
	}
}

type zzCodeErr struct{ code string }

func (e *zzCodeErr) Error() string      { return e.code }
func (e *zzCodeErr) HttpStatus() int    { return 400 }
func (e *zzCodeErr) ErrorCode() string  { return e.code }
func (e *zzCodeErr) Message() string    { return "" }
func (e *zzCodeErr) OriginError() error { return nil }

// C07: back-off after quota / exhaustion codes is pushed forward, never backward.
func ZZ_C07_inhibit_monotone() {
	l := &Local{}
	l.ipAllocInhibitExpireAt = zz.Time("inhibit.before")
	before := l.ipAllocInhibitExpireAt
	code := zz.OneOf("code", apiErr.ErrEniPerInstanceLimitExceeded, apiErr.InvalidVSwitchIDIPNotEnough, apiErr.QuotaExceededPrivateIPAddress, "Throttling", "")
	var err error
	switch zz.Fork("errkind", 3) {
	case 0:
		err = nil
	case 1:
		err = errors.New("plain error")
	default:
		err = fmt.Errorf("wrapped: %w", &zzCodeErr{code: code})
	}
	l.errorHandleLocked(err)
	zz.Assert(!l.ipAllocInhibitExpireAt.Before(before), "the allocation back-off deadline never moves backwards")
	if err == nil {
		zz.Assert(l.ipAllocInhibitExpireAt.Equal(before), "no error leaves the back-off untouched")
	}
}

// C07: one dispose-worker iteration under every fault outcome (error before
// effect, success, effect with lost reply): an address is forgotten by the
// pool only after the cloud confirmed its removal; on failure it stays queued.
// zz:noreplay the schedule is chosen by the engine
func ZZ_C07_dispose_faults() { zzDisposeIteration() }

// C07 (periodic sync against instance metadata): the snapshot of the
// interface's addresses is taken and applied in one critical section of the
// pool - an address that the allocation worker commits to the pool can
// therefore never be missing from a snapshot that is applied after the
// commit.  Arbitrary pool of three addresses, arbitrary metadata answer
// (or failure): the pool lock is held at the instant of the metadata query and
// is not released between query and application; the application marks
// exactly the valid addresses missing from the answer; a failed query changes
// nothing; an interface that is not in use is not synchronised at all.
func ZZ_C07_sync_atomic() {
	f := zzNewFactory(false)
	l, slots := zzPool(3, 0, f)
	zz.Assume(zzInv(slots))
	l.status = []eniStatus{statusInUse, statusDeleting, statusInit}[zz.Fork("eni.status", 3)]
	present := make([]bool, len(slots))
	for i, s := range slots {
		present[i] = zz.Bool("remote.has" + strconv.Itoa(i))
		if present[i] {
			f.load4 = append(f.load4, s.ip.ip)
		}
	}
	f.loadOK = zz.Bool("metadata.answers")
	lockAtQuery, queries := -1, 0
	f.onLoad = func() {
		queries++
		lockAtQuery = zz.LockState(l.cond.L)
	}
	unlocksAfterQuery := 0
	zz.OnUnlock(l.cond.L, func() {
		if queries > 0 {
			unlocksAfterQuery++
		}
	})
	zz.FixedMapOrder(true)
	l.sync()
	zz.FixedMapOrder(false)
	zz.OnUnlock(l.cond.L, nil)
	zz.Assert(zz.LockState(l.cond.L) == 0, "the pool lock is released when the sync ends")
	if l.status != statusInUse {
		zz.Assert(queries == 0, "an interface that is not in use is not synchronised")
	} else {
		zz.Assert(queries == 1 && lockAtQuery != 0, "the metadata snapshot is taken with the pool lock held")
		zz.Assert(unlocksAfterQuery == 1, "the lock is not released between taking the snapshot and applying it (no commit can fall in between)")
	}
	for i, s := range slots {
		zz.Assert(s.ip.podID == s.owner, "the sync never changes an owner")
		want := s.status
		if l.status == statusInUse && f.loadOK && s.status == ipStatusValid && !present[i] {
			want = ipStatusInvalid
		}
		zz.Assert(s.ip.status == want, "exactly the valid addresses missing from a successful snapshot are marked invalid; a failed query changes nothing")
	}
}
