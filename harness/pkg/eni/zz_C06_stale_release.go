//go:build verif

package eni

import (
	"context"

	zz "github.com/AliyunContainerService/terway/internal/zzverif"
	"github.com/AliyunContainerService/terway/types/daemon"
)

// C06 (shrinking the pool only removes idle addresses), after a stale
// release: a DEL that is replayed for a pod which no longer owns the address
// (the runtime retried it, or the collector replayed a record whose deletion
// had failed) arrives when the address already belongs to another pod.  The
// balancer's shrink that follows must still see the address as held: it is
// not queued for unassignment and its interface is not given up.
// zz:repeat 32
func ZZ_C06_stale_release_then_shrink() {
	f := zzNewFactory(false)
	l, slots := zzPool(2, 1, f)
	zz.Assume(zzInv(slots))
	k := zz.Fork("released.slot", 3)
	stale := zz.OneOf("stale.pod", zzPods[0], zzPods[1])
	zz.Assume(slots[k].owner != "" && slots[k].owner != stale) // the address now belongs to somebody else
	res := &LocalIPResource{ENI: daemon.ENI{ID: "eni-1"}}
	if slots[k].v6 {
		res.IP.IPv6 = slots[k].ip.ip
	} else {
		res.IP.IPv4 = slots[k].ip.ip
	}
	_, err := l.Release(context.Background(), &daemon.CNI{PodID: stale}, res)
	zz.Assert(err == nil, "the stale release is answered")
	l.Dispose(zz.IntRange("shrink.by", 1, 4))
	zz.Assert(slots[k].ip.podID == slots[k].owner, "the address still belongs to the pod that holds it")
	zz.Assert(slots[k].ip.status != ipStatusDeleting, "an address a pod holds is not queued for unassignment, also after a stale release named it")
	zz.Assert(l.status != statusDeleting, "the interface of an address in use is not given up")
	zz.Assert(zz.LockState(l.cond.L) == 0, "the pool lock is released")
}
