//go:build verif

package eni

import (
	"context"
	"net"
	"net/netip"
	"strconv"
	"sync"

	zz "github.com/AliyunContainerService/terway/internal/zzverif"
	"github.com/AliyunContainerService/terway/types/daemon"
)

func zzCount(slots []*zzSlot, v6 bool, pred func(s *zzSlot) bool) int {
	n := 0
	for _, s := range slots {
		if s.v6 == v6 {
			n += zz.IteInt(pred(s), 1, 0)
		}
	}
	return n
}

// C06(d): shrinking the pool only removes idle addresses.
func ZZ_C06_dispose() {
	sh := zz.Shard(12) // IPv6 address present x request pending (none / IPv4 / IPv6) x trunk interface
	n4, n6 := 2, sh%2
	// (three IPv4 addresses exceed the 200k-path budget per shard in either tier)
	f := zzNewFactory(false)
	l, slots := zzPool(n4, n6, f)
	zz.Assume(zzInv(slots))
	switch (sh / 2) % 3 {
	case 1:
		l.allocatingV4 = append(l.allocatingV4, zzNewRequest())
	case 2:
		l.allocatingV6 = append(l.allocatingV6, zzNewRequest())
	}
	l.eni.Trunk = sh/6 == 1
	n := zz.IntRange("n", -1, 4)
	anyOwned := false
	for _, s := range slots {
		anyOwned = zz.Or(anyOwned, s.owner != "")
	}
	pending := len(l.allocatingV4) > 0 || len(l.allocatingV6) > 0
	r := l.Dispose(n)
	zz.Assert(zz.LockState(l.cond.L) == 0, "the pool lock is released when Dispose returns")
	zz.Assert(zzInv(slots), "Dispose preserves the pool invariant")
	gone := l.status == statusDeleting
	zz.Assert(zz.Implies(gone, zz.And(!anyOwned, !pending, l.eniType == "secondary", !l.eni.Trunk)), "a whole interface is given up only if it has no address in use, no pending request and is neither trunk nor RDMA")
	for _, s := range slots {
		zz.Assert(s.ip.podID == s.owner, "Dispose never changes an owner")
		marked := zz.And(s.status != ipStatusDeleting, s.ip.status == ipStatusDeleting)
		zz.Assert(zz.Implies(marked, zz.And(s.owner == "", !s.primary)), "only idle, non-primary addresses are scheduled for unassignment")
		zz.Assert(zz.Implies(s.status == ipStatusDeleting, s.ip.status == ipStatusDeleting), "an address already scheduled for unassignment stays scheduled")
		zz.Assert(zz.Implies(zz.And(s.status == ipStatusInvalid, s.ip.status != ipStatusInvalid), s.ip.status == ipStatusDeleting), "an invalid address is never made valid again")
	}
	if !gone {
		for _, v6 := range []bool{false, true} {
			newly := zzCount(slots, v6, func(s *zzSlot) bool {
				return zz.And(s.status == ipStatusValid, s.ip.status == ipStatusDeleting)
			})
			zz.Assert(newly <= max(n, 0), "at most n valid idle addresses per family are given up")
		}
		zz.Assert(r <= max(n, 0), "the reported count never exceeds the request")
	}
	zz.Assert(zz.Implies(n <= 0, !gone || zz.And(len(l.ipv4) == 0, len(l.ipv6) == 0)), "nothing is given up when no surplus is requested")
}

// C06(a): the factory worker never asks for more addresses than the
// per-interface cap allows, never more than the batch size, and creates an
// interface only when none is attached.
// zz:noreplay the schedule (what other goroutines do while the worker is inside a cloud call) is chosen by the engine
func ZZ_C06_factory_alloc_args() {
	n4, n6 := 1, zz.Fork("n6", 2)
	f := zzNewFactory(true)
	l, slots := zzPool(n4, n6, f)
	zz.Assume(zzInv(slots))
	hasENI := zz.Bool("has.eni")
	if !hasENI {
		l.eni = nil
		l.status = statusInit
		l.ipv4, l.ipv6 = make(Set), make(Set)
		f.cloud4, f.cloud6 = map[netip.Addr]bool{}, map[netip.Addr]bool{}
		f.eniLive = false
		slots = nil
	}
	// pending requests admitted through Allocate: len(set)+pending <= cap
	p4 := zz.Fork("pending4", 3)
	p6 := 0
	if n6 > 0 {
		p6 = zz.Fork("pending6", 3)
	}
	zz.Assume(p4+p6 > 0)
	for i := 0; i < p4; i++ {
		l.allocatingV4 = append(l.allocatingV4, zzNewRequest())
	}
	for i := 0; i < p6; i++ {
		l.allocatingV6 = append(l.allocatingV6, zzNewRequest())
	}
	zz.Assume(len(l.ipv4)+p4 <= l.cap && len(l.ipv6)+p6 <= l.cap)
	ctx := zzNewCtx(false)
	f.onCall = func(c zzCall) {
		zz.Assert(zz.LockState(l.cond.L) == 0, "cloud calls are made without holding the pool lock")
		switch c.kind {
		case "create":
			zz.Assert(!hasENI, "an interface is created only when none is attached to this slot")
			zz.Assert(c.n4 >= 1 && c.n4 <= l.batchSize && c.n6 <= l.batchSize && c.n6 >= 0, "a new interface is requested with at most batch-size addresses per family")
			zz.Assert(c.n4 <= max(l.cap, 1) && c.n6 <= l.cap, "a new interface is requested with at most the per-interface address quota")
		case "assign4":
			zz.Assert(c.n4 >= 1 && c.n4 <= l.batchSize, "an IPv4 assign request is clamped to the batch size")
			if f.partial {
				zz.Assert(len(l.ipv4)+c.n4 <= l.cap, "after an assign call returned addresses together with an error, the next IPv4 request still respects the per-interface quota")
			} else {
				zz.Assert(len(l.ipv4)+c.n4 <= l.cap, "IPv4 addresses on the interface plus the request never exceed the per-interface quota")
			}
		case "assign6":
			zz.Assert(c.n6 >= 1 && c.n6 <= l.batchSize, "an IPv6 assign request is clamped to the batch size")
			if f.partial {
				zz.Assert(len(l.ipv6)+c.n6 <= l.cap, "after an assign call returned addresses together with an error, the next IPv6 request still respects the per-interface quota")
			} else {
				zz.Assert(len(l.ipv6)+c.n6 <= l.cap, "IPv6 addresses on the interface plus the request never exceed the per-interface quota")
			}
		}
		// one iteration: the worker stops at the next loop head
		select {
		case <-ctx.done:
		default:
			if len(f.calls) >= 2 || c.kind == "create" {
				close(ctx.done)
			}
		}
	}
	zz.OnYield(func() {
		zz.Reach("alloc-worker-parked")
		zz.Assume(false) // the worker parks: nothing more to do in this iteration
	})
	l.factoryAllocWorker(ctx)
	zz.OnYield(nil)
	zz.Assert(zz.LockState(l.cond.L) == 0, "the pool lock is released when the worker stops")
	// the quota arithmetic above is over the pool's per-family sets: it is only
	// as good as those sets - whatever the cloud has on the interface (also
	// what an assign call returned together with an error) is counted in the
	// set of its own family
	zz.Assert(zzTracked(l, f), "every address the cloud has on the interface is counted in the set of its own family, so that the quota check sees it")
	zz.Reach("alloc-iteration-done")
}

// C06(b,c): the dispose worker never unassigns an address in use or the
// primary address, and deletes the interface only when it is marked for
// deletion and nothing is in use or pending.
// zz:noreplay the schedule is chosen by the engine
func ZZ_C06_factory_dispose_args() { zzDisposeIteration() }

func zzDisposeIteration() {
	n4, n6 := 2, zz.Fork("n6", 2)
	f := zzNewFactory(true)
	l, slots := zzPool(n4, n6, f)
	zz.Assume(zzInv(slots))
	if zz.Bool("eni.deleting") {
		l.status = statusDeleting
		// invariant: an interface marked for deletion has nothing in use / pending (Dispose's guard)
		for _, s := range slots {
			zz.Assume(s.ip.podID == "")
		}
		zz.Assume(l.eniType == "secondary")
	}
	ctx := zzNewCtx(false)
	f.onCall = func(c zzCall) {
		zz.Assert(zz.LockState(l.cond.L) == 0, "cloud calls are made without holding the pool lock")
		switch c.kind {
		case "unassign4", "unassign6":
			zz.Assert(len(c.ips) >= 1 && len(c.ips) <= l.batchSize, "an unassign request is clamped to the batch size")
			set := l.ipv4
			if c.kind == "unassign6" {
				set = l.ipv6
			}
			for _, a := range c.ips {
				ip := set[a]
				zz.Assert(ip != nil && ip.podID == "" && !ip.primary && ip.status == ipStatusDeleting, "only idle, non-primary addresses scheduled for unassignment are unassigned")
			}
		case "delete":
			zz.Assert(l.status == statusDeleting, "an interface is deleted only after it was marked for deletion")
			for _, s := range slots {
				zz.Assert(s.ip.podID == "", "an interface with an address in use is never deleted")
			}
			zz.Assert(l.eniType != "trunk" && l.eniType != "erdma", "the trunk / RDMA interface is never deleted")
		}
		select {
		case <-ctx.done:
		default:
			if len(f.calls) >= 2 || c.kind == "delete" {
				close(ctx.done)
			}
		}
	}
	zz.OnYield(func() {
		zz.Reach("dispose-worker-parked")
		zz.Assume(false) // nothing (more) to do: the worker parks
	})
	l.factoryDisposeWorker(ctx)
	zz.OnYield(nil)
	zz.Reach("dispose-iteration-done")
	// after a confirmed unassign the address is gone from both pool and cloud; on failure it stays marked
	for _, s := range slots {
		set, cloud := l.ipv4, f.cloud4
		if s.v6 {
			set, cloud = l.ipv6, f.cloud6
		}
		_, tracked := set[s.ip.ip]
		zz.Assert(zz.Implies(zz.And(l.eni != nil, !tracked), !cloud[s.ip.ip]), "an address is forgotten by the pool only after the cloud confirmed its removal")
	}
	if l.eni == nil {
		zz.Reach("interface deleted")
		// the slot of a deleted interface is reused for the next interface: nothing of the old one may stay behind
		zz.Assert(len(l.ipv4) == 0 && len(l.ipv6) == 0, "after its interface was deleted the slot tracks no address of either family (a stale entry would be handed to a pod although the cloud no longer assigns it)")
		zz.Assert(l.status == statusInit, "the slot of a deleted interface is back in its initial state")
	}
	_ = strconv.Itoa
	_ = daemon.ModeENIMultiIP
}

// ---- balancer ----

type zzNI struct {
	name     string
	idle     int
	inuse    int
	prio     int
	disposed []int
	ret      []int
}

func (n *zzNI) Allocate(ctx context.Context, cni *daemon.CNI, request ResourceRequest) (chan *AllocResp, []Trace) {
	return nil, nil
}
func (n *zzNI) Release(ctx context.Context, cni *daemon.CNI, request NetworkResource) (bool, error) {
	return false, nil
}
func (n *zzNI) Priority() int { return n.prio }
func (n *zzNI) Dispose(k int) int {
	n.disposed = append(n.disposed, k)
	r := zz.IntRange(n.name+".disposed", 0, 8)
	zz.Assume(r <= k && r <= n.idle)
	n.ret = append(n.ret, r)
	return r
}
func (n *zzNI) Run(ctx context.Context, podResources []daemon.PodResources, wg *sync.WaitGroup) error {
	return nil
}
func (n *zzNI) Usage() (int, int, error) { return n.idle, n.inuse, nil }

// C06(e): the balancer computes surplus / deficit from usage: it asks
// interfaces to give up at most the surplus over max-idle (never when there is
// none) and requests exactly the deficit to min-idle, only below capacity.
func ZZ_C06_sync_pool() {
	k := zz.Fork("interfaces", 2+zz.Tier()) + 1
	var nis []NetworkInterface
	var raw []*zzNI
	idles, inuse := 0, 0
	for i := 0; i < k; i++ {
		n := &zzNI{name: "ni" + strconv.Itoa(i), idle: zz.IntRange("ni"+strconv.Itoa(i)+".idle", 0, 4), inuse: zz.IntRange("ni"+strconv.Itoa(i)+".inuse", 0, 4), prio: zz.IntRange("ni"+strconv.Itoa(i)+".prio", 0, 3)}
		raw = append(raw, n)
		nis = append(nis, n)
		idles += n.idle
		inuse += n.inuse
	}
	m := &Manager{networkInterfaces: nis, minIdles: zz.IntRange("minIdles", 0, 8), maxIdles: zz.IntRange("maxIdles", 0, 8), total: zz.IntRange("total", 0, 16),
		selectionPolicy: daemon.EniSelectionPolicy(zz.OneOf("policy", string(daemon.EniSelectionPolicyLeastIPs), string(daemon.EniSelectionPolicyMostIPs)))}
	zz.Assume(m.minIdles <= m.maxIdles)
	m.syncPool(context.Background())

	surplus := idles - m.maxIdles
	asked, given := 0, 0
	calls := 0
	for _, n := range raw {
		for j, d := range n.disposed {
			calls++
			zz.Assert(d >= 1, "an interface is only asked to give up a positive number of addresses")
			asked = max(asked, d)
			given += n.ret[j]
		}
	}
	zz.Assert(zz.Implies(surplus <= 0, calls == 0), "nothing is disposed when idle addresses do not exceed max-idle")
	zz.Assert(asked <= max(surplus, 0), "no interface is asked to give up more than the surplus over max-idle")
	zz.Assert(given <= max(surplus, 0), "in total no more than the surplus over max-idle is given up")
	want := 0
	if idles+inuse < m.total && m.minIdles > idles {
		want = m.minIdles - idles
	}
	zz.Assert(zz.Spawned() == want, "exactly the deficit to min-idle is requested, and only while the pool is below its capacity")
	zz.Assert(zz.LockState(&m.RWMutex) == 0, "the manager lock is released")
}

// C06: an ADD served from the pool interleaved with the balancer: Allocate
// (section 1), then Dispose(n) by the balancer, then the commit goroutine
// (section 2), then one dispose-worker iteration.  The address handed to the
// pod is never scheduled for unassignment and never unassigned.
// zz:noreplay the schedule (Dispose between the two sections of an ADD) is chosen by the engine
func ZZ_C06_allocate_vs_dispose() {
	f := zzNewFactory(false)
	l, slots := zzPool(2, 0, f)
	zz.Assume(zzInv(slots))
	me := zzPods[0]
	ctx := zzNewCtx(false)
	ch, _ := l.Allocate(ctx, &daemon.CNI{PodID: me}, zzNewRequest())
	if ch == nil || zz.Spawned() != 1 || len(l.allocatingV4) > 0 {
		zz.Reach("not-a-cache-hit")
		return
	}
	l.Dispose(zz.IntRange("dispose.n", 0, 3))
	zz.RunSpawned(0)
	select {
	case resp, ok := <-ch:
		if !ok {
			zz.Unreachable("an uncancelled ADD is answered")
			return
		}
		res := resp.NetworkConfigs[0].(*LocalIPResource)
		got := l.ipv4[res.IP.IPv4]
		zz.Assert(got != nil && got.podID == me, "the address handed out is owned by the requesting pod")
		zz.Assert(got == nil || got.status != ipStatusDeleting, "an address handed to a pod is never scheduled for unassignment")
	default:
		zz.Unreachable("the commit goroutine answers")
		return
	}
	zz.Assert(l.status != statusDeleting, "an interface with an address in use is not given up")
	wctx := zzNewCtx(false)
	f.onCall = func(c zzCall) {
		for _, a := range c.ips {
			ip := l.ipv4[a]
			zz.Assert(ip != nil && ip.podID == "", "an address a pod holds is never unassigned")
		}
		select {
		case <-wctx.done:
		default:
			close(wctx.done)
		}
	}
	zz.OnYield(func() { zz.Assume(false) })
	l.factoryDisposeWorker(wctx)
	zz.OnYield(nil)
	zz.Reach("dispose-after-add")
}

// C06 (never unassigns an interface's primary address) across a restart: the
// primary address of an attached interface is recognised when the pool is
// rebuilt, in whichever form the ENI description carries it - the 16-byte form
// net.ParseIP produces (what the metadata service, the factories and
// IPSet.SetIP write) or the 4-byte form - and a shrink that follows never
// selects it.
func ZZ_C06_restart_keeps_primary() {
	f := zzNewFactory(false)
	f.loadOK = true
	f.load4 = []netip.Addr{zzAddr4(1), zzAddr4(2), zzAddr4(3)}
	e := zzTestENI()
	if zz.Bool("primary.in.16.byte.form") {
		e.PrimaryIP.IPv4 = net.ParseIP("10.0.0.1")
	}
	l := &Local{cap: 4, eni: e, eniType: "secondary", enableIPv4: true, ipv4: make(Set), ipv6: make(Set), cond: sync.NewCond(&sync.Mutex{}), factory: f}
	err := l.load(nil)
	zz.Assert(err == nil, "an attached interface loads")
	if err != nil {
		return
	}
	p := l.ipv4[zzAddr4(1)]
	zz.Assert(p != nil && p.primary, "the interface's primary address is recognised after a restart")
	for _, a := range []netip.Addr{zzAddr4(2), zzAddr4(3)} {
		zz.Assert(l.ipv4[a] != nil && !l.ipv4[a].primary, "secondary addresses are not taken for the primary")
	}
	// the balancer shrinks the pool: every idle address may go, the primary never
	n := zz.Fork("dispose.n", 4)
	l.Dispose(n)
	zz.Assert(p == nil || p.status != ipStatusDeleting, "a shrink after the restart never selects the primary address")
}
