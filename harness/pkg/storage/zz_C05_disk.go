//go:build verif

package storage

import (
	"errors"
	"strconv"

	"github.com/boltdb/bolt"

	zz "github.com/AliyunContainerService/terway/internal/zzverif"
)

var errZZDisk = errors.New("disk error")

// C05(b): the on-disk store is written first and the in-memory mirror second,
// so after every acknowledged Put/Delete the mirror equals the disk, and a
// failed operation leaves the mirror untouched.  bolt is replaced by a
// transactional model: an Update either commits all writes of its closure or
// none (error from the closure, or a commit failure).
// zz:noreplay bolt.DB / bolt.Tx / bolt.Bucket are summarised through engine-side overrides
func ZZ_C05_disk_storage() {
	disk := map[string]string{}
	var staged map[string]*string // writes of the running transaction (nil value = delete)
	zz.Override("(*github.com/boltdb/bolt.DB).Update", func(db *bolt.DB, fn func(*bolt.Tx) error) error {
		if zz.Bool("tx.begin.fails") {
			return errZZDisk
		}
		staged = map[string]*string{}
		err := fn(nil)
		if err != nil {
			staged = nil
			return err
		}
		if zz.Bool("tx.commit.fails") {
			staged = nil
			return errZZDisk
		}
		for k, v := range staged {
			if v == nil {
				delete(disk, k)
			} else {
				disk[k] = *v
			}
		}
		staged = nil
		return nil
	})
	zz.Override("(*github.com/boltdb/bolt.Tx).Bucket", func(tx *bolt.Tx, name []byte) *bolt.Bucket { return nil })
	zz.Override("(*github.com/boltdb/bolt.Bucket).Put", func(b *bolt.Bucket, key, value []byte) error {
		if zz.Bool("bucket.put.fails") {
			return errZZDisk
		}
		v := string(value)
		staged[string(key)] = &v
		return nil
	})
	zz.Override("(*github.com/boltdb/bolt.Bucket).Delete", func(b *bolt.Bucket, key []byte) error {
		if zz.Bool("bucket.delete.fails") {
			return errZZDisk
		}
		staged[string(key)] = nil
		return nil
	})
	d := &DiskStorage{db: &bolt.DB{}, name: "relation", memory: NewMemoryStorage(),
		serializer:   func(v interface{}) ([]byte, error) { return []byte(v.(string)), nil },
		deserializer: func(b []byte) (interface{}, error) { return string(b), nil }}

	keys := []string{"ns/p0", "ns/p1"}
	steps := 3
	for s := 0; s < steps; s++ {
		k := keys[zz.Fork("key", 2)]
		memBefore, hadBefore := d.memory.store[k]
		var err error
		isPut := zz.Fork("op", 2) == 0
		val := "rec" + strconv.Itoa(s)
		if isPut {
			err = d.Put(k, val)
		} else {
			err = d.Delete(k)
		}
		mv, mok := d.memory.store[k]
		dv, dok := disk[k]
		if err == nil {
			zz.Assert(mok == dok && (!mok || mv.(string) == dv), "after an acknowledged operation the in-memory mirror equals the disk")
			if isPut {
				zz.Assert(dok && dv == val, "an acknowledged Put is on disk")
			} else {
				zz.Assert(!dok, "an acknowledged Delete is on disk")
			}
		} else {
			zz.Assert(mok == hadBefore && (!mok || mv == memBefore), "a failed operation leaves the in-memory mirror untouched")
		}
		// mirror never runs ahead of / diverges from the disk for any key
		for _, kk := range keys {
			m2, ok2 := d.memory.store[kk]
			d2, dk2 := disk[kk]
			zz.Assert(ok2 == dk2 && (!ok2 || m2.(string) == d2), "memory and disk agree for every key at every quiescent point")
		}
	}
	// restart: a new process opens the same database and rebuilds its mirror from it
	keysOnDisk := []string{}
	for _, kk := range keys {
		if _, ok := disk[kk]; ok {
			keysOnDisk = append(keysOnDisk, kk)
		}
	}
	pos := 0
	zz.Override("(*github.com/boltdb/bolt.Tx).CreateBucketIfNotExists", func(tx *bolt.Tx, name []byte) (*bolt.Bucket, error) { return nil, nil })
	zz.Override("(*github.com/boltdb/bolt.DB).View", func(db *bolt.DB, fn func(*bolt.Tx) error) error { return fn(nil) })
	zz.Override("(*github.com/boltdb/bolt.Bucket).Cursor", func(b *bolt.Bucket) *bolt.Cursor { pos = 0; return &bolt.Cursor{} })
	next := func() ([]byte, []byte) {
		if pos >= len(keysOnDisk) {
			return nil, nil
		}
		k := keysOnDisk[pos]
		pos++
		return []byte(k), []byte(disk[k])
	}
	zz.Override("(*github.com/boltdb/bolt.Cursor).First", func(c *bolt.Cursor) ([]byte, []byte) { return next() })
	zz.Override("(*github.com/boltdb/bolt.Cursor).Next", func(c *bolt.Cursor) ([]byte, []byte) { return next() })
	d2 := &DiskStorage{db: &bolt.DB{}, name: "relation", memory: NewMemoryStorage(),
		serializer:   func(v interface{}) ([]byte, error) { return []byte(v.(string)), nil },
		deserializer: func(b []byte) (interface{}, error) { return string(b), nil }}
	err := d2.load()
	if err != nil {
		return // the transaction that creates the bucket may fail: the daemon then does not start
	}
	for _, kk := range keys {
		got, gerr := d2.Get(kk)
		dv, dok := disk[kk]
		zz.Assert((gerr == nil) == dok && (!dok || got.(string) == dv), "after a restart the store returns exactly what the disk holds (every acknowledged record, nothing else)")
	}
	lst, lerr := d2.List()
	zz.Assert(lerr == nil && len(lst) == len(disk), "after a restart the listing has exactly the records on disk")
}
