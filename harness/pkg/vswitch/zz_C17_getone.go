//go:build verif

package vswitch

import (
	"context"
	"errors"
	"golang.org/x/sync/singleflight"
	"strconv"
	"time"

	"github.com/aliyun/alibaba-cloud-sdk-go/services/vpc"
	"k8s.io/apimachinery/pkg/util/cache"

	zz "github.com/AliyunContainerService/terway/internal/zzverif"
)

type zzSw struct {
	zone   string
	count  int64
	err    bool
	cached bool
}

type zzVPC struct {
	sw    map[string]*zzSw
	calls int
}

var errZZDescribe = errors.New("describe failed")

func (f *zzVPC) DescribeVSwitchByID(ctx context.Context, id string) (*vpc.VSwitch, error) {
	f.calls++
	s := f.sw[id]
	if s == nil || s.err {
		return nil, errZZDescribe
	}
	return &vpc.VSwitch{VSwitchId: id, ZoneId: s.zone, AvailableIpAddressCount: s.count}, nil
}

var zzIDs = []string{"vsw-a", "vsw-b", "vsw-c"}

// zzWorld: n candidate switches with symbolic zone / free count / describe
// failure; an entry may already sit in the pool's cache with its own
// (possibly different, e.g. blocked) zone/count.  view = what GetByID yields.
func zzWorld(n int) (*SwitchPool, *zzVPC, []string, []*zzSw) {
	pool := &SwitchPool{cache: cache.NewLRUExpireCache(16), ttl: time.Minute}
	cloud := &zzVPC{sw: map[string]*zzSw{}}
	view := make([]*zzSw, n)
	for i := 0; i < n; i++ {
		is := strconv.Itoa(i)
		c := &zzSw{zone: zz.OneOf("sw"+is+".zone", "z1", "z2"), count: int64(zz.IntRange("sw"+is+".count", 0, 3)), err: zz.Bool("sw" + is + ".err")}
		cloud.sw[zzIDs[i]] = c
		v := *c
		if zz.Bool("sw" + is + ".cached") {
			v = zzSw{zone: zz.OneOf("sw"+is+".czone", "z1", "z2"), count: int64(zz.IntRange("sw"+is+".ccount", 0, 3)), cached: true}
			pool.Add(&Switch{ID: zzIDs[i], Zone: v.zone, AvailableIPCount: v.count})
		}
		view[i] = &v
	}
	ids := make([]string, n)
	copy(ids, zzIDs[:n])
	return pool, cloud, ids, view
}

func zzPolicyOpts(policy int, ignoreZone bool) []SelectOption {
	var opts []SelectOption
	switch policy {
	case 1:
		opts = append(opts, &SelectOptions{VSwitchSelectPolicy: VSwitchSelectionPolicyOrdered, IgnoreZone: ignoreZone})
	case 2:
		opts = append(opts, &SelectOptions{VSwitchSelectPolicy: VSwitchSelectionPolicyRandom, IgnoreZone: ignoreZone})
	case 3:
		opts = append(opts, &SelectOptions{VSwitchSelectPolicy: VSwitchSelectionPolicyMost, IgnoreZone: ignoreZone})
	default:
		opts = append(opts, &SelectOptions{IgnoreZone: ignoreZone})
	}
	return opts
}

// C17(a,b,d): selection honours candidate list, zone, capacity and policy and
// leaves the caller's list untouched.
func ZZ_C17_getone() {
	n := zz.Fork("n", 4)
	policy := zz.Fork("policy", 4) // 0: default, 1: ordered, 2: random, 3: most
	ignoreZone := zz.Bool("ignoreZone")
	pool, cloud, ids, view := zzWorld(n)
	zzGetOneCheck(pool, cloud, ids, view, n, policy, ignoreZone, zzPolicyOpts(policy, ignoreZone))
}

// C17: options are per call.  An earlier selection (on any pool of the
// process) with zone fallback and a non-default policy leaves no trace: a
// later call without options, or with options that leave a field unset, is
// zone-restricted and ordered again.
func ZZ_C17_getone_history() {
	// the earlier call: one cached candidate, arbitrary non-default options
	prev := &SwitchPool{cache: cache.NewLRUExpireCache(4), ttl: time.Minute}
	prev.Add(&Switch{ID: "vsw-prev", Zone: "z2", AvailableIPCount: 1})
	_, _ = prev.GetOne(context.Background(), &zzVPC{sw: map[string]*zzSw{}}, "z1", []string{"vsw-prev"},
		&SelectOptions{IgnoreZone: zz.Bool("prev.ignoreZone"), VSwitchSelectPolicy: SelectionPolicy(zz.OneOf("prev.policy", string(VSwitchSelectionPolicyMost), string(VSwitchSelectionPolicyRandom), string(VSwitchSelectionPolicyOrdered)))})
	n := 2
	pool, cloud, ids, view := zzWorld(n)
	var opts []SelectOption
	ignoreZone := false
	switch zz.Fork("later.opts", 3) {
	case 1:
		opts = append(opts, &SelectOptions{}) // both fields unset
	case 2:
		ignoreZone = true
		opts = append(opts, &SelectOptions{IgnoreZone: true}) // policy unset
	}
	zzGetOneCheck(pool, cloud, ids, view, n, 0, ignoreZone, opts)
}

func zzGetOneCheck(pool *SwitchPool, cloud *zzVPC, ids []string, view []*zzSw, n, policy int, ignoreZone bool, opts []SelectOption) {
	zone := "z1"

	got, err := pool.GetOne(context.Background(), cloud, zone, ids, opts...)

	// frame condition on the caller's slice
	same := len(ids) == n
	for i := 0; i < n && i < len(ids); i++ {
		same = zz.And(same, ids[i] == zzIDs[i])
	}
	zz.Assert(same, "selection never reorders or corrupts the caller's candidate list")

	anyIn, anyFb := false, false
	for i := 0; i < n; i++ {
		v := view[i]
		anyIn = zz.Or(anyIn, zz.And(!v.err, v.zone == zone, v.count != 0))
		anyFb = zz.Or(anyFb, zz.And(!v.err, v.zone != zone, v.count != 0, ignoreZone))
	}
	zz.Assert((got != nil) == (err == nil), "exactly one of switch and error is returned")
	zz.Assert((got != nil) == zz.Or(anyIn, anyFb), "a switch is returned iff an eligible candidate exists (in zone, or any zone with fallback enabled)")
	if got == nil {
		return
	}
	idx := -1
	for i := 0; i < n; i++ {
		if got.ID == zzIDs[i] {
			idx = i
		}
	}
	zz.Assert(idx >= 0, "the chosen vSwitch comes from the caller's candidate list")
	if idx < 0 {
		return
	}
	v := view[idx]
	zz.Assert(zz.And(got.Zone == v.zone, got.AvailableIPCount == v.count), "the returned description is the cached/cloud view of that vSwitch")
	zz.Assert(got.AvailableIPCount != 0, "the chosen vSwitch has free addresses")
	zz.Assert(zz.Implies(anyIn, got.Zone == zone), "the chosen vSwitch lies in the requested zone whenever an in-zone candidate has free addresses")
	zz.Assert(zz.Implies(got.Zone != zone, ignoreZone), "another zone is only used when zone fallback is enabled")
	inZone := got.Zone == zone
	for i := 0; i < n; i++ {
		w := view[i]
		sameClass := zz.And(!w.err, w.count != 0, (w.zone == zone) == inZone)
		if policy == 0 || policy == 1 {
			zz.Assert(zz.Implies(zz.And(sameClass, i < idx), false), "ordered: the first eligible candidate in list order is chosen")
		}
		if policy == 3 {
			zz.Assert(zz.Implies(sameClass, w.count <= got.AvailableIPCount), "most: no eligible candidate has more free addresses")
		}
	}
}

// C17(c): a vSwitch reported exhausted is not chosen again until its cache
// entry expires.
func ZZ_C17_block() {
	n := zz.Fork("n", 3) + 1
	policy := zz.Fork("policy", 4)
	ignoreZone := zz.Bool("ignoreZone")
	pool, cloud, ids, _ := zzWorld(n)
	first, err := pool.GetOne(context.Background(), cloud, "z1", ids, zzPolicyOpts(policy, ignoreZone)...)
	if err != nil || first == nil {
		zz.Reach("nothing-to-block")
		return
	}
	held := *first // what the caller was told: in an admissible zone, with free addresses
	pool.Block(first.ID)
	// no side effects on callers: the object handed out is read without a lock by
	// whoever received it (and by concurrent selections); Block publishes a new
	// entry instead of rewriting the one that is out there
	zz.Assert(*first == held, "blocking a vSwitch does not rewrite an object already handed to a caller")
	ids2 := make([]string, n)
	copy(ids2, zzIDs[:n])
	second, _ := pool.GetOne(context.Background(), cloud, "z1", ids2, zzPolicyOpts(policy, ignoreZone)...)
	zz.Assert(second == nil || second.ID != first.ID, "a blocked (exhausted) vSwitch is not chosen again while its cache entry lives")
	calls := cloud.calls
	_, _ = pool.GetByID(context.Background(), cloud, first.ID)
	zz.Assert(cloud.calls == calls, "a cached vSwitch is served from the cache without a cloud call")
}

// C17(c) under a concurrent cache fill: several selections miss the cache for
// the same vSwitch at the same moment and share one lookup (the single-flight
// group then reports "shared" to every one of them, also to the caller that
// ran the lookup).  The looked-up entry must still end up in the cache, else
// the Block that follows a failed create has nothing to zero and the exhausted
// vSwitch is chosen again.
// zz:noreplay the shared flag of the single-flight group needs real concurrency; it is forced through an engine-side override
func ZZ_C17_block_shared_fill() {
	zz.Override("(*golang.org/x/sync/singleflight.Group).Do", func(g *singleflight.Group, key string, fn func() (interface{}, error)) (interface{}, error, bool) {
		v, err := fn()
		return v, err, true
	})
	n := zz.Fork("n", 2) + 1
	pool, cloud, ids, _ := zzWorld(n)
	first, err := pool.GetOne(context.Background(), cloud, "z1", ids)
	if err != nil || first == nil {
		zz.Reach("nothing-to-block")
		return
	}
	pool.Block(first.ID)
	ids2 := make([]string, n)
	copy(ids2, zzIDs[:n])
	second, _ := pool.GetOne(context.Background(), cloud, "z1", ids2)
	zz.Assert(second == nil || second.ID != first.ID, "a blocked (exhausted) vSwitch is not chosen again while its cache entry lives, also when its cache fill was shared between concurrent selections")
}

// C17: with expiry the blocked entry may vanish and the cloud view returns;
// safety part: whatever expires, the result is still from the list, in an
// admissible zone and with free addresses according to the returned view.
func ZZ_C17_expiry() {
	n := zz.Fork("n", 3) + 1
	policy := zz.Fork("policy", 4)
	ignoreZone := zz.Bool("ignoreZone")
	pool, cloud, ids, _ := zzWorld(n)
	zz.CacheExpiry(true)
	got, err := pool.GetOne(context.Background(), cloud, "z1", ids, zzPolicyOpts(policy, ignoreZone)...)
	zz.CacheExpiry(false)
	zz.Assert((got != nil) == (err == nil), "exactly one of switch and error is returned")
	if got != nil {
		in := false
		for i := 0; i < n; i++ {
			in = zz.Or(in, got.ID == zzIDs[i])
		}
		zz.Assert(in, "the chosen vSwitch comes from the caller's candidate list")
		zz.Assert(got.AvailableIPCount != 0, "the chosen vSwitch has free addresses")
		zz.Assert(zz.Or(got.Zone == "z1", ignoreZone), "another zone is only used when zone fallback is enabled")
	}
}
