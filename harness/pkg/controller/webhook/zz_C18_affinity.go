//go:build verif

package webhook

import (
	corev1 "k8s.io/api/core/v1"

	zz "github.com/AliyunContainerService/terway/internal/zzverif"
)

// C18 (a zone affinity limited to zones in which every requested network has
// a vSwitch), the step that writes the affinity into the pod: for every shape
// of affinity the pod already brings - none, pod (anti-)affinity only, node
// affinity with only preferred terms, an empty required selector, one or two
// required terms (with or without a zone expression of their own) - and one
// or two zone lists: afterwards the scheduler admits a zone exactly when the
// pod's own affinity admitted it before and every non-empty list contains it.
// What the pod brought is kept (preferred terms, other expressions).
func ZZ_C18_zone_affinity_written_into_pod() {
	all := []string{"za", "zb", "zc"}
	pod := &corev1.Pod{}
	shape := zz.Fork("pod.affinity.shape", 7)
	ownZone := corev1.NodeSelectorRequirement{Key: corev1.LabelTopologyZone, Operator: corev1.NodeSelectorOpIn, Values: []string{"za", "zb"}}
	other := corev1.NodeSelectorRequirement{Key: "disk", Operator: corev1.NodeSelectorOpIn, Values: []string{"ssd"}}
	pref := []corev1.PreferredSchedulingTerm{{Weight: 1, Preference: corev1.NodeSelectorTerm{MatchExpressions: []corev1.NodeSelectorRequirement{other}}}}
	switch shape {
	case 1:
		pod.Spec.Affinity = &corev1.Affinity{PodAntiAffinity: &corev1.PodAntiAffinity{}}
	case 2:
		pod.Spec.Affinity = &corev1.Affinity{NodeAffinity: &corev1.NodeAffinity{PreferredDuringSchedulingIgnoredDuringExecution: pref}}
	case 3:
		pod.Spec.Affinity = &corev1.Affinity{NodeAffinity: &corev1.NodeAffinity{RequiredDuringSchedulingIgnoredDuringExecution: &corev1.NodeSelector{}}}
	case 4:
		pod.Spec.Affinity = &corev1.Affinity{NodeAffinity: &corev1.NodeAffinity{RequiredDuringSchedulingIgnoredDuringExecution: &corev1.NodeSelector{NodeSelectorTerms: []corev1.NodeSelectorTerm{{MatchExpressions: []corev1.NodeSelectorRequirement{other}}}}, PreferredDuringSchedulingIgnoredDuringExecution: pref}}
	case 5:
		pod.Spec.Affinity = &corev1.Affinity{NodeAffinity: &corev1.NodeAffinity{RequiredDuringSchedulingIgnoredDuringExecution: &corev1.NodeSelector{NodeSelectorTerms: []corev1.NodeSelectorTerm{{MatchExpressions: []corev1.NodeSelectorRequirement{ownZone}}}}}}
	case 6:
		pod.Spec.Affinity = &corev1.Affinity{NodeAffinity: &corev1.NodeAffinity{RequiredDuringSchedulingIgnoredDuringExecution: &corev1.NodeSelector{NodeSelectorTerms: []corev1.NodeSelectorTerm{{MatchExpressions: []corev1.NodeSelectorRequirement{ownZone}}, {MatchExpressions: []corev1.NodeSelectorRequirement{other}}}}}}
	}
	before := map[string]bool{}
	for _, z := range all {
		before[z] = zzAdmits(pod, z)
	}
	mkList := func(name string) []string {
		var l []string
		for _, z := range all {
			if zz.Bool(name + ".has." + z) {
				l = append(l, z)
			}
		}
		return l
	}
	l1 := mkList("network1")
	lists := [][]string{l1}
	if zz.Bool("two.networks") {
		lists = append(lists, mkList("network2"))
	}
	anyNonEmpty := false
	for _, l := range lists {
		anyNonEmpty = anyNonEmpty || len(l) > 0
	}
	zz.Assume(anyNonEmpty)
	setNodeAffinityByZones(pod, lists...)
	for _, z := range all {
		want := before[z]
		for _, l := range lists {
			if len(l) == 0 {
				continue
			}
			in := false
			for _, v := range l {
				in = in || v == z
			}
			want = want && in
		}
		zz.Assert(zzAdmits(pod, z) == want, "afterwards a zone is admitted exactly when the pod's own affinity admitted it and every requested network has a vSwitch there")
	}
	if shape == 2 || shape == 4 {
		zz.Assert(pod.Spec.Affinity != nil && pod.Spec.Affinity.NodeAffinity != nil && len(pod.Spec.Affinity.NodeAffinity.PreferredDuringSchedulingIgnoredDuringExecution) == 1, "the pod's preferred terms are kept")
	}
}
