//go:build verif

package webhook

import (
	"strconv"

	corev1 "k8s.io/api/core/v1"
	"k8s.io/apimachinery/pkg/api/resource"

	"github.com/AliyunContainerService/terway/deviceplugin"
	zz "github.com/AliyunContainerService/terway/internal/zzverif"
	"github.com/AliyunContainerService/terway/pkg/apis/network.alibabacloud.com/v1beta1"
	"github.com/AliyunContainerService/terway/types/controlplane"
)

// C18 (a device request equal to the number of networks): the request the
// webhook injects.  One to three networks, each asking for the default
// attachment, a dedicated interface (ENI) or a trunk member - every mix - with
// trunking on or off: request and limit of the first container are both the
// number of networks; the resource is the dedicated-interface resource when
// trunking is off or any network asks for a dedicated interface, the
// member-interface resource otherwise; no network, no request.
// zz:noreplay quantity parsing is summarised through an engine-side override
func ZZ_C18_device_request_counts_networks() {
	zz.Override("k8s.io/apimachinery/pkg/api/resource.MustParse", func(s string) resource.Quantity {
		return resource.Quantity{Format: resource.Format(s)}
	})
	n := zz.Fork("networks", 4)
	var nets []controlplane.PodNetworks
	anyENI := false
	for i := 0; i < n; i++ {
		t := []v1beta1.ENIAttachType{"", v1beta1.ENIOptionTypeDefault, v1beta1.ENIOptionTypeENI, v1beta1.ENIOptionTypeTrunk}[zz.Fork("net"+strconv.Itoa(i)+".type", 4)]
		anyENI = anyENI || t == v1beta1.ENIOptionTypeENI
		pn := controlplane.PodNetworks{Interface: "eth" + strconv.Itoa(i)}
		pn.ENIOptions.ENIAttachType = t
		nets = append(nets, pn)
	}
	trunk := zz.Bool("trunk.enabled")
	pod := &corev1.Pod{}
	pod.Spec.Containers = []corev1.Container{{Name: "c0"}, {Name: "c1"}}
	setResourceRequest(pod, nets, trunk)
	c0 := pod.Spec.Containers[0].Resources
	if n == 0 {
		zz.Assert(len(c0.Requests) == 0 && len(c0.Limits) == 0, "no network, no device request")
		return
	}
	want := deviceplugin.MemberENIResName
	if !trunk || anyENI {
		want = deviceplugin.ENIResName
	}
	req, okR := c0.Requests[corev1.ResourceName(want)]
	lim, okL := c0.Limits[corev1.ResourceName(want)]
	zz.Assert(okR && okL && len(c0.Requests) == 1 && len(c0.Limits) == 1, "one device resource is requested and limited, of the kind the networks need")
	zz.Assert(string(req.Format) == strconv.Itoa(n) && string(lim.Format) == strconv.Itoa(n), "the device request and limit equal the number of networks, whatever mix of attachment types they ask for")
	zz.Assert(len(pod.Spec.Containers[1].Resources.Requests) == 0, "only the first container carries the request")
}
