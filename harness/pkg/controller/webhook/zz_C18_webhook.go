//go:build verif

package webhook

import (
	"context"
	"errors"
	"strconv"

	"gomodules.xyz/jsonpatch/v2"
	admissionv1 "k8s.io/api/admission/v1"
	corev1 "k8s.io/api/core/v1"
	k8sErr "k8s.io/apimachinery/pkg/api/errors"
	"k8s.io/apimachinery/pkg/api/resource"
	metav1 "k8s.io/apimachinery/pkg/apis/meta/v1"
	"k8s.io/apimachinery/pkg/labels"
	"k8s.io/apimachinery/pkg/runtime/schema"
	"k8s.io/apimachinery/pkg/util/json"
	"sigs.k8s.io/controller-runtime/pkg/client"
	"sigs.k8s.io/controller-runtime/pkg/webhook/admission"

	"github.com/AliyunContainerService/terway/deviceplugin"
	zz "github.com/AliyunContainerService/terway/internal/zzverif"
	"github.com/AliyunContainerService/terway/pkg/apis/network.alibabacloud.com/v1beta1"
	"github.com/AliyunContainerService/terway/types"
	"github.com/AliyunContainerService/terway/types/controlplane"
	"github.com/AliyunContainerService/terway/types/daemon"
)

var errZZ = errors.New("api server error")

type zzAPI struct {
	client.Client
	podENI  *v1beta1.PodENI
	pns     []v1beta1.PodNetworking
	listErr bool
	nsErr   bool
}

func (c *zzAPI) Get(ctx context.Context, key client.ObjectKey, obj client.Object, opts ...client.GetOption) error {
	switch o := obj.(type) {
	case *v1beta1.PodENI:
		if c.podENI == nil {
			return k8sErr.NewNotFound(schema.GroupResource{Resource: "podenis"}, key.Name)
		}
		*o = *c.podENI
		return nil
	case *corev1.Namespace:
		if c.nsErr {
			return errZZ
		}
		*o = corev1.Namespace{}
		return nil
	case *v1beta1.PodNetworking:
		for i := range c.pns {
			if c.pns[i].Name == key.Name {
				*o = c.pns[i]
				return nil
			}
		}
		return k8sErr.NewNotFound(schema.GroupResource{Resource: "podnetworkings"}, key.Name)
	}
	return errZZ
}
func (c *zzAPI) List(ctx context.Context, list client.ObjectList, opts ...client.ListOption) error {
	if c.listErr {
		return errZZ
	}
	if l, ok := list.(*v1beta1.PodNetworkingList); ok {
		l.Items = c.pns
	}
	return nil
}

type zzOut struct {
	patched  bool
	finalPod *corev1.Pod
}

// zzInstall replaces the library pieces the handler leans on by their
// contracts: patch creation (records the final document), label-selector
// matching (arbitrary verdict per selector), the cluster eni-config (arbitrary
// non-empty vSwitch / security-group lists, or an error) and quantity parsing.
// cfgErr: 0 the cluster eni-config is readable, 1 reading it fails, 2 it does not exist (NotFound)
func zzInstall(out *zzOut, cfgErr int, nCfgSG int, match map[*metav1.LabelSelector]int) {
	zz.Override("gomodules.xyz/jsonpatch/v2.CreatePatch", func(a, b []byte) ([]jsonpatch.Operation, error) {
		out.patched = true
		p := &corev1.Pod{}
		if err := json.Unmarshal(b, p); err == nil {
			out.finalPod = p
		}
		return []jsonpatch.Operation{{Operation: "replace", Path: "/"}}, nil
	})
	zz.Override("github.com/AliyunContainerService/terway/pkg/controller/webhook.PodMatchSelector", func(sel *metav1.LabelSelector, l labels.Set) (bool, error) {
		switch match[sel] {
		case 1:
			return true, nil
		case 2:
			return false, errZZ
		}
		return false, nil
	})
	zz.Override("github.com/AliyunContainerService/terway/types/daemon.ConfigFromConfigMap", func(ctx context.Context, c client.Client, nodeName string) (*daemon.Config, error) {
		switch cfgErr {
		case 1:
			return nil, errZZ
		case 2:
			return nil, k8sErr.NewNotFound(schema.GroupResource{Resource: "configmaps"}, "eni-config")
		}
		cfg := &daemon.Config{VSwitches: map[string][]string{"z1": {"vsw-cfg"}}}
		for i := 0; i < nCfgSG; i++ {
			cfg.SecurityGroups = append(cfg.SecurityGroups, "sg-cfg-"+strconv.Itoa(i))
		}
		return cfg, nil
	})
	zz.Override("k8s.io/apimachinery/pkg/api/resource.MustParse", func(s string) resource.Quantity {
		return resource.Quantity{Format: resource.Format(s)}
	})
}

func zzRaw(v any) []byte {
	b, _ := json.Marshal(v)
	return b
}

func zzBoolPtr(b bool) *bool { return &b }

func zzCheckEntries(list []controlplane.PodNetworks, fixedNamePod bool) {
	names := map[string]bool{}
	zz.Assert(len(list) >= 1, "the emitted network list has at least one entry")
	for _, n := range list {
		zz.Assert(len(n.Interface) >= 1 && len(n.Interface) <= 5, "every entry has an interface name of 1 to 5 characters")
		zz.Assert(!names[n.Interface], "interface names are unique")
		names[n.Interface] = true
		zz.Assert(len(n.SecurityGroupIDs) <= 10, "every entry has at most ten security groups")
		zz.Assert(n.AllocationType != nil, "every entry has an allocation type")
		if n.Interface == eth0 {
			zz.Assert(len(n.VSwitchOptions) > 0 && len(n.SecurityGroupIDs) > 0, "the primary entry has vSwitches and security groups")
		} else {
			zz.Assert(len(n.VSwitchOptions) > 0 && len(n.SecurityGroupIDs) > 0, "every additional entry has vSwitches and security groups")
		}
		if n.AllocationType != nil && n.AllocationType.Type == v1beta1.IPAllocTypeFixed {
			zz.Assert(fixedNamePod, "a fixed-IP allocation is only admitted for a pod with a stable name")
		}
	}
}

// C18: scope and completeness.  Arbitrary pod (host network, ignore label,
// containers, owner, the three network annotations incl. conflicts), up to 2
// annotation-supplied networks with arbitrary fields, up to 2 PodNetworking
// objects with arbitrary selector verdicts, arbitrary cluster configuration.
// zz:noreplay JSON patch creation, selector matching and the cluster eni-config are summarised through engine-side overrides
// zz:noreplay JSON patch creation, selector matching and the cluster eni-config are summarised through engine-side overrides
func ZZ_C18_pod_webhook_scope() { zzPodWebhook(true, 0) }

// in-scope pods: 6 shards = annotation kind (absent / list / junk) x number of PodNetworking objects (0 / 1)
// zz:noreplay JSON patch creation, selector matching and the cluster eni-config are summarised through engine-side overrides
func ZZ_C18_pod_webhook() { zzPodWebhook(false, zz.Shard(6)) }

func zzPodWebhook(scopeOnly bool, shard int) {
	pod := &corev1.Pod{ObjectMeta: metav1.ObjectMeta{Namespace: "ns", Name: "p0", Annotations: map[string]string{}, Labels: map[string]string{}}}
	pod.Spec.HostNetwork = zz.Bool("hostNetwork")
	nCont := zz.Fork("containers", 3)
	if !scopeOnly {
		zz.Assume(!pod.Spec.HostNetwork && nCont == 1+zz.Tier())
	}
	for i := 0; i < nCont; i++ {
		pod.Spec.Containers = append(pod.Spec.Containers, corev1.Container{Name: "c" + strconv.Itoa(i)})
	}
	ignored := zz.Bool("ignore.label")
	if !scopeOnly {
		zz.Assume(!ignored)
	}
	if ignored {
		pod.Labels[types.IgnoreByTerway] = "true"
	}
	owner := zz.Fork("owner", 3) // 0 none, 1 StatefulSet, 2 ReplicaSet
	switch owner {
	case 1:
		pod.OwnerReferences = []metav1.OwnerReference{{Kind: "StatefulSet"}}
	case 2:
		pod.OwnerReferences = []metav1.OwnerReference{{Kind: "ReplicaSet"}}
	}
	fixedName := owner != 2
	useENI := zz.Bool("anno.pod-eni")
	pod.Annotations[types.PodENI] = zz.IteStr(useENI, "true", "false")
	// annotation-supplied networks
	annoKind := zz.Fork("anno.networks", 3) // 0 absent, 1 well-typed list, 2 junk
	if !scopeOnly {
		zz.Assume(annoKind == shard%3)
	} else {
		zz.Assume(annoKind == 0)
	}
	var annoNets []controlplane.PodNetworks
	if annoKind == 1 {
		nNet := zz.Fork("anno.n", 2) + 1
		for i := 0; i < nNet; i++ {
			is := strconv.Itoa(i)
			pn := controlplane.PodNetworks{Interface: zz.OneOf("net"+is+".if", "eth0", "eth1", "", "toolong")}
			if zz.Bool("net" + is + ".hasVSW") {
				pn.VSwitchOptions = []string{"vsw-a"}
			}
			nsg := []int{0, 1, 11}[zz.Fork("net"+is+".sg", 3)]
			for k := 0; k < nsg; k++ {
				pn.SecurityGroupIDs = append(pn.SecurityGroupIDs, "sg-"+strconv.Itoa(k))
			}
			switch zz.Fork("net"+is+".alloc", 3) {
			case 1:
				pn.AllocationType = &v1beta1.AllocationType{Type: v1beta1.IPAllocTypeElastic}
			case 2:
				pn.AllocationType = &v1beta1.AllocationType{Type: v1beta1.IPAllocTypeFixed}
			}
			annoNets = append(annoNets, pn)
		}
		pod.Annotations[types.PodNetworks] = string(zzRaw(&controlplane.PodNetworksAnnotation{PodNetworks: annoNets}))
	} else if annoKind == 2 {
		pod.Annotations[types.PodNetworks] = "junk"
	}
	hasReq := zz.Bool("anno.request")
	if !scopeOnly {
		zz.Assume(!hasReq) // conflicting annotations are explored by the scope harness
	}
	if hasReq {
		pod.Annotations[types.PodNetworksRequest] = "junk-request"
	}
	hasPN := zz.Bool("anno.podnetworking")
	if !scopeOnly {
		zz.Assume(!hasPN)
	}
	if hasPN {
		pod.Annotations[types.PodNetworking] = "pn-x"
	}
	api := &zzAPI{listErr: zz.Bool("list.fails")}
	match := map[*metav1.LabelSelector]int{}
	nPN := zz.Fork("podnetworkings", 2)
	if !scopeOnly {
		zz.Assume(nPN == shard/3)
	} else {
		zz.Assume(nPN == 0)
	}
	for i := 0; i < nPN; i++ {
		is := strconv.Itoa(i)
		sel := &metav1.LabelSelector{}
		match[sel] = zz.Fork("pn"+is+".match", 3)
		pn := v1beta1.PodNetworking{ObjectMeta: metav1.ObjectMeta{Name: "pn-" + is}}
		pn.Spec.Selector.PodSelector = sel
		pn.Spec.VSwitchOptions = []string{"vsw-pn"}
		pn.Spec.SecurityGroupIDs = []string{"sg-pn"}
		pn.Spec.AllocationType = v1beta1.AllocationType{Type: v1beta1.IPAllocType(zz.OneOf("pn"+is+".alloc", string(v1beta1.IPAllocTypeElastic), string(v1beta1.IPAllocTypeFixed)))}
		pn.Status.Status = v1beta1.NetworkingStatus(zz.OneOf("pn"+is+".status", string(v1beta1.NetworkingStatusReady), string(v1beta1.NetworkingStatusFail)))
		pn.Status.VSwitches = []v1beta1.VSwitch{{ID: "vsw-pn", Zone: "z-pn"}}
		api.pns = append(api.pns, pn)
	}
	cfg := &controlplane.Config{IPAMType: zz.OneOf("ipam", "default", "crd"), EnableWebhookInjectResource: zzBoolPtr(zz.Bool("inject")), EnableTrunk: zzBoolPtr(zz.Bool("trunk"))}
	out := &zzOut{}
	zzInstall(out, zz.Fork("cfg.outcome", 3), 1, match)
	req := &admission.Request{AdmissionRequest: admissionv1.AdmissionRequest{Namespace: "ns", Name: "p0"}}
	req.Object.Raw = zzRaw(pod)

	resp := podWebhook(context.Background(), req, api, cfg)

	nAnno := 0
	for _, b := range []bool{annoKind != 0, hasReq, hasPN} {
		if b {
			nAnno++
		}
	}
	outOfScope := pod.Spec.HostNetwork || nCont == 0 || ignored
	if outOfScope {
		zz.Assert(resp.Allowed && !out.patched, "pods on the host network, without containers or labelled as ignored are admitted unchanged")
		return
	}
	if nAnno >= 2 {
		zz.Assert(!resp.Allowed && !out.patched, "conflicting network annotations are denied")
		return
	}
	if out.patched {
		zz.Assert(resp.Allowed, "a mutated pod is admitted")
		fp := out.finalPod
		zz.Assert(fp != nil && fp.Annotations[types.PodENI] == "true", "a pod marked for a dedicated ENI carries the pod-eni flag")
		if fp == nil {
			return
		}
		var emitted controlplane.PodNetworksAnnotation
		perr := json.Unmarshal([]byte(fp.Annotations[types.PodNetworks]), &emitted)
		zz.Assert(perr == nil, "the emitted network list is parseable")
		zzCheckEntries(emitted.PodNetworks, fixedName)
		if *cfg.EnableWebhookInjectResource {
			want := strconv.Itoa(len(emitted.PodNetworks))
			name := corev1.ResourceName(deviceplugin.MemberENIResName)
			if !*cfg.EnableTrunk {
				name = corev1.ResourceName(deviceplugin.ENIResName)
			}
			q, ok := fp.Spec.Containers[0].Resources.Requests[name]
			l, ok2 := fp.Spec.Containers[0].Resources.Limits[name]
			zz.Assert(ok && ok2 && string(q.Format) == want && string(l.Format) == want, "with resource injection the device request and limit equal the number of networks")
		}
	} else if resp.Allowed {
		// admitted unchanged although in scope: only legitimate outside centralised IPAM, without request and without a matching network definition
		// (a request annotation that decodes to an empty list asks for nothing)
		zz.Assert(string(cfg.IPAMType) != "crd" && !useENI && annoKind != 1, "a pod in scope is admitted unchanged only when, outside centralised IPAM, it matches no network definition and asks for nothing")
	}
	zz.Reach("webhook-done")
}

// C18 zone affinity for multi-network requests: the zones added to the node
// affinity are exactly those in which every requested network has a vSwitch.
// zz:noreplay JSON patch creation and the cluster eni-config are summarised through engine-side overrides
func ZZ_C18_request_zones() {
	zones := []string{"za", "zb", "zc"}
	n := 3
	pod := &corev1.Pod{ObjectMeta: metav1.ObjectMeta{Namespace: "ns", Name: "p0", Annotations: map[string]string{}}}
	pod.Spec.Containers = []corev1.Container{{Name: "c0"}}
	pod.OwnerReferences = []metav1.OwnerReference{{Kind: "ReplicaSet"}}
	api := &zzAPI{}
	var refs []controlplane.PodNetworkRef
	has := make([][]bool, n)
	for i := 0; i < n; i++ {
		is := strconv.Itoa(i)
		pn := v1beta1.PodNetworking{ObjectMeta: metav1.ObjectMeta{Name: "pn-" + is}}
		pn.Spec.VSwitchOptions = []string{"vsw-" + is}
		pn.Spec.SecurityGroupIDs = []string{"sg-" + is}
		pn.Status.Status = v1beta1.NetworkingStatusReady
		has[i] = make([]bool, len(zones))
		for z := range zones {
			has[i][z] = zz.Bool("pn" + is + ".zone." + zones[z])
			if has[i][z] {
				pn.Status.VSwitches = append(pn.Status.VSwitches, v1beta1.VSwitch{ID: "vsw-" + is + zones[z], Zone: zones[z]})
			}
		}
		api.pns = append(api.pns, pn)
		refs = append(refs, controlplane.PodNetworkRef{InterfaceName: "eth" + is, Network: "pn-" + is})
	}
	pod.Annotations[types.PodNetworksRequest] = string(zzRaw(refs))
	cfg := &controlplane.Config{IPAMType: "default", EnableWebhookInjectResource: zzBoolPtr(false), EnableTrunk: zzBoolPtr(true)}
	out := &zzOut{}
	zzInstall(out, 0, 1, map[*metav1.LabelSelector]int{})
	req := &admission.Request{AdmissionRequest: admissionv1.AdmissionRequest{Namespace: "ns", Name: "p0"}}
	req.Object.Raw = zzRaw(pod)
	resp := podWebhook(context.Background(), req, api, cfg)
	zz.Assert(resp.Allowed && out.patched && out.finalPod != nil, "a well-formed multi-network request is admitted and mutated")
	if out.finalPod == nil {
		return
	}
	common := make([]bool, len(zones))
	for z := range zones {
		common[z] = has[0][z] && has[1][z] && has[2][z]
	}
	aff := out.finalPod.Spec.Affinity
	if aff == nil || aff.NodeAffinity == nil || aff.NodeAffinity.RequiredDuringSchedulingIgnoredDuringExecution == nil {
		zz.Assert(!common[0] && !common[1] && !common[2], "a zone affinity is emitted whenever the requested networks share a zone")
		return
	}
	for _, term := range aff.NodeAffinity.RequiredDuringSchedulingIgnoredDuringExecution.NodeSelectorTerms {
		for _, e := range term.MatchExpressions {
			if e.Key != corev1.LabelTopologyZone {
				continue
			}
			for _, v := range e.Values {
				ok := false
				for z := range zones {
					ok = ok || (v == zones[z] && common[z])
				}
				zz.Assert(ok, "the zone affinity only admits zones in which every requested network has a vSwitch")
			}
			for z := range zones {
				if common[z] {
					found := false
					for _, v := range e.Values {
						found = found || v == zones[z]
					}
					zz.Assert(found, "every zone shared by all requested networks is admitted")
				}
			}
		}
	}
}

// zzAdmits: does the pod's required node affinity admit a node of zone z?
// (terms are OR-ed, the expressions of a term AND-ed; only zone expressions matter here)
func zzAdmits(pod *corev1.Pod, z string) bool {
	aff := pod.Spec.Affinity
	if aff == nil || aff.NodeAffinity == nil || aff.NodeAffinity.RequiredDuringSchedulingIgnoredDuringExecution == nil {
		return true
	}
	terms := aff.NodeAffinity.RequiredDuringSchedulingIgnoredDuringExecution.NodeSelectorTerms
	if len(terms) == 0 {
		return true
	}
	for _, term := range terms {
		ok := true
		for _, e := range term.MatchExpressions {
			if e.Key != corev1.LabelTopologyZone {
				continue
			}
			in := false
			for _, v := range e.Values {
				in = in || v == z
			}
			ok = ok && in
		}
		if ok {
			return true
		}
	}
	return false
}

// C18 zone affinity for fixed-IP pods: a re-created stable-name pod whose
// retained PodENI names a previous zone is only admitted to nodes of that
// zone, and - as for every pod - only to zones in which the requested network
// has a vSwitch.  The affinity is evaluated as the scheduler does (AND of the
// expressions of a term).  The previous zone may or may not still be a vSwitch
// zone of the network (the PodNetworking can change between admissions).
// zz:noreplay JSON patch creation and the cluster eni-config are summarised through engine-side overrides
func ZZ_C18_fixed_ip_zone() {
	zones := []string{"za", "zb", "zc"}
	pod := &corev1.Pod{ObjectMeta: metav1.ObjectMeta{Namespace: "ns", Name: "p0", Annotations: map[string]string{}}}
	pod.Spec.Containers = []corev1.Container{{Name: "c0"}}
	stable := zz.Bool("pod.statefulset")
	if stable {
		pod.OwnerReferences = []metav1.OwnerReference{{Kind: "StatefulSet"}}
	} else {
		pod.OwnerReferences = []metav1.OwnerReference{{Kind: "ReplicaSet"}}
	}
	fixed := zz.Bool("network.fixed")
	pn := v1beta1.PodNetworking{ObjectMeta: metav1.ObjectMeta{Name: "pn-0"}}
	pn.Spec.VSwitchOptions = []string{"vsw-0"}
	pn.Spec.SecurityGroupIDs = []string{"sg-0"}
	pn.Status.Status = v1beta1.NetworkingStatusReady
	if fixed {
		pn.Spec.AllocationType = v1beta1.AllocationType{Type: v1beta1.IPAllocTypeFixed, ReleaseStrategy: v1beta1.ReleaseStrategyTTL, ReleaseAfter: "10m"}
	}
	has := make([]bool, len(zones))
	for z := range zones {
		has[z] = zz.Bool("pn.zone." + zones[z])
		if has[z] {
			pn.Status.VSwitches = append(pn.Status.VSwitches, v1beta1.VSwitch{ID: "vsw-" + zones[z], Zone: zones[z]})
		}
	}
	api := &zzAPI{pns: []v1beta1.PodNetworking{pn}}
	prev := zz.OneOf("podeni.zone", "", "za", "zc")
	hasRecord := zz.Bool("podeni.exists")
	recordUsable := hasRecord
	if hasRecord {
		api.podENI = &v1beta1.PodENI{ObjectMeta: metav1.ObjectMeta{Namespace: "ns", Name: "p0"}}
		api.podENI.Spec.Zone = prev
		if zz.Bool("podeni.has.allocations") {
			api.podENI.Spec.Allocations = []v1beta1.Allocation{{IPv4: "10.0.0.5"}}
		} else {
			recordUsable = false
		}
		if zz.Bool("podeni.deleting") {
			ts := metav1.Unix(1700000000, 0)
			api.podENI.DeletionTimestamp = &ts
			recordUsable = false
		}
	}
	pod.Annotations[types.PodNetworksRequest] = string(zzRaw([]controlplane.PodNetworkRef{{InterfaceName: "eth0", Network: "pn-0"}}))
	cfg := &controlplane.Config{IPAMType: "default", EnableWebhookInjectResource: zzBoolPtr(false), EnableTrunk: zzBoolPtr(true)}
	out := &zzOut{}
	zzInstall(out, 0, 1, map[*metav1.LabelSelector]int{})
	req := &admission.Request{AdmissionRequest: admissionv1.AdmissionRequest{Namespace: "ns", Name: "p0"}}
	req.Object.Raw = zzRaw(pod)
	resp := podWebhook(context.Background(), req, api, cfg)
	if fixed && !stable {
		zz.Assert(!resp.Allowed && !out.patched, "a fixed address is refused for a pod without a stable name")
		return
	}
	zz.Assert(resp.Allowed && out.patched && out.finalPod != nil, "a well-formed request is admitted and mutated")
	if out.finalPod == nil {
		return
	}
	pinned := fixed && stable && recordUsable && prev != ""
	anyZone := has[0] || has[1] || has[2]
	for z := range zones {
		adm := zzAdmits(out.finalPod, zones[z])
		zz.Assert(zz.Implies(adm && anyZone, has[z]), "the zone affinity only admits zones in which the requested network has a vSwitch")
		zz.Assert(zz.Implies(adm && pinned, zones[z] == prev), "a re-created fixed-address pod is only admitted to the zone of its retained interface")
		zz.Assert(zz.Implies(has[z] && (!pinned || zones[z] == prev), adm), "every zone the network and the retained interface allow is admitted")
	}
	if pinned {
		zz.Reach("pinned to previous zone")
	}
}
