//go:build verif

package webhook

import (
	"context"
	"strconv"

	corev1 "k8s.io/api/core/v1"
	metav1 "k8s.io/apimachinery/pkg/apis/meta/v1"
	"k8s.io/apimachinery/pkg/labels"

	zz "github.com/AliyunContainerService/terway/internal/zzverif"
	"github.com/AliyunContainerService/terway/pkg/apis/network.alibabacloud.com/v1beta1"
)

// C18 (scope: pods that match no network definition are admitted unchanged):
// which definition a pod matches.  Two definitions in list order, each ready
// or not, elastic or fixed, with a pod selector, a namespace selector, both or
// neither, every selector with an arbitrary verdict: the pod is given the
// first definition that is ready, admissible for the pod's kind (fixed
// addresses only for fixed-name pods), has at least one selector and whose
// every selector matches - each definition judged on its own, nothing carried
// over from the one before.  A definition without any selector never matches
// by itself (it is only for explicit requests).
// zz:noreplay the verdict of each label selector is supplied through an engine-side override
func ZZ_C18_match_one_pod_networking() {
	pod := &corev1.Pod{ObjectMeta: metav1.ObjectMeta{Namespace: "ns", Name: "p0", Labels: map[string]string{"app": "a"}}}
	fixedName := zz.Bool("pod.fixed.name")
	if !fixedName {
		pod.OwnerReferences = []metav1.OwnerReference{{Kind: "ReplicaSet", Name: "rs"}}
	}
	api := &zzAPI{}
	verdict := map[*metav1.LabelSelector]bool{}
	type shape struct {
		ready, fixed, hasPod, hasNS, podOK, nsOK bool
	}
	var shapes []shape
	for i := 0; i < 2; i++ {
		is := strconv.Itoa(i)
		s := shape{ready: zz.Bool("pn" + is + ".ready"), fixed: zz.Bool("pn" + is + ".fixed"), hasPod: zz.Bool("pn" + is + ".pod.selector"), hasNS: zz.Bool("pn" + is + ".ns.selector")}
		pn := v1beta1.PodNetworking{ObjectMeta: metav1.ObjectMeta{Name: "pn-" + is}}
		pn.Status.Status = v1beta1.NetworkingStatusFail
		if s.ready {
			pn.Status.Status = v1beta1.NetworkingStatusReady
		}
		pn.Spec.AllocationType.Type = v1beta1.IPAllocTypeElastic
		if s.fixed {
			pn.Spec.AllocationType.Type = v1beta1.IPAllocTypeFixed
		}
		if s.hasPod {
			sel := &metav1.LabelSelector{MatchLabels: map[string]string{"app": is}}
			s.podOK = zz.Bool("pn" + is + ".pod.selector.matches")
			verdict[sel] = s.podOK
			pn.Spec.Selector.PodSelector = sel
		}
		if s.hasNS {
			sel := &metav1.LabelSelector{MatchLabels: map[string]string{"team": is}}
			s.nsOK = zz.Bool("pn" + is + ".ns.selector.matches")
			verdict[sel] = s.nsOK
			pn.Spec.Selector.NamespaceSelector = sel
		}
		api.pns = append(api.pns, pn)
		shapes = append(shapes, s)
	}
	zz.Override("github.com/AliyunContainerService/terway/pkg/controller/webhook.PodMatchSelector", func(sel *metav1.LabelSelector, l labels.Set) (bool, error) {
		return verdict[sel], nil
	})
	got, err := matchOnePodNetworking(context.Background(), "ns", api, pod)
	zz.Assert(err == nil, "matching succeeds")
	want := ""
	for i, s := range shapes {
		if s.ready && (!s.fixed || fixedName) && (s.hasPod || s.hasNS) && (!s.hasPod || s.podOK) && (!s.hasNS || s.nsOK) {
			want = "pn-" + strconv.Itoa(i)
			break
		}
	}
	if want == "" {
		zz.Assert(got == nil, "a pod that satisfies no definition matches none (a definition is judged on its own selectors only)")
	} else {
		zz.Assert(got != nil && got.Name == want, "the pod gets the first definition, in list order, that it fully satisfies")
	}
}
