//go:build verif

package node

import (
	"context"

	"go.opentelemetry.io/otel/trace/noop"

	zz "github.com/AliyunContainerService/terway/internal/zzverif"
	aliyunClient "github.com/AliyunContainerService/terway/pkg/aliyun/client"
	networkv1beta1 "github.com/AliyunContainerService/terway/pkg/apis/network.alibabacloud.com/v1beta1"
)

type zzAssignCloud struct {
	*zzCloud
	out4, out6 int // 0 success, 1 error without result, 2 error with a named partial result (the cloud assigned it)
	calls4     int
	calls6     int
	asked4     int
	asked6     int
}

func (c *zzAssignCloud) AssignPrivateIPAddressV2(ctx context.Context, opts ...aliyunClient.AssignPrivateIPAddressOption) ([]aliyunClient.IPSet, error) {
	o := &aliyunClient.AssignPrivateIPAddressOptions{}
	for _, f := range opts {
		f.ApplyAssignPrivateIPAddress(o)
	}
	c.calls4++
	c.asked4 = o.NetworkInterfaceOptions.IPCount
	switch c.out4 {
	case 1:
		return nil, errZZOpenAPI
	case 2:
		return []aliyunClient.IPSet{{IPName: "ipn-4"}}, errZZOpenAPI
	}
	var out []aliyunClient.IPSet
	for i := 0; i < c.asked4; i++ {
		out = append(out, aliyunClient.IPSet{IPAddress: "10.0.0." + string(rune('5'+i)), IPName: "ipn-ok-" + string(rune('0'+i))})
	}
	return out, nil
}
func (c *zzAssignCloud) AssignIpv6AddressesV2(ctx context.Context, opts ...aliyunClient.AssignIPv6AddressesOption) ([]aliyunClient.IPSet, error) {
	o := &aliyunClient.AssignIPv6AddressesOptions{}
	for _, f := range opts {
		f.ApplyAssignIPv6Addresses(o)
	}
	c.calls6++
	c.asked6 = o.NetworkInterfaceOptions.IPv6Count
	switch c.out6 {
	case 1:
		return nil, errZZOpenAPI
	case 2:
		return []aliyunClient.IPSet{{IPName: "ipn-6"}}, errZZOpenAPI
	}
	var out []aliyunClient.IPSet
	for i := 0; i < c.asked6; i++ {
		out = append(out, aliyunClient.IPSet{IPAddress: "fd00::" + string(rune('5'+i))})
	}
	return out, nil
}

// C08 (a partially failed assign is released, not forgotten): adding
// addresses to an interface.  For every combination of requested counts and
// cloud outcomes per family: on success exactly the returned addresses are
// recorded as Valid; when the call fails after the cloud assigned an address
// (named partial result) that address is recorded as Deleting - so the gc
// step unassigns it - and nothing is recorded as Valid; a plain failure
// records nothing; an IPv4 failure stops before the IPv6 call; addresses
// already on the interface are never touched.
func ZZ_C08_assign_ip() {
	cloud := &zzAssignCloud{zzCloud: &zzCloud{}, out4: zz.Fork("v4.outcome", 3), out6: zz.Fork("v6.outcome", 3)}
	n := &ReconcileNode{aliyun: cloud, vswpool: zzNewPool(), tracer: noop.NewTracerProvider().Tracer("zz")}
	eni := &networkv1beta1.NetworkInterface{ID: "eni-1", VSwitchID: "vsw-1", Status: aliyunClient.ENIStatusInUse}
	if zz.Bool("has.existing") {
		eni.IPv4 = map[string]*networkv1beta1.IP{"10.0.0.2": {IP: "10.0.0.2", Status: networkv1beta1.IPStatusValid, PodID: "ns/p0"}}
	}
	n4, n6 := zz.Fork("add.v4", 3), zz.Fork("add.v6", 3)
	ctx := zzNodeCtx()
	err := n.assignIP(ctx, &eniOptions{eniRef: eni, addIPv4N: n4, addIPv6N: n6})
	zz.Assert(cloud.calls4 == zz.IteInt(n4 > 0, 1, 0), "IPv4 addresses are requested exactly when wanted")
	zz.Assert(zz.Implies(cloud.calls4 == 1, cloud.asked4 == n4), "the wanted number of IPv4 addresses is requested")
	fail4 := n4 > 0 && cloud.out4 != 0
	zz.Assert(cloud.calls6 == zz.IteInt(n6 > 0 && !fail4, 1, 0), "IPv6 addresses are requested when wanted, unless the IPv4 step failed")
	fail6 := cloud.calls6 == 1 && cloud.out6 != 0
	zz.Assert((err != nil) == (fail4 || fail6), "a failing cloud call is reported")
	nValid4, nDel4, nValid6, nDel6 := 0, 0, 0, 0
	for k, ip := range eni.IPv4 {
		if k == "10.0.0.2" {
			zz.Assert(ip.Status == networkv1beta1.IPStatusValid && ip.PodID == "ns/p0", "an address already on the interface is untouched")
			continue
		}
		if ip.Status == networkv1beta1.IPStatusValid {
			nValid4++
		} else {
			nDel4++
			zz.Assert(ip.IPName == "ipn-4", "the address recorded for release is the one the cloud assigned")
		}
	}
	for _, ip := range eni.IPv6 {
		if ip.Status == networkv1beta1.IPStatusValid {
			nValid6++
		} else {
			nDel6++
			zz.Assert(ip.IPName == "ipn-6", "the address recorded for release is the one the cloud assigned")
		}
	}
	zz.Assert(nValid4 == zz.IteInt(n4 > 0 && cloud.out4 == 0, n4, 0), "exactly the IPv4 addresses of a successful call are recorded as valid")
	zz.Assert(nDel4 == zz.IteInt(n4 > 0 && cloud.out4 == 2, 1, 0), "an IPv4 address the cloud assigned before the call failed is recorded as Deleting (released by the gc step, not forgotten)")
	zz.Assert(nValid6 == zz.IteInt(cloud.calls6 == 1 && cloud.out6 == 0, n6, 0), "exactly the IPv6 addresses of a successful call are recorded as valid")
	zz.Assert(nDel6 == zz.IteInt(cloud.calls6 == 1 && cloud.out6 == 2, 1, 0), "an IPv6 address the cloud assigned before the call failed is recorded as Deleting")
	zz.Assert(zz.Implies(nValid4+nValid6 > 0, MetaCtx(ctx).StatusChanged.Load()), "recording new addresses marks the status as changed")
}
