//go:build verif

package node

import (
	"strconv"

	"github.com/go-logr/logr"

	zz "github.com/AliyunContainerService/terway/internal/zzverif"
	aliyunClient "github.com/AliyunContainerService/terway/pkg/aliyun/client"
	networkv1beta1 "github.com/AliyunContainerService/terway/pkg/apis/network.alibabacloud.com/v1beta1"
)

type zzIPPre struct {
	ip      *networkv1beta1.IP
	eni     *networkv1beta1.NetworkInterface
	owner   string
	ownerID string
	v6      bool
}

var zzPodIDs = []string{"ns/p0", "ns/p1", "ns/p2"}

// zzRecord builds an arbitrary per-node IPAM record: nENI interfaces with
// nV4 IPv4 and nV6 IPv6 addresses each; every status/owner field symbolic.
func zzRecord(nENI, nV4, nV6, nOwners int) (map[string]*networkv1beta1.NetworkInterface, []*zzIPPre) {
	owners := append([]string{"", "ns/gone"}, zzPodIDs[:nOwners]...)
	enis := map[string]*networkv1beta1.NetworkInterface{}
	var all []*zzIPPre
	for e := 0; e < nENI; e++ {
		es := strconv.Itoa(e)
		eni := &networkv1beta1.NetworkInterface{
			ID:                          "eni-" + es,
			Status:                      zz.OneOf("eni"+es+".status", aliyunClient.ENIStatusInUse, aliyunClient.ENIStatusDeleting, aliyunClient.ENIStatusAttaching),
			NetworkInterfaceTrafficMode: networkv1beta1.NetworkInterfaceTrafficMode(zz.OneOf("eni"+es+".mode", string(networkv1beta1.NetworkInterfaceTrafficModeStandard), string(networkv1beta1.NetworkInterfaceTrafficModeHighPerformance))),
			NetworkInterfaceType:        networkv1beta1.ENITypeSecondary,
			IPv4:                        map[string]*networkv1beta1.IP{},
			IPv6:                        map[string]*networkv1beta1.IP{},
		}
		for i := 0; i < nV4+nV6; i++ {
			v6 := i >= nV4
			is := strconv.Itoa(i)
			addr := "10.0." + es + "." + is
			if v6 {
				addr = "fd00::" + es + ":" + is
			}
			n := "eni" + es + ".ip" + is
			ip := &networkv1beta1.IP{
				IP:      addr,
				Primary: zz.Bool(n + ".primary"),
				Status:  networkv1beta1.IPStatus(zz.OneOf(n+".status", string(networkv1beta1.IPStatusValid), string(networkv1beta1.IPStatusDeleting))),
				PodID:   zz.OneOf(n+".podID", owners...),
				PodUID:  zz.OneOf(n+".podUID", "", "uid-a", "uid-b"),
			}
			if v6 {
				eni.IPv6[addr] = ip
			} else {
				eni.IPv4[addr] = ip
			}
			all = append(all, &zzIPPre{ip: ip, eni: eni, owner: ip.PodID, ownerID: ip.PodUID, v6: v6})
		}
		enis[eni.ID] = eni
	}
	return enis, all
}

// record invariant R: within a family no two addresses carry the same
// non-empty owner; an owned IPv4/IPv6 pair of one pod sits on one interface.
func zzRecordInv(all []*zzIPPre, crossFamily bool) bool {
	var cs []bool
	for i, a := range all {
		for j, b := range all {
			if i >= j {
				continue
			}
			if a.v6 == b.v6 {
				cs = append(cs, zz.Implies(a.ip.PodID == b.ip.PodID, a.ip.PodID == ""))
			} else if a.eni != b.eni && crossFamily {
				cs = append(cs, zz.Implies(a.ip.PodID == b.ip.PodID, a.ip.PodID == ""))
			}
		}
	}
	return zz.And(cs...)
}

func zzPods(nPods int, all []*zzIPPre, v4, v6 bool) map[string]*PodRequest {
	v4opts := []string{"", "192.168.9.9"}
	v6opts := []string{"", "fd99::9"}
	for _, a := range all {
		if a.v6 {
			v6opts = append(v6opts, a.ip.IP)
		} else {
			v4opts = append(v4opts, a.ip.IP)
		}
	}
	pods := map[string]*PodRequest{}
	for p := 0; p < nPods; p++ {
		ps := strconv.Itoa(p)
		pods[zzPodIDs[p]] = &PodRequest{
			PodUID:       zz.OneOf("pod"+ps+".uid", "uid-a", "uid-b"),
			RequireIPv4:  v4,
			RequireIPv6:  v6,
			RequireERDMA: zz.Bool("pod" + ps + ".erdma"),
			IPv4:         zz.OneOf("pod"+ps+".ipv4", v4opts...),
			IPv6:         zz.OneOf("pod"+ps+".ipv6", v6opts...),
		}
	}
	return pods
}

func zzC02(nENI, nV4, nV6, nPods, nOwners int) {
	zzC02Body(nENI, nV4, nV6, nPods, nOwners, false)
}

func zzC02Body(nENI, nV4, nV6, nPods, nOwners int, singleStackOnly bool) {
	enis, all := zzRecord(nENI, nV4, nV6, nOwners)
	zz.Assume(zzRecordInv(all, true))
	// 12 shards: IP stack (v4 / v6 / dual) x node RDMA switch x pod0 RDMA request
	sh := zz.Shard(12)
	zz.Assume(!singleStackOnly || sh%3 != 2)
	v4 := sh%3 != 1
	v6 := sh%3 != 0
	erdma := (sh/3)%2 == 1
	pods := zzPods(nPods, all, v4, v6)
	zz.Assume(pods[zzPodIDs[0]].RequireERDMA == (sh/6 == 1))

	// buildIPMap's result does not depend on the iteration order when R holds
	// (each pod reference is written at most once per family): decided by
	// ZZ_C02_buildIPMap_order; here the order is fixed to save paths.
	zz.FixedMapOrder(true)
	ipv4Map, ipv6Map := buildIPMap(pods, enis)
	zz.FixedMapOrder(false)
	unsucc := assignIPFromLocalPool(logr.Discard(), pods, ipv4Map, ipv6Map, erdma)

	zz.Assert(zzRecordInv(all, false), "each address is bound to at most one pod and each pod to at most one address per family")
	for _, a := range all {
		created := zz.And(a.owner == "", a.ip.PodID != "")
		for p := 0; p < nPods; p++ {
			id := zzPodIDs[p]
			req := pods[id]
			mine := zz.And(created, a.ip.PodID == id)
			reported := req.IPv4
			if a.v6 {
				reported = req.IPv6
			}
			zz.Assert(zz.Implies(zz.And(mine, reported != ""), a.ip.IP == reported), "a pod that reports an address is re-adopted onto exactly that address")
			for q := 0; q < nPods; q++ {
				if q == p {
					continue
				}
				other := pods[zzPodIDs[q]].IPv4
				if a.v6 {
					other = pods[zzPodIDs[q]].IPv6
				}
				// the other pod has no binding of this family in the record yet (else the record, not the report, is authoritative)
				otherBound := false
				for _, b := range all {
					if b.v6 == a.v6 {
						otherBound = zz.Or(otherBound, b.owner == zzPodIDs[q])
					}
				}
				zz.Assert(zz.Implies(zz.And(mine, reported != a.ip.IP, !otherBound), other != a.ip.IP), "an address that a running pod of the request set reports as its own is never handed to another pod (take-over comes before free assignment)")
			}
			fresh := zz.And(mine, reported == "")
			zz.Assert(zz.Implies(fresh, zz.And(a.ip.Status == networkv1beta1.IPStatusValid, a.eni.Status == aliyunClient.ENIStatusInUse)),
				"a new binding is only made to a valid address on an attached, in-use interface")
			isRDMA := a.eni.NetworkInterfaceTrafficMode == networkv1beta1.NetworkInterfaceTrafficModeHighPerformance
			zz.Assert(zz.Implies(zz.And(fresh, req.RequireERDMA), isRDMA), "RDMA pods only get RDMA interfaces")
			zz.Assert(zz.Implies(zz.And(fresh, !req.RequireERDMA, erdma), !isRDMA), "other pods never get RDMA interfaces when RDMA is enabled")
			zz.Assert(zz.Implies(mine, a.ip.PodUID == req.PodUID), "a new binding records the pod's UID")
			_, failed := unsucc[id]
			zz.Assert(zz.Implies(zz.And(fresh, failed), false), "a pod reported as not served keeps no newly created binding")
		}
		known := a.ip.PodID == "" || a.ip.PodID == a.owner
		for p := 0; p < nPods; p++ {
			known = zz.Or(known, a.ip.PodID == zzPodIDs[p])
		}
		zz.Assert(known, "addresses are only bound to pods of the request set")
	}
	for p := 0; p < nPods; p++ {
		id := zzPodIDs[p]
		req := pods[id]
		_, failed := unsucc[id]
		served := zz.And(zz.Implies(req.RequireIPv4, req.ipv4Ref != nil), zz.Implies(req.RequireIPv6, req.ipv6Ref != nil))
		zz.Assert(zz.Or(failed, served), "every pod is either served for each required family or reported as not served")
		if req.ipv4Ref != nil {
			zz.Assert(req.ipv4Ref.IP.PodID == id, "a pod's IPv4 reference points to an address it owns")
		}
		if req.ipv6Ref != nil {
			zz.Assert(req.ipv6Ref.IP.PodID == id, "a pod's IPv6 reference points to an address it owns")
		}
		if req.RequireIPv4 && req.RequireIPv6 && req.ipv4Ref != nil && req.ipv6Ref != nil && req.IPv4 == "" && req.IPv6 == "" {
			// was the pod's IPv6 binding already in the record before this pass?
			v6Pre := false
			for _, a := range all {
				if a.v6 {
					v6Pre = zz.Or(v6Pre, a.owner == id)
				}
			}
			same := req.ipv4Ref.NetworkInterface == req.ipv6Ref.NetworkInterface
			zz.Assert(zz.Implies(!v6Pre, same), "dual-stack addresses chosen for a pod come from the same interface")
			zz.Assert(zz.Implies(v6Pre, same), "an IPv4 address chosen for a pod that already holds an IPv6 address comes from the same interface")
		}
	}
	zz.Reach("done")
}

// buildIPMap is insensitive to map iteration order under R.
func ZZ_C02_buildIPMap_order() {
	enis, all := zzRecord(2, 1, 1, 2)
	zz.Assume(zzRecordInv(all, false))
	podsA := zzPods(2, all, true, true)
	podsB := map[string]*PodRequest{}
	for k, v := range podsA {
		c := *v
		podsB[k] = &c
	}
	a4, a6 := buildIPMap(podsA, enis)
	b4, b6 := buildIPMap(podsB, enis)
	zz.FixedMapOrder(true)
	ok := len(a4) == len(b4) && len(a6) == len(b6)
	for k, v := range a4 {
		w := b4[k]
		ok = zz.And(ok, w != nil && v.IP == w.IP && v.NetworkInterface == w.NetworkInterface)
	}
	for k, v := range a6 {
		w := b6[k]
		ok = zz.And(ok, w != nil && v.IP == w.IP && v.NetworkInterface == w.NetworkInterface)
	}
	for k, pa := range podsA {
		pb := podsB[k]
		if (pa.ipv4Ref == nil) != (pb.ipv4Ref == nil) || (pa.ipv6Ref == nil) != (pb.ipv6Ref == nil) {
			ok = false
			continue
		}
		if pa.ipv4Ref != nil {
			ok = zz.And(ok, pa.ipv4Ref.IP == pb.ipv4Ref.IP)
		}
		if pa.ipv6Ref != nil {
			ok = zz.And(ok, pa.ipv6Ref.IP == pb.ipv6Ref.IP)
		}
	}
	zz.Assert(ok, "the binding index rebuilt from the record does not depend on map iteration order")
}

// C02 bounds.  quick: (a) 2 interfaces x (1 IPv4 + 1 IPv6), one pod; (b) one
// interface with 2 IPv4 + 1 IPv6 and two competing pods, one of which may be
// bound already (quick: single-stack nodes only).  thorough adds (c): 2 interfaces x (1+1), two pods, both
// possibly bound.  All map iteration orders inside assignIPFromLocalPool.
// zz:repeat 64
func ZZ_C02_assign_2eni_1pod() { zzC02(2, 1, 1, 1, 1) }

// zz:repeat 64
func ZZ_C02_assign_1eni_2pods() {
	// dual-stack with two competing pods is thorough-only (70k paths per shard)
	zzC02Body(1, 2, 1, 2, 1, zz.Tier() == 0)
}

// zz:repeat 512
func ZZ_C02_assign_2eni_2pods() {
	if zz.Tier() == 0 {
		zz.Reach("done")
		return
	}
	// single-stack nodes only: dual stack with two interfaces and two competing pods exceeds 200k paths
	// per shard (dual stack is covered with one pod on two interfaces and with two pods on one interface)
	zzC02Body(2, 1, 1, 2, 2, true)
}

// C02 (an address is only bound to a pod while its interface is attached and
// in use): the pool trim is the step that can take an interface out of use.
// Arbitrary interface (IPv4 and IPv6 entries with arbitrary owners and
// statuses, arbitrary surplus): afterwards no entry of either family that is
// bound to a pod sits on an interface marked for deletion.
// zz:repeat 64
func ZZ_C02_bound_only_on_live_interface() {
	eni, slots := zzENI("eni0", 2, 1+zz.Tier())
	toDel := zz.IntRange("toDel", -1, 4)
	releaseUnUsedIP(logr.Discard(), eni, toDel)
	for _, s := range slots {
		zz.Assert(zz.Implies(s.ip.PodID != "", eni.Status != aliyunClient.ENIStatusDeleting), "an address bound to a pod (IPv4 or IPv6) never sits on an interface the trim gave up")
		zz.Assert(zz.Implies(s.ip.PodID != "", s.ip.Status != networkv1beta1.IPStatusDeleting || s.status == networkv1beta1.IPStatusDeleting), "an address bound to a pod is never newly marked for release")
	}
}
