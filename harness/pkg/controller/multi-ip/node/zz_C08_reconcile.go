//go:build verif

package node

import (
	"context"
	"sync/atomic"
	"time"

	"go.opentelemetry.io/otel/trace/noop"
	corev1 "k8s.io/api/core/v1"
	metav1 "k8s.io/apimachinery/pkg/apis/meta/v1"
	"k8s.io/apimachinery/pkg/runtime"
	k8stypes "k8s.io/apimachinery/pkg/types"
	"sigs.k8s.io/controller-runtime/pkg/client"
	"sigs.k8s.io/controller-runtime/pkg/reconcile"

	zz "github.com/AliyunContainerService/terway/internal/zzverif"
	aliyunClient "github.com/AliyunContainerService/terway/pkg/aliyun/client"
	networkv1beta1 "github.com/AliyunContainerService/terway/pkg/apis/network.alibabacloud.com/v1beta1"
)

type zzReconcileClient struct {
	client.Client
	node        *networkv1beta1.Node
	updateFails bool
	updates     int
}

func (c *zzReconcileClient) Get(ctx context.Context, key client.ObjectKey, obj client.Object, opts ...client.GetOption) error {
	c.node.DeepCopyInto(obj.(*networkv1beta1.Node))
	return nil
}
func (c *zzReconcileClient) List(ctx context.Context, list client.ObjectList, opts ...client.ListOption) error {
	list.(*corev1.PodList).Items = nil
	return nil
}
func (c *zzReconcileClient) Status() client.SubResourceWriter { return &zzReconcileStatus{c: c} }

type zzReconcileStatus struct {
	client.SubResourceWriter
	c *zzReconcileClient
}

func (w *zzReconcileStatus) Update(ctx context.Context, obj client.Object, opts ...client.SubResourceUpdateOption) error {
	w.c.updates++
	if w.c.updateFails {
		return errZZGet // e.g. an optimistic-lock conflict
	}
	return nil
}

// C08 (record == cloud after the round that follows a failure): one whole
// Reconcile of the node controller around its two summarised halves.  The
// round may change the cloud (interface created, address assigned / removed:
// the halves then set the per-node flag StatusChanged) and always ends by
// writing the record when it differs.  When that write fails after the cloud
// was changed, the next round must re-read the cloud before it plans anything
// (NeedSyncOpenAPI), otherwise it plans from a record that lacks what was
// just created and asks for it again - beyond the per-interface / flavor
// quota; the flag is consumed by that.  A successful write, or a failed write
// of a round that did not touch the cloud, requests nothing.
// zz:noreplay syncWithAPI / syncPods are summarised through engine-side overrides (they have harnesses of their own)
func ZZ_C08_reconcile_update_failure() {
	node := &networkv1beta1.Node{ObjectMeta: metav1.ObjectMeta{Name: "n1"}}
	node.Spec.NodeMetadata = networkv1beta1.NodeMetadata{InstanceID: "i-1", InstanceType: "t", RegionID: "r", ZoneID: "z"}
	node.Spec.ENISpec = &networkv1beta1.ENISpec{EnableIPv4: true}
	node.Spec.Pool = &networkv1beta1.PoolSpec{}
	node.Spec.NodeCap.Adapters = 4
	node.Status.NetworkInterfaces = map[string]*networkv1beta1.NetworkInterface{"eni-1": {ID: "eni-1", Status: aliyunClient.ENIStatusInUse}}
	node.Status.NextSyncOpenAPITime = metav1.NewTime(time.Unix(9214646400, 0)) // no periodic full sync due
	cl := &zzReconcileClient{node: node, updateFails: zz.Bool("status.update.fails")}
	n := &ReconcileNode{client: cl, tracer: noop.NewTracerProvider().Tracer("zz")}
	st := &NodeStatus{NeedSyncOpenAPI: &atomic.Bool{}, StatusChanged: &atomic.Bool{}}
	flagBefore := zz.Bool("flag.set.by.an.earlier.round")
	st.StatusChanged.Store(flagBefore)
	n.cache.Store("n1", st)
	cloudChanged := zz.Bool("round.changes.the.cloud")
	recordChanged := zz.Bool("round.changes.the.record")
	syncCalls := 0
	zz.Override("(*github.com/AliyunContainerService/terway/pkg/controller/multi-ip/node.ReconcileNode).syncWithAPI", func(r *ReconcileNode, ctx context.Context, nd *networkv1beta1.Node) error {
		syncCalls++
		zz.Assert(!MetaCtx(ctx).NeedSyncOpenAPI.Load(), "no cloud re-read is pending at the start of this round")
		return nil
	})
	zz.Override("(*github.com/AliyunContainerService/terway/pkg/controller/multi-ip/node.ReconcileNode).syncPods", func(r *ReconcileNode, ctx context.Context, pods map[string]*PodRequest, nd *networkv1beta1.Node) error {
		if cloudChanged {
			MetaCtx(ctx).StatusChanged.Store(true) // what createENI / assignIP / handleStatus do
		}
		if recordChanged || cloudChanged {
			nd.Status.NetworkInterfaces["eni-2"] = &networkv1beta1.NetworkInterface{ID: "eni-2", Status: aliyunClient.ENIStatusInUse}
		}
		return nil
	})
	// the status documents are compared through the unstructured converter (reflection): summarised by the set of interface ids
	zz.Override("(*k8s.io/apimachinery/pkg/runtime.unstructuredConverter).ToUnstructured", func(c any, obj interface{}) (map[string]interface{}, error) {
		s := obj.(*networkv1beta1.NodeStatus)
		return map[string]interface{}{"interfaces": len(s.NetworkInterfaces)}, nil
	})
	_ = runtime.DefaultUnstructuredConverter
	_, err := n.Reconcile(context.Background(), reconcile.Request{NamespacedName: k8stypes.NamespacedName{Name: "n1"}})
	wrote := recordChanged || cloudChanged
	zz.Assert(syncCalls == 1 && cl.updates == map[bool]int{true: 1, false: 0}[wrote], "the record is written exactly when the round changed it")
	dirty := flagBefore || cloudChanged
	if wrote && cl.updateFails {
		zz.Assert(err != nil, "a failed write of the record is reported (the round is retried)")
		zz.Assert(st.NeedSyncOpenAPI.Load() == dirty, "when the record could not be written after the cloud was changed, the next round re-reads the cloud first - and only then")
		zz.Assert(zz.Implies(dirty, !st.StatusChanged.Load()), "the flag is consumed by the request for a re-read")
	} else {
		zz.Assert(!st.NeedSyncOpenAPI.Load(), "a round whose record was written (or did not change) requests no re-read")
		zz.Assert(st.StatusChanged.Load() == dirty, "the flag stays set until a failed write consumes it")
	}
}
