//go:build verif

package node

import (
	"strconv"
	"time"

	"go.opentelemetry.io/otel/trace/noop"

	zz "github.com/AliyunContainerService/terway/internal/zzverif"
	aliyunClient "github.com/AliyunContainerService/terway/pkg/aliyun/client"
	networkv1beta1 "github.com/AliyunContainerService/terway/pkg/apis/network.alibabacloud.com/v1beta1"
)

// C08 / C03 (pool trimming): the periodic trim marks idle addresses for
// release only down to the max-pool watermark.  Two interfaces with two IPv4
// addresses each (one of them the interface's primary address), arbitrary
// owners and statuses, arbitrary watermark, every map order: an address with
// an owner and a primary address are never marked; an interface is given up
// only when none of its addresses has an owner; the idle reserve is never
// trimmed below min(idle before, watermark); inside the gc period nothing
// happens.
// zz:repeat 64
func ZZ_C08_adjust_pool() { zzAdjustPool(false) }

// The same on an IPv6-only node: every interface carries just its (unowned)
// primary IPv4 address, the pods' addresses are the IPv6 ones - ownership in
// either family keeps the interface.
// zz:repeat 64
func ZZ_C08_adjust_pool_ipv6_only() { zzAdjustPool(true) }

func zzAdjustPool(v6only bool) {
	node := &networkv1beta1.Node{}
	node.Spec.ENISpec = &networkv1beta1.ENISpec{EnableIPv4: !v6only, EnableIPv6: v6only}
	keep := zz.Shard(5) // the max-pool watermark, one shard per value 0..4
	node.Spec.Pool = &networkv1beta1.PoolSpec{MaxPoolSize: keep}
	node.Status.NetworkInterfaces = map[string]*networkv1beta1.NetworkInterface{}
	type pre struct {
		eni           *networkv1beta1.NetworkInterface
		ip            *networkv1beta1.IP
		owner, status string
	}
	var all []pre
	idleBefore := 0
	for e := 0; e < 2; e++ {
		es := strconv.Itoa(e)
		eni := &networkv1beta1.NetworkInterface{ID: "eni-" + es, Status: aliyunClient.ENIStatusInUse, NetworkInterfaceType: networkv1beta1.ENITypeSecondary,
			NetworkInterfaceTrafficMode: networkv1beta1.NetworkInterfaceTrafficModeStandard, IPv4: map[string]*networkv1beta1.IP{}, IPv6: map[string]*networkv1beta1.IP{}}
		if v6only {
			k := "10.0." + es + ".1"
			eni.IPv4[k] = &networkv1beta1.IP{IP: k, Primary: true, Status: networkv1beta1.IPStatusValid}
		}
		for i := 0; i < 2; i++ {
			k := "10.0." + es + "." + strconv.Itoa(i+1)
			if v6only {
				k = "fd00:" + es + "::" + strconv.Itoa(i+1)
			}
			ip := &networkv1beta1.IP{IP: k, Primary: i == 0 && !v6only,
				Status: networkv1beta1.IPStatusValid,
				PodID:  []string{"", "ns/p" + es + strconv.Itoa(i)}[zz.Fork(k+".owned", 2)]}
			if i == 1 && zz.Bool(k+".already.deleting") {
				ip.Status = networkv1beta1.IPStatusDeleting
			}
			if v6only {
				eni.IPv6[k] = ip
			} else {
				eni.IPv4[k] = ip
			}
			all = append(all, pre{eni, ip, ip.PodID, string(ip.Status)})
			if ip.PodID == "" && ip.Status == networkv1beta1.IPStatusValid {
				idleBefore++
			}
		}
		node.Status.NetworkInterfaces[eni.ID] = eni
	}
	n := &ReconcileNode{gcPeriod: time.Minute, tracer: noop.NewTracerProvider().Tracer("zz")}
	ctx := zzNodeCtx()
	recently := zz.Bool("trimmed.recently")
	if recently {
		MetaCtx(ctx).LastGCTime = time.Unix(9214646400, 0) // not earlier than any instant the symbolic clock shows: "the last trim was less than a period ago"
	}
	err := n.adjustPool(ctx, node)
	zz.Assert(err == nil, "trimming never fails")
	idleAfter := 0
	for _, p := range all {
		zz.Assert(p.ip.PodID == p.owner, "trimming never changes an owner")
		changed := string(p.ip.Status) != p.status
		if changed {
			zz.Assert(!recently, "nothing is trimmed inside the gc period")
			zz.Assert(p.ip.Status == networkv1beta1.IPStatusDeleting && p.owner == "" && !p.ip.Primary, "only unowned, non-primary addresses are marked for release")
		}
		if p.eni.Status == aliyunClient.ENIStatusInUse && p.ip.PodID == "" && p.ip.Status == networkv1beta1.IPStatusValid {
			idleAfter++
		}
	}
	for _, id := range []string{"eni-0", "eni-1"} {
		eni := node.Status.NetworkInterfaces[id]
		if eni.Status != aliyunClient.ENIStatusInUse {
			zz.Assert(!recently && eni.Status == aliyunClient.ENIStatusDeleting, "an interface is only ever moved to Deleting, and not inside the gc period")
			for _, ip := range eni.IPv4 {
				zz.Assert(ip.PodID == "", "an interface is given up only when none of its addresses has an owner")
			}
			for _, ip := range eni.IPv6 {
				zz.Assert(ip.PodID == "", "an interface is given up only when none of its addresses (of either family) has an owner")
			}
		}
	}
	zz.Assert(idleAfter >= min(idleBefore, keep), "the idle reserve is never trimmed below the max-pool watermark")
}
