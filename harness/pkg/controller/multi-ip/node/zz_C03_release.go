//go:build verif

package node

import (
	"context"
	"errors"
	"strconv"

	"github.com/go-logr/logr"
	metav1 "k8s.io/apimachinery/pkg/apis/meta/v1"
	"sigs.k8s.io/controller-runtime/pkg/client"

	zz "github.com/AliyunContainerService/terway/internal/zzverif"
	aliyunClient "github.com/AliyunContainerService/terway/pkg/aliyun/client"
	networkv1beta1 "github.com/AliyunContainerService/terway/pkg/apis/network.alibabacloud.com/v1beta1"
)

// zzRuntimeClient: an API client whose Get of the NodeRuntime yields an
// arbitrary document or fails.
type zzRuntimeClient struct {
	client.Client
	fail    bool
	runtime *networkv1beta1.NodeRuntime
}

var errZZGet = errors.New("get failed")

func (c *zzRuntimeClient) Get(ctx context.Context, key client.ObjectKey, obj client.Object, opts ...client.GetOption) error {
	if c.fail {
		return errZZGet
	}
	nr := obj.(*networkv1beta1.NodeRuntime)
	*nr = *c.runtime
	return nil
}

type zzRT struct {
	present bool
	hasI    bool
	hasD    bool
	dAfterI bool // deleted strictly newer than initial
	iAfterD bool // initial strictly newer than deleted
}

// zzRuntimeDoc builds an arbitrary NodeRuntime for the given pod UIDs.
func zzRuntimeDoc(uids []string) (*networkv1beta1.NodeRuntime, map[string]*zzRT) {
	nr := &networkv1beta1.NodeRuntime{}
	nr.Status.Pods = map[string]*networkv1beta1.RuntimePodStatus{}
	info := map[string]*zzRT{}
	for _, u := range uids {
		r := &zzRT{present: zz.Bool("rt." + u + ".present")}
		info[u] = r
		if !r.present {
			continue
		}
		ps := &networkv1beta1.RuntimePodStatus{Status: map[networkv1beta1.CNIStatus]*networkv1beta1.CNIStatusInfo{}}
		ti, td := zz.Time("rt."+u+".t.initial"), zz.Time("rt."+u+".t.deleted")
		r.hasI, r.hasD = zz.Bool("rt."+u+".initial"), zz.Bool("rt."+u+".deleted")
		if r.hasI {
			ps.Status[networkv1beta1.CNIStatusInitial] = &networkv1beta1.CNIStatusInfo{LastUpdateTime: metav1.Time{Time: ti}}
		}
		if r.hasD {
			ps.Status[networkv1beta1.CNIStatusDeleted] = &networkv1beta1.CNIStatusInfo{LastUpdateTime: metav1.Time{Time: td}}
		}
		r.dAfterI = td.After(ti)
		r.iAfterD = ti.After(td)
		nr.Status.Pods[u] = ps
	}
	return nr, info
}

// C03(a,d): an address is unbound only when the pod is absent AND (no UID was
// recorded OR the node agent's latest report for that UID is "deleted"); once
// that is the case the address does become free; a failing NodeRuntime read
// unbinds nothing; a present pod is never unbound.
// zz:repeat 64
func ZZ_C03_release_pod_not_found() {
	uids := []string{"uid-a", "uid-b"}
	nr, rt := zzRuntimeDoc(uids)
	cl := &zzRuntimeClient{fail: zz.Bool("get.fails"), runtime: nr}
	// live pods
	pods := map[string]*PodRequest{}
	if zz.Bool("pod0.exists") {
		pods["ns/p0"] = &PodRequest{PodUID: zz.OneOf("pod0.uid", "uid-a", "uid-b")}
	}
	// record: 2 addresses (one per family) with arbitrary owner / uid
	eni := &networkv1beta1.NetworkInterface{ID: "eni-0", Status: aliyunClient.ENIStatusInUse}
	type slot struct {
		ip    *networkv1beta1.IP
		owner string
		uid   string
	}
	var slots []slot
	v4, v6 := map[string]*EniIP{}, map[string]*EniIP{}
	for i := 0; i < 2; i++ {
		is := strconv.Itoa(i)
		ip := &networkv1beta1.IP{IP: "10.0.0." + is, Status: networkv1beta1.IPStatusValid,
			PodID:  zz.OneOf("ip"+is+".podID", "", "ns/p0", "ns/gone"),
			PodUID: zz.OneOf("ip"+is+".podUID", "", "uid-a", "uid-b")}
		slots = append(slots, slot{ip, ip.PodID, ip.PodUID})
		if i == 0 {
			v4[ip.IP] = &EniIP{NetworkInterface: eni, IP: ip}
		} else {
			v6[ip.IP] = &EniIP{NetworkInterface: eni, IP: ip}
		}
	}

	releasePodNotFound(context.Background(), cl, "node", pods, v4, v6)

	for _, s := range slots {
		_, live := pods[s.owner]
		cleared := zz.And(s.owner != "", s.ip.PodID == "")
		zz.Assert(zz.Or(s.ip.PodID == s.owner, s.ip.PodID == ""), "an address is never re-bound to another pod by the release pass")
		zz.Assert(zz.Implies(cl.fail, zz.And(s.ip.PodID == s.owner, s.ip.PodUID == s.uid)), "when the node agent's report cannot be read nothing is released")
		zz.Assert(zz.Implies(live, s.ip.PodID == s.owner), "an address bound to a pod that still exists is never unbound")
		if live {
			zz.Assert(zz.Implies(!cl.fail, s.ip.PodUID == pods[s.owner].PodUID), "for a present pod only the recorded UID is refreshed")
		}
		// decision for vanished pods with a recorded UID
		for _, u := range []string{"uid-a", "uid-b"} {
			r := rt[u]
			reportedDeleted := zz.And(r.present, r.hasD, zz.Or(!r.hasI, !r.iAfterD)) // deleted is (one of) the latest
			surelyDeleted := zz.And(r.present, r.hasD, zz.Or(!r.hasI, r.dAfterI))    // deleted strictly latest
			zz.Assert(zz.Implies(zz.And(cleared, s.uid == u), reportedDeleted), "an address of a vanished pod is unbound only after the node agent reported the pod's teardown (latest status deleted)")
			zz.Assert(zz.Implies(zz.And(!cl.fail, !live, s.owner != "", s.uid == u, surelyDeleted), s.ip.PodID == ""), "once the pod is gone and teardown is reported the address becomes free")
		}
		zz.Assert(zz.Implies(zz.And(!cl.fail, !live, s.owner != "", s.uid == ""), s.ip.PodID == ""), "a binding without recorded UID of a vanished pod is released")
		zz.Assert(zz.Implies(s.ip.PodID == "", s.ip.PodUID == "" || s.owner == ""), "unbinding clears the UID as well")
	}
}

type zzENISlot struct {
	ip      *networkv1beta1.IP
	owner   string
	status  networkv1beta1.IPStatus
	primary bool
	v6      bool
}

func zzENI(name string, nV4, nV6 int) (*networkv1beta1.NetworkInterface, []*zzENISlot) {
	eni := &networkv1beta1.NetworkInterface{
		ID:                          name,
		Status:                      aliyunClient.ENIStatusInUse,
		NetworkInterfaceType:        networkv1beta1.ENIType(zz.OneOf(name+".type", string(networkv1beta1.ENITypeSecondary), string(networkv1beta1.ENITypeTrunk), string(networkv1beta1.ENITypePrimary))),
		NetworkInterfaceTrafficMode: networkv1beta1.NetworkInterfaceTrafficMode(zz.OneOf(name+".mode", string(networkv1beta1.NetworkInterfaceTrafficModeStandard), string(networkv1beta1.NetworkInterfaceTrafficModeHighPerformance))),
		IPv4:                        map[string]*networkv1beta1.IP{},
		IPv6:                        map[string]*networkv1beta1.IP{},
	}
	var slots []*zzENISlot
	for i := 0; i < nV4+nV6; i++ {
		is := strconv.Itoa(i)
		n := name + ".ip" + is
		ip := &networkv1beta1.IP{
			IP:      name + "-addr-" + is,
			Primary: zz.Bool(n + ".primary"),
			Status:  networkv1beta1.IPStatus(zz.OneOf(n+".status", string(networkv1beta1.IPStatusValid), string(networkv1beta1.IPStatusDeleting))),
			PodID:   zz.OneOf(n+".podID", "", "ns/p0"),
		}
		// record invariant: an address scheduled for deletion has no owner
		zz.Assume(zz.Implies(ip.Status == networkv1beta1.IPStatusDeleting, ip.PodID == ""))
		if i >= nV4 {
			eni.IPv6[ip.IP] = ip
		} else {
			eni.IPv4[ip.IP] = ip
		}
		slots = append(slots, &zzENISlot{ip: ip, owner: ip.PodID, status: ip.Status, primary: ip.Primary, v6: i >= nV4})
	}
	return eni, slots
}

// C03(c): pool trimming marks for deletion only unowned, non-primary
// addresses, and gives up a whole interface only if no address on it (of
// either family) is bound to a pod and it is an ordinary secondary interface.
// zz:repeat 64
func ZZ_C03_release_unused_ip() {
	nV4, nV6 := 2, 1
	if zz.Tier() > 0 {
		nV4, nV6 = 2, 2
	}
	eni, slots := zzENI("eni0", nV4, nV6)
	toDel := zz.IntRange("toDel", -1, 4)
	n := releaseUnUsedIP(logr.Discard(), eni, toDel)

	anyOwned := false
	newlyMarked4, newlyMarked6 := 0, 0
	for _, s := range slots {
		anyOwned = zz.Or(anyOwned, s.owner != "")
		marked := zz.And(s.status != networkv1beta1.IPStatusDeleting, s.ip.Status == networkv1beta1.IPStatusDeleting)
		zz.Assert(zz.Implies(marked, zz.And(s.owner == "", !s.primary)), "only unowned, non-primary addresses are marked for deletion")
		zz.Assert(s.ip.PodID == s.owner, "trimming never changes who owns an address")
		zz.Assert(zz.Implies(s.status == networkv1beta1.IPStatusDeleting, s.ip.Status == networkv1beta1.IPStatusDeleting), "an address already scheduled for deletion stays scheduled")
		if s.v6 {
			newlyMarked6 += zz.IteInt(marked, 1, 0)
		} else {
			newlyMarked4 += zz.IteInt(marked, 1, 0)
		}
	}
	eniGone := eni.Status == aliyunClient.ENIStatusDeleting
	zz.Assert(zz.Implies(eniGone, !anyOwned), "an interface is given up only if none of its addresses (IPv4 or IPv6) is bound to a pod")
	zz.Assert(zz.Implies(eniGone, zz.And(eni.NetworkInterfaceType == networkv1beta1.ENITypeSecondary, eni.NetworkInterfaceTrafficMode == networkv1beta1.NetworkInterfaceTrafficModeStandard)), "only ordinary secondary interfaces are given up (never trunk / RDMA / primary)")
	zz.Assert(zz.Implies(toDel <= 0, zz.And(!eniGone, newlyMarked4 == 0, newlyMarked6 == 0)), "nothing is trimmed when there is no surplus")
	zz.Assert(zz.Implies(!eniGone, zz.And(newlyMarked4 <= max(toDel, 0), newlyMarked6 <= max(toDel, 0))), "no more than the surplus is trimmed per family")
	zz.Assert(zz.Implies(!eniGone, n == max(newlyMarked4, newlyMarked6)), "the reported count is what was actually trimmed")
}

// C03: the assignment pass never takes an address away from a pod that still
// exists (bound in the record before the pass, pod present in the request set).
// zz:repeat 64
func ZZ_C03_assign_keeps_existing() {
	enis, all := zzRecord(1, 1, 1, 1)
	zz.Assume(zzRecordInv(all, true))
	pods := zzPods(2, all, true, true) // dual-stack node, two live pods
	zz.FixedMapOrder(true)
	ipv4Map, ipv6Map := buildIPMap(pods, enis)
	zz.FixedMapOrder(false)
	_ = assignIPFromLocalPool(logr.Discard(), pods, ipv4Map, ipv6Map, false)
	for _, a := range all {
		pr, live := pods[a.owner]
		if !live {
			continue
		}
		// the recorded finding (known_findings.json) is about a pod that does not report the
		// address yet; an address the pod *reports as its own* is a separate obligation, so
		// that the finding cannot hide it
		if (a.v6 && pr.IPv6 == a.ip.IP) || (!a.v6 && pr.IPv4 == a.ip.IP) {
			zz.Assert(a.ip.PodID == a.owner, "an address that an existing pod reports as its own is neither unbound nor handed to another pod by the assignment pass")
		} else if a.v6 {
			zz.Assert(a.ip.PodID == a.owner, "an IPv6 address bound to a pod that still exists is neither unbound nor handed to another pod by the assignment pass")
		} else {
			zz.Assert(a.ip.PodID == a.owner, "an address bound to a pod that still exists is neither unbound nor handed to another pod by the assignment pass")
		}
	}
}
