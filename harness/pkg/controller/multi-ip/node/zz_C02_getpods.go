//go:build verif

package node

// C02 input: the demand (families, RDMA) and the reported addresses that the
// assignment pass works from are derived per pod, independently of the pods
// listed before it (same exploration as ZZ_C03_get_pods).
func ZZ_C02_get_pods() { ZZ_C03_get_pods() }
