//go:build verif

package node

import (
	zz "github.com/AliyunContainerService/terway/internal/zzverif"
	networkv1beta1 "github.com/AliyunContainerService/terway/pkg/apis/network.alibabacloud.com/v1beta1"
)

// C02 (an address stays bound to one pod until that pod gives it up): merging
// the cloud's answer to an assign call into the record.  The answer never
// carries an owner; it may name an address the record already holds (an
// idempotent replay of an earlier request whose answer was lost).  Whatever
// the recorded entry looks like - idle or bound, any status - a bound entry
// keeps its pod and pod instance, an idle one stays idle, the status and the
// primary flag follow the cloud, and a new address is added as the cloud
// describes it; no other entry is touched.
func ZZ_C02_merge_assign_answer() {
	rec := map[string]*networkv1beta1.IP{}
	other := &networkv1beta1.IP{IP: "10.0.0.9", Status: networkv1beta1.IPStatusValid, PodID: "ns/other", PodUID: "uid-o"}
	rec[other.IP] = other
	known := zz.Bool("address.already.recorded")
	owner := zz.OneOf("recorded.owner", "", "ns/p0")
	uid := ""
	if owner != "" {
		uid = zz.OneOf("recorded.owner.uid", "uid-a", "uid-b")
	}
	var before *networkv1beta1.IP
	if known {
		before = &networkv1beta1.IP{IP: "10.0.0.2", Status: networkv1beta1.IPStatus(zz.OneOf("recorded.status", string(networkv1beta1.IPStatusValid), string(networkv1beta1.IPStatusDeleting))), PodID: owner, PodUID: uid, IPName: "name-old"}
		rec[before.IP] = before
	}
	answer := &networkv1beta1.IP{IP: "10.0.0.2", Status: networkv1beta1.IPStatusValid, Primary: zz.Bool("answer.primary"), IPName: "name-new"}
	addIPToMap(rec, answer)
	got := rec["10.0.0.2"]
	zz.Assert(got != nil && len(rec) == 2, "the address is in the record, nothing else was added or dropped")
	if got == nil {
		return
	}
	zz.Assert(got.Status == networkv1beta1.IPStatusValid && got.Primary == answer.Primary, "status and primary flag follow the cloud's answer")
	if known {
		zz.Assert(got.PodID == owner && got.PodUID == uid, "an address the record already binds to a pod keeps that pod and pod instance (an idle one stays idle)")
	} else {
		zz.Assert(got.PodID == "" && got.PodUID == "", "a new address comes in idle")
	}
	zz.Assert(other.PodID == "ns/other" && other.PodUID == "uid-o" && other.Status == networkv1beta1.IPStatusValid, "other entries are untouched")
}
