//go:build verif

package node

import (
	"context"

	"go.opentelemetry.io/otel/trace/noop"
	corev1 "k8s.io/api/core/v1"
	"k8s.io/apimachinery/pkg/api/resource"
	k8stypes "k8s.io/apimachinery/pkg/types"
	"sigs.k8s.io/controller-runtime/pkg/client"

	"github.com/AliyunContainerService/terway/deviceplugin"
	zz "github.com/AliyunContainerService/terway/internal/zzverif"
	networkv1beta1 "github.com/AliyunContainerService/terway/pkg/apis/network.alibabacloud.com/v1beta1"
	"github.com/AliyunContainerService/terway/types"
)

type zzPodLister struct {
	client.Client
	pods []corev1.Pod
	fail bool
}

func (c *zzPodLister) List(ctx context.Context, list client.ObjectList, opts ...client.ListOption) error {
	if c.fail {
		return errZZGet
	}
	list.(*corev1.PodList).Items = c.pods
	return nil
}

type zzPodShape struct {
	hostNet, useENI, exited, erdma bool
	v4, v6                         string
}

func zzListedPod(name string, full bool) (corev1.Pod, zzPodShape) {
	p := corev1.Pod{}
	p.Namespace, p.Name, p.UID = "ns", name, k8stypes.UID("uid-"+name)
	var s zzPodShape
	if !full {
		// reduced shape for the two-pod harness: one reason to be skipped at most
		switch zz.Fork(name+".skipped.because", 4) {
		case 1:
			p.Spec.HostNetwork, s.hostNet = true, true
		case 2:
			p.Annotations, s.useENI = map[string]string{types.PodENI: "true"}, true
		case 3:
			p.Status.Phase, s.exited = corev1.PodFailed, true
		}
		ip4, ip6 := "10.0.0."+name[len(name)-1:], "fd00::"+name[len(name)-1:]
		if zz.Bool(name + ".reports.addresses") {
			p.Status.PodIP, p.Status.PodIPs, s.v4, s.v6 = ip4, []corev1.PodIP{{IP: ip4}, {IP: ip6}}, ip4, ip6
		}
		if zz.Bool(name + ".wants.erdma") {
			s.erdma = true
			c := corev1.Container{Name: "c"}
			c.Resources.Limits = corev1.ResourceList{deviceplugin.ERDMAResName: *resource.NewQuantity(1, resource.DecimalSI)}
			p.Spec.Containers = []corev1.Container{c}
		}
		return p, s
	}
	s.hostNet = zz.Bool(name + ".hostNetwork")
	p.Spec.HostNetwork = s.hostNet
	switch zz.Fork(name+".podeni.annotation", 4) {
	case 1:
		p.Annotations = map[string]string{types.PodENI: "true"}
		s.useENI = true
	case 2:
		p.Annotations = map[string]string{types.PodENI: "false"}
	case 3:
		p.Annotations = map[string]string{types.PodENI: "yes"} // not a boolean: ignored
	}
	p.Status.Phase = corev1.PodPhase(zz.OneOf(name+".phase", "Pending", "Running", "Succeeded", "Failed", "Unknown", ""))
	s.exited = p.Status.Phase == corev1.PodSucceeded || p.Status.Phase == corev1.PodFailed
	ip4, ip6 := "10.0.0."+name[len(name)-1:], "fd00::"+name[len(name)-1:]
	switch zz.Fork(name+".reported", 5) {
	case 1:
		p.Status.PodIP, s.v4 = ip4, ip4
	case 2:
		p.Status.PodIP, p.Status.PodIPs, s.v4 = ip4, []corev1.PodIP{{IP: ip4}}, ip4
	case 3:
		p.Status.PodIP, p.Status.PodIPs, s.v4, s.v6 = ip4, []corev1.PodIP{{IP: ip4}, {IP: ip6}}, ip4, ip6
	case 4:
		p.Status.PodIP, p.Status.PodIPs, s.v6 = ip6, []corev1.PodIP{{IP: ip6}}, ip6
	}
	if zz.Bool(name + ".wants.erdma") {
		s.erdma = true
		c := corev1.Container{Name: "c"}
		c.Resources.Limits = corev1.ResourceList{deviceplugin.ERDMAResName: *resource.NewQuantity(1, resource.DecimalSI)}
		if zz.Bool(name + ".erdma.in.init.container") {
			p.Spec.InitContainers = []corev1.Container{c}
		} else {
			p.Spec.Containers = []corev1.Container{{Name: "a"}, c}
		}
	}
	return p, s
}

// C03 / C02 input: the pod set the node controller works from.  A pod counts
// as present exactly when it uses the shared pool (no host network, no
// dedicated interface) and its sandbox has not exited - every other pod on
// the node is absent for the release pass; a present pod is listed under its
// own UID with the addresses it reports per family (what re-adoption binds)
// and the node's families as its demand.  A failed listing yields no pod set
// at all (so nothing is released on the strength of it).
func ZZ_C03_get_pods() {
	var pods []corev1.Pod
	var shapes []zzPodShape
	if zz.Bool("two.pods") {
		// what is derived for one pod does not depend on the pods listed before it
		p1, s1 := zzListedPod("p1", false)
		p2, s2 := zzListedPod("p2", false)
		pods, shapes = []corev1.Pod{p1, p2}, []zzPodShape{s1, s2}
	} else {
		p1, s1 := zzListedPod("p1", true)
		pods, shapes = []corev1.Pod{p1}, []zzPodShape{s1}
	}
	lister := &zzPodLister{pods: pods, fail: zz.Bool("list.fails")}
	n := &ReconcileNode{client: lister, tracer: noop.NewTracerProvider().Tracer("zz")}
	node := &networkv1beta1.Node{}
	node.Name = "node-1"
	node.Spec.ENISpec = &networkv1beta1.ENISpec{EnableIPv4: zz.Bool("node.ipv4"), EnableIPv6: zz.Bool("node.ipv6"), EnableERDMA: zz.Bool("node.erdma")}
	m, err := n.getPods(context.Background(), node)
	if lister.fail {
		zz.Assert(err != nil && m == nil, "a failed listing yields no pod set")
		return
	}
	zz.Assert(err == nil, "well-formed pods are listed")
	want := 0
	for i, s := range shapes {
		key := "ns/p" + string(rune('1'+i))
		e, ok := m[key]
		present := !s.hostNet && !s.useENI && !s.exited
		zz.Assert(ok == present, "a pod is in the set exactly when it uses the shared pool and its sandbox has not exited")
		if !ok {
			continue
		}
		want++
		zz.Assert(e.PodUID == "uid-p"+string(rune('1'+i)), "the entry carries the pod's own UID")
		zz.Assert(e.IPv4 == s.v4 && e.IPv6 == s.v6, "the entry carries the addresses the pod reports, per family")
		zz.Assert(e.RequireIPv4 == node.Spec.ENISpec.EnableIPv4 && e.RequireIPv6 == node.Spec.ENISpec.EnableIPv6, "the demand is the node's families")
		zz.Assert(e.RequireERDMA == (s.erdma && node.Spec.ENISpec.EnableERDMA), "RDMA is demanded exactly by pods that request the RDMA resource on an RDMA node")
		zz.Assert(e.ipv4Ref == nil && e.ipv6Ref == nil, "no binding is assumed before the record is read")
	}
	zz.Assert(len(m) == want, "nothing else is in the set")
}
