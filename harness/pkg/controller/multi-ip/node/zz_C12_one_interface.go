//go:build verif

package node

import (
	"github.com/go-logr/logr"

	zz "github.com/AliyunContainerService/terway/internal/zzverif"
)

// C12 (addresses that lie inside the reported subnet together with that
// subnet's gateway), controller side of the centralised path: the daemon
// builds a pod's configuration from *one* interface record - subnet and
// gateway of the interface that holds the addresses.  So whenever the
// assignment pass binds an IPv6 address for a pod that has an IPv4 address -
// bound in this pass, taken over from the pod's report, or bound by an
// earlier pass - the IPv6 address sits on the interface of the IPv4 one.
// Two interfaces x (1 IPv4 + 1 IPv6), one dual-stack pod that holds no IPv6
// address beforehand, every map order.  (The mirrored case - an IPv4 address
// picked for a pod that already holds an IPv6 one - is the recorded finding
// C02-v4-ignores-existing-v6-eni and is left to the C02 check.)
// zz:repeat 64
func ZZ_C12_bindings_on_one_interface() {
	enis, all := zzRecord(2, 1, 1, 1)
	zz.Assume(zzRecordInv(all, true))
	for _, a := range all {
		if a.v6 {
			zz.Assume(a.owner != zzPodIDs[0]) // no IPv6 binding of the pod in the record yet
		}
	}
	pods := zzPods(1, all, true, true)
	zz.Assume(pods[zzPodIDs[0]].IPv6 == "" && !pods[zzPodIDs[0]].RequireERDMA)
	ipv4Map, ipv6Map := buildIPMap(pods, enis)
	_ = assignIPFromLocalPool(logr.Discard(), pods, ipv4Map, ipv6Map, false)
	req := pods[zzPodIDs[0]]
	if req.ipv4Ref != nil && req.ipv6Ref != nil {
		zz.Reach("dual-bound")
		zz.Assert(req.ipv4Ref.NetworkInterface == req.ipv6Ref.NetworkInterface, "the IPv6 address bound for a pod sits on the interface that holds the pod's IPv4 address, however that one was bound")
	}
}
