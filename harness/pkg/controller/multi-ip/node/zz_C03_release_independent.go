//go:build verif

package node

// C03: see zzReleaseIndependentEntries - once the pod is gone and its teardown
// is reported the address becomes free, whatever else the record holds.
// zz:repeat 256
func ZZ_C03_release_pass_judges_each_entry() { zzReleaseIndependentEntries() }
