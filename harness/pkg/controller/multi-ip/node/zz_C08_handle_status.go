//go:build verif

package node

import (
	"context"

	"go.opentelemetry.io/otel/trace/noop"

	zz "github.com/AliyunContainerService/terway/internal/zzverif"
	aliyunClient "github.com/AliyunContainerService/terway/pkg/aliyun/client"
	networkv1beta1 "github.com/AliyunContainerService/terway/pkg/apis/network.alibabacloud.com/v1beta1"
)

type zzUnassignCloud struct {
	*zzCloud
	fail4, fail6 bool
	calls4       [][]aliyunClient.IPSet
	calls6       [][]aliyunClient.IPSet
}

func (c *zzUnassignCloud) UnAssignPrivateIPAddressesV2(ctx context.Context, eniID string, ips []aliyunClient.IPSet) error {
	if c.fail4 {
		return errZZOpenAPI
	}
	c.calls4 = append(c.calls4, append([]aliyunClient.IPSet(nil), ips...))
	return nil
}
func (c *zzUnassignCloud) UnAssignIpv6AddressesV2(ctx context.Context, eniID string, ips []aliyunClient.IPSet) error {
	if c.fail6 {
		return errZZOpenAPI
	}
	c.calls6 = append(c.calls6, append([]aliyunClient.IPSet(nil), ips...))
	return nil
}

func zzStatusMap(name string, n int) map[string]*networkv1beta1.IP {
	m := map[string]*networkv1beta1.IP{}
	for i := 0; i < n; i++ {
		k := name + "-" + string(rune('0'+i))
		m[k] = &networkv1beta1.IP{IP: k, IPName: "name-" + k,
			Status: networkv1beta1.IPStatus(zz.OneOf(k+".status", string(networkv1beta1.IPStatusValid), string(networkv1beta1.IPStatusDeleting)))}
	}
	return m
}

// C08 (record and cloud agree; a partially failed or trimmed address is
// released, not forgotten): the gc step that releases addresses recorded as
// Deleting.  One in-use interface with 3 IPv4 + 2 IPv6 entries of arbitrary
// status, the ECS (batch of 10) or EFLO (batch of 1) backend, either
// unassign call may fail.  An entry leaves the record iff the cloud was asked
// - successfully - to unassign exactly that address in this pass; entries
// beyond one batch stay recorded as Deleting for the next pass; valid entries
// are never touched; no call exceeds the batch limit.
func ZZ_C08_handle_status() {
	eflo := zz.Bool("backend.eflo")
	cloud := &zzUnassignCloud{zzCloud: &zzCloud{}, fail4: zz.Bool("unassign4.fails"), fail6: zz.Bool("unassign6.fails")}
	n := &ReconcileNode{aliyun: cloud, tracer: noop.NewTracerProvider().Tracer("zz")}
	node := &networkv1beta1.Node{}
	node.Spec.NodeMetadata.InstanceID = "i-1"
	eni := &networkv1beta1.NetworkInterface{ID: "eni-1", Status: aliyunClient.ENIStatusInUse, IPv4: zzStatusMap("v4", 3), IPv6: zzStatusMap("v6", 2)}
	node.Status.NetworkInterfaces = map[string]*networkv1beta1.NetworkInterface{"eni-1": eni}
	type pre struct {
		key      string
		v6       bool
		deleting bool
	}
	var all []pre
	for _, k := range []string{"v4-0", "v4-1", "v4-2"} {
		all = append(all, pre{k, false, eni.IPv4[k].Status == networkv1beta1.IPStatusDeleting})
	}
	for _, k := range []string{"v6-0", "v6-1"} {
		all = append(all, pre{k, true, eni.IPv6[k].Status == networkv1beta1.IPStatusDeleting})
	}
	ctx := zzNodeCtx()
	limit := 10
	if eflo {
		ctx = aliyunClient.SetBackendAPI(ctx, aliyunClient.BackendAPIEFLO)
		limit = 1
	}
	err := n.handleStatus(ctx, node)
	zz.Assert(err == nil, "the release step reports no error of its own")
	asked := func(v6 bool, key string) bool {
		calls := cloud.calls4
		if v6 {
			calls = cloud.calls6
		}
		for _, c := range calls {
			for _, ip := range c {
				if ip.IPAddress == key {
					return true
				}
			}
		}
		return false
	}
	zz.Assert(len(cloud.calls4) <= 1 && len(cloud.calls6) <= 1, "at most one unassign call per family and interface in a pass")
	for _, c := range append(append([][]aliyunClient.IPSet(nil), cloud.calls4...), cloud.calls6...) {
		zz.Assert(len(c) >= 1 && len(c) <= limit, "an unassign call carries between one address and one batch")
	}
	nDel4, nDel6, removed := 0, 0, 0
	for _, p := range all {
		m := eni.IPv4
		if p.v6 {
			m = eni.IPv6
		}
		cur, still := m[p.key]
		wasAsked := asked(p.v6, p.key)
		zz.Assert(still != wasAsked, "an address leaves the record exactly when the cloud was successfully asked to unassign it (never forgotten without the call)")
		zz.Assert(zz.Implies(wasAsked, p.deleting), "only addresses recorded as Deleting are unassigned")
		if still {
			zz.Assert((cur.Status == networkv1beta1.IPStatusDeleting) == p.deleting, "an address that stays keeps its status (left-over Deleting entries are retried next pass)")
		} else {
			removed++
		}
		if p.deleting && !p.v6 {
			nDel4++
		}
		if p.deleting && p.v6 {
			nDel6++
		}
	}
	if !cloud.fail4 {
		zz.Assert(len(cloud.calls4) == 1 == (nDel4 > 0), "Deleting IPv4 addresses are unassigned in this pass")
		if len(cloud.calls4) == 1 {
			zz.Assert(len(cloud.calls4[0]) == min(nDel4, limit), "a full batch (or all of them) is unassigned")
		}
	}
	if !cloud.fail6 && !(nDel4 > 0 && cloud.fail4) {
		zz.Assert(len(cloud.calls6) == 1 == (nDel6 > 0), "Deleting IPv6 addresses are unassigned in this pass")
	}
	zz.Assert(zz.Implies(removed > 0, MetaCtx(ctx).StatusChanged.Load()), "removing an address marks the record as changed")
	if nDel4 > limit {
		zz.Reach("more than one batch")
	}
}
