//go:build verif

package node

import (
	"context"

	metav1 "k8s.io/apimachinery/pkg/apis/meta/v1"

	zz "github.com/AliyunContainerService/terway/internal/zzverif"
	aliyunClient "github.com/AliyunContainerService/terway/pkg/aliyun/client"
	networkv1beta1 "github.com/AliyunContainerService/terway/pkg/apis/network.alibabacloud.com/v1beta1"
)

// C02 / C03 (the release pass): each recorded binding is judged on its own.
// Two IPv4 (and two IPv6) entries of two vanished pods on one interface - the
// teardown of the first pod is reported, that of the second is still
// outstanding - in every walk order of the maps: the first pod's addresses of
// *both* families are released in this pass and the second pod's are kept; an
// entry that cannot be released yet does not end the pass for the entries
// behind it (a pod re-created under the first pod's name would otherwise find
// a stale half of its old dual-stack pair and be given its other address on
// another interface).
func zzReleaseIndependentEntries() {
	t0, t1 := metav1.Unix(1700000000, 0), metav1.Unix(1700000100, 0)
	nr := &networkv1beta1.NodeRuntime{}
	nr.Status.Pods = map[string]*networkv1beta1.RuntimePodStatus{
		"uid-done": {PodID: "ns/done", Status: map[networkv1beta1.CNIStatus]*networkv1beta1.CNIStatusInfo{
			networkv1beta1.CNIStatusInitial: {LastUpdateTime: t0}, networkv1beta1.CNIStatusDeleted: {LastUpdateTime: t1}}},
		"uid-busy": {PodID: "ns/busy", Status: map[networkv1beta1.CNIStatus]*networkv1beta1.CNIStatusInfo{
			networkv1beta1.CNIStatusInitial: {LastUpdateTime: t0}}},
	}
	cl := &zzRuntimeClient{runtime: nr}
	eni := &networkv1beta1.NetworkInterface{ID: "eni-0", Status: aliyunClient.ENIStatusInUse}
	mk := func(addr, pod, uid string) *networkv1beta1.IP {
		return &networkv1beta1.IP{IP: addr, Status: networkv1beta1.IPStatusValid, PodID: pod, PodUID: uid}
	}
	done4, busy4 := mk("10.0.0.2", "ns/done", "uid-done"), mk("10.0.0.3", "ns/busy", "uid-busy")
	done6, busy6 := mk("fd00::2", "ns/done", "uid-done"), mk("fd00::3", "ns/busy", "uid-busy")
	v4 := map[string]*EniIP{done4.IP: {NetworkInterface: eni, IP: done4}, busy4.IP: {NetworkInterface: eni, IP: busy4}}
	v6 := map[string]*EniIP{}
	dual := zz.Bool("dual.stack")
	if dual {
		v6[done6.IP] = &EniIP{NetworkInterface: eni, IP: done6}
		v6[busy6.IP] = &EniIP{NetworkInterface: eni, IP: busy6}
	}
	releasePodNotFound(context.Background(), cl, "node", map[string]*PodRequest{}, v4, v6)
	zz.Assert(done4.PodID == "" && (!dual || done6.PodID == ""), "the addresses of a vanished pod whose teardown is reported are released in this pass, wherever they come in the walk")
	zz.Assert(busy4.PodID == "ns/busy" && busy4.PodUID == "uid-busy" && (!dual || busy6.PodID == "ns/busy"), "the addresses of a pod whose teardown is not reported yet stay bound")
}

// the native replay is repeated so that the walk order of the counterexample is met
// zz:repeat 256
func ZZ_C02_release_pass_judges_each_entry() { zzReleaseIndependentEntries() }
