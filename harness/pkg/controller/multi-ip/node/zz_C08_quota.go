//go:build verif

package node

import (
	"context"
	"errors"
	"strconv"
	"sync/atomic"
	"time"

	"github.com/go-logr/logr"
	"go.opentelemetry.io/otel/trace/noop"
	"k8s.io/apimachinery/pkg/util/cache"
	"k8s.io/apimachinery/pkg/util/wait"

	zz "github.com/AliyunContainerService/terway/internal/zzverif"
	aliyunClient "github.com/AliyunContainerService/terway/pkg/aliyun/client"
	networkv1beta1 "github.com/AliyunContainerService/terway/pkg/apis/network.alibabacloud.com/v1beta1"
	register "github.com/AliyunContainerService/terway/pkg/controller"
	"github.com/AliyunContainerService/terway/pkg/vswitch"
)

func zzIPMap(name string, n int) map[string]*networkv1beta1.IP {
	m := map[string]*networkv1beta1.IP{}
	for i := 0; i < n; i++ {
		k := name + "-" + strconv.Itoa(i)
		m[k] = &networkv1beta1.IP{IP: k,
			Status: networkv1beta1.IPStatus(zz.OneOf(k+".status", string(networkv1beta1.IPStatusValid), string(networkv1beta1.IPStatusDeleting))),
			PodID:  zz.OneOf(k+".podID", "", "ns/p0")}
	}
	return m
}

// C08 quota: whatever the declared limits, flavor, pool content and demand,
// the plan never asks for more addresses per interface than the node's
// per-adapter limits, never more than the batch size per call, and never
// plans more interfaces than the flavor allows.
func ZZ_C08_plan_within_quota() {
	v4per := zz.IntRange("cap.ipv4PerAdapter", 0, 6)
	v6per := zz.IntRange("cap.ipv6PerAdapter", 0, 6)
	sh := zz.Shard(12)
	nSec := sh % 3
	if zz.Tier() == 0 {
		zz.Assume(nSec < 2) // quick: at most one secondary slot; thorough: two
	}
	nTrunk := (sh / 3) % 2
	nRdma := (sh / 6) % 2
	node := &networkv1beta1.Node{}
	node.Spec.NodeCap = networkv1beta1.NodeCap{IPv4PerAdapter: v4per, IPv6PerAdapter: v6per}
	node.Spec.ENISpec = &networkv1beta1.ENISpec{EnableIPv4: zz.Bool("enableIPv4"), EnableIPv6: zz.Bool("enableIPv6"), EnableTrunk: zz.Bool("enableTrunk"), EnableERDMA: zz.Bool("enableERDMA")}
	node.Spec.Flavor = []networkv1beta1.Flavor{
		{NetworkInterfaceType: networkv1beta1.ENITypeSecondary, NetworkInterfaceTrafficMode: networkv1beta1.NetworkInterfaceTrafficModeStandard, Count: nSec},
		{NetworkInterfaceType: networkv1beta1.ENITypeTrunk, NetworkInterfaceTrafficMode: networkv1beta1.NetworkInterfaceTrafficModeStandard, Count: nTrunk},
		{NetworkInterfaceType: networkv1beta1.ENITypeSecondary, NetworkInterfaceTrafficMode: networkv1beta1.NetworkInterfaceTrafficModeHighPerformance, Count: nRdma},
	}
	// existing interfaces: at most as many per type as the flavor declares
	node.Status.NetworkInterfaces = map[string]*networkv1beta1.NetworkInterface{}
	exist := zz.Fork("existing", 2) // 0..1 existing interfaces (two did not finish in the thorough budget)
	maxIPs := 2                     // addresses per family on an existing interface: 0..1 (0..2 did not finish in the thorough budget with two interfaces)
	haveSec, haveTrunk := 0, 0
	for i := 0; i < exist; i++ {
		is := strconv.Itoa(i)
		typ := networkv1beta1.ENITypeSecondary
		if zz.Bool("eni" + is + ".trunk") {
			typ = networkv1beta1.ENITypeTrunk
			haveTrunk++
		} else {
			haveSec++
		}
		n4 := zz.Fork("eni"+is+".n4", maxIPs)
		n6 := zz.Fork("eni"+is+".n6", maxIPs)
		node.Status.NetworkInterfaces["eni-"+is] = &networkv1beta1.NetworkInterface{ID: "eni-" + is, Status: aliyunClient.ENIStatusInUse, NetworkInterfaceType: typ,
			NetworkInterfaceTrafficMode: networkv1beta1.NetworkInterfaceTrafficModeStandard, IPv4: zzIPMap("e"+is+"v4", n4), IPv6: zzIPMap("e"+is+"v6", n6)}
	}
	zz.Assume(haveSec <= nSec && haveTrunk <= nTrunk)
	toAdd := zz.IntRange("toAdd", 0, 6+2*zz.Tier())

	options := getEniOptions(node)
	assignEniWithOptions(context.Background(), node, toAdd, options, func(o *eniOptions) bool { return true })

	newSec, newTrunk, newRdma, existing := 0, 0, 0, 0
	for _, o := range options {
		zz.Assert(o.addIPv4N >= 0 && o.addIPv6N >= 0 && o.addIPv4N <= ecsBatchSize && o.addIPv6N <= ecsBatchSize, "every planned request is non-negative and clamped to the batch size")
		if o.eniRef != nil {
			existing++
			zz.Assert(zz.Implies(o.addIPv4N > 0, len(o.eniRef.IPv4)+o.addIPv4N <= v4per), "addresses on an existing interface plus the planned request stay within the IPv4 per-adapter limit")
			zz.Assert(zz.Implies(o.addIPv6N > 0, len(o.eniRef.IPv6)+o.addIPv6N <= v6per), "addresses on an existing interface plus the planned request stay within the IPv6 per-adapter limit")
		} else {
			zz.Assert(o.addIPv4N <= max(v4per, 0) && o.addIPv6N <= max(v6per, 0), "a new interface is planned with at most the per-adapter limit of addresses")
			switch o.eniTypeKey {
			case secondaryKey:
				newSec++
			case trunkKey:
				newTrunk++
			case rdmaKey:
				newRdma++
			}
		}
		zz.Assert(zz.Implies(!node.Spec.ENISpec.EnableIPv4, o.addIPv4N == 0 || o.eniTypeKey == trunkKey), "no IPv4 address is planned when IPv4 is disabled")
		zz.Assert(zz.Implies(!node.Spec.ENISpec.EnableIPv6, o.addIPv6N == 0), "no IPv6 address is planned when IPv6 is disabled")
	}
	zz.Assert(existing == exist, "every existing interface is part of the plan exactly once")
	zz.Assert(haveSec+newSec <= nSec && haveTrunk+newTrunk <= nTrunk && newRdma <= nRdma, "existing plus planned interfaces of each type never exceed the flavor")
	zz.Assert(len(options) <= nSec+nTrunk+nRdma, "the plan never holds more interfaces than the node's flavor in total")
}

// C08 full synchronisation: after syncWithAPI with a fault-free describe,
// record and cloud agree on the address sets of every interface present in
// both; owners of surviving addresses are unchanged; interfaces only in the
// cloud are added.
// zz:repeat 8
func ZZ_C08_sync_with_api() {
	cloud := &zzCloud{created: map[string]bool{}, attached: map[string]bool{}, deleted: map[string]bool{}}
	pool := zzNewPool()
	pool.Add(&vswitch.Switch{ID: "vsw-1", Zone: "z1", AvailableIPCount: 10, IPv4CIDR: "10.0.0.0/24"})
	n := &ReconcileNode{aliyun: cloud, vswpool: pool, fullSyncNodePeriod: time.Hour, tracer: noop.NewTracerProvider().Tracer("zz")}
	node := &networkv1beta1.Node{}
	node.Spec.NodeMetadata.InstanceID = "i-1"
	node.Spec.ENISpec = &networkv1beta1.ENISpec{}
	// the record may hold the interface as in use or as marked for deletion (roll-back of a failed create, pool trimming)
	recStatus := zz.OneOf("record.status", aliyunClient.ENIStatusInUse, aliyunClient.ENIStatusDeleting)
	eni := &networkv1beta1.NetworkInterface{ID: "eni-0", Status: recStatus, NetworkInterfaceType: networkv1beta1.ENITypeSecondary}
	node.Status.NetworkInterfaces = map[string]*networkv1beta1.NetworkInterface{"eni-0": eni}
	// the record's IPv4 / IPv6 maps: absent (field omitted when empty) or 0..2 entries
	n4 := zz.Fork("record.v4", 4) - 1
	n6 := zz.Fork("record.v6", 4) - 1
	if n4 >= 0 {
		eni.IPv4 = zzIPMap("a", n4)
	}
	if n6 >= 0 {
		eni.IPv6 = zzIPMap("b", n6)
	}
	owners := map[string]string{}
	for k, v := range eni.IPv4 {
		owners[k] = v.PodID
	}
	for k, v := range eni.IPv6 {
		owners[k] = v.PodID
	}
	cloudStatus := zz.OneOf("cloud.status", aliyunClient.ENIStatusInUse, aliyunClient.ENIStatusAttaching, aliyunClient.ENIStatusDetaching)
	remote := &aliyunClient.NetworkInterface{NetworkInterfaceID: "eni-0", Type: aliyunClient.ENITypeSecondary, Status: cloudStatus, VSwitchID: "vsw-1"}
	for i := 0; i < 2; i++ {
		if zz.Bool("cloud.v4." + strconv.Itoa(i)) {
			remote.PrivateIPSets = append(remote.PrivateIPSets, aliyunClient.IPSet{IPAddress: "a-" + strconv.Itoa(i)})
		}
		if zz.Bool("cloud.v6." + strconv.Itoa(i)) {
			remote.IPv6Set = append(remote.IPv6Set, aliyunClient.IPSet{IPAddress: "b-" + strconv.Itoa(i)})
		}
	}
	cloud.describe = []*aliyunClient.NetworkInterface{remote}
	if zz.Bool("cloud.extra.eni") {
		cloud.describe = append(cloud.describe, &aliyunClient.NetworkInterface{NetworkInterfaceID: "eni-x", Type: aliyunClient.ENITypeSecondary, Status: aliyunClient.ENIStatusInUse, VSwitchID: "vsw-1"})
	}
	ctx := zzNodeCtx()
	MetaCtx(ctx).NeedSyncOpenAPI.Store(true)
	err := n.syncWithAPI(ctx, node)
	zz.Assert(err == nil, "a fault-free full synchronisation succeeds")
	got := node.Status.NetworkInterfaces["eni-0"]
	zz.Assert(got != nil, "an interface present in record and cloud is kept")
	if got == nil {
		return
	}
	if recStatus == aliyunClient.ENIStatusDeleting {
		zz.Assert(got.Status == aliyunClient.ENIStatusDeleting, "an interface recorded for deletion stays recorded for deletion whatever the cloud reports (it is never resurrected by a synchronisation)")
	} else {
		zz.Assert(got.Status == cloudStatus, "the status of a wanted interface follows the cloud")
	}
	zz.Assert(len(got.IPv4) == len(remote.PrivateIPSets) && len(got.IPv6) == len(remote.IPv6Set), "after a full synchronisation record and cloud agree on the number of addresses of the interface")
	for _, ip := range remote.PrivateIPSets {
		v, ok := got.IPv4[ip.IPAddress]
		zz.Assert(ok, "every IPv4 address the cloud reports is in the record after the synchronisation")
		if o, had := owners[ip.IPAddress]; ok && had {
			zz.Assert(v.PodID == o, "the owner of a surviving address is unchanged")
		}
	}
	for _, ip := range remote.IPv6Set {
		v, ok := got.IPv6[ip.IPAddress]
		zz.Assert(ok, "every IPv6 address the cloud reports is in the record after the synchronisation")
		if o, had := owners[ip.IPAddress]; ok && had {
			zz.Assert(v.PodID == o, "the owner of a surviving address is unchanged")
		}
	}
	_, added := node.Status.NetworkInterfaces["eni-x"]
	zz.Assert(added == (len(cloud.describe) == 2), "an interface only the cloud knows is added to the record")
	middle := cloudStatus == aliyunClient.ENIStatusAttaching || cloudStatus == aliyunClient.ENIStatusDetaching
	zz.Assert(MetaCtx(ctx).NeedSyncOpenAPI.Load() == middle, "a completed synchronisation clears the resync flag; an interface in a transitional state keeps it set (re-synchronised soon)")
}

// ---------- createENI under faults ----------

type zzCloud struct {
	register.Interface
	created     map[string]bool
	attached    map[string]bool
	deleted     map[string]bool
	failCreate  int // 0 ok, 1 error
	failAttach  bool
	failWait    bool
	failDelete  bool
	failAssign  int
	assignCalls []int
	describe    []*aliyunClient.NetworkInterface
}

func (c *zzCloud) DescribeNetworkInterfaceV2(ctx context.Context, opts ...aliyunClient.DescribeNetworkInterfaceOption) ([]*aliyunClient.NetworkInterface, error) {
	o := &aliyunClient.DescribeNetworkInterfaceOptions{}
	for _, f := range opts {
		f.ApplyTo(o)
	}
	if o.NetworkInterfaceIDs != nil {
		var out []*aliyunClient.NetworkInterface
		for _, e := range c.describe {
			for _, id := range *o.NetworkInterfaceIDs {
				if e.NetworkInterfaceID == id {
					out = append(out, e)
				}
			}
		}
		return out, nil
	}
	return c.describe, nil
}

var errZZOpenAPI = errors.New("openapi error")

func (c *zzCloud) CreateNetworkInterfaceV2(ctx context.Context, opts ...aliyunClient.CreateNetworkInterfaceOption) (*aliyunClient.NetworkInterface, error) {
	if c.failCreate == 1 {
		return nil, errZZOpenAPI
	}
	c.created["eni-new"] = true
	return &aliyunClient.NetworkInterface{NetworkInterfaceID: "eni-new", Type: aliyunClient.ENITypeSecondary, Status: aliyunClient.ENIStatusAvailable}, nil
}
func (c *zzCloud) AttachNetworkInterface(ctx context.Context, opts ...aliyunClient.AttachNetworkInterfaceOption) error {
	if c.failAttach {
		return errZZOpenAPI
	}
	c.attached["eni-new"] = true
	return nil
}
func (c *zzCloud) WaitForNetworkInterfaceV2(ctx context.Context, eniID string, status string, backoff wait.Backoff, ignoreNotExist bool) (*aliyunClient.NetworkInterface, error) {
	if c.failWait {
		return nil, errZZOpenAPI
	}
	return &aliyunClient.NetworkInterface{NetworkInterfaceID: eniID, Type: aliyunClient.ENITypeSecondary, Status: aliyunClient.ENIStatusInUse,
		PrivateIPSets: []aliyunClient.IPSet{{IPAddress: "10.0.0.9", Primary: true}}}, nil
}
func (c *zzCloud) DeleteNetworkInterfaceV2(ctx context.Context, eniID string) error {
	if c.failDelete {
		return errZZOpenAPI
	}
	c.deleted[eniID] = true
	return nil
}

func zzNodeCtx() context.Context {
	return context.WithValue(context.Background(), ctxMetaKey{}, &NodeStatus{NeedSyncOpenAPI: &atomic.Bool{}, StatusChanged: &atomic.Bool{}})
}

// C08 rollback: for every placement of a failure after the interface was
// created, on return the interface is either attached and recorded in use, or
// deleted in the cloud, or recorded with status Deleting - never leaked.
func ZZ_C08_create_eni_rollback() {
	cloud := &zzCloud{created: map[string]bool{}, attached: map[string]bool{}, deleted: map[string]bool{},
		failCreate: zz.Fork("create.fails", 2), failAttach: zz.Bool("attach.fails"), failWait: zz.Bool("wait.fails"), failDelete: zz.Bool("delete.fails")}
	pool := &vswitch.SwitchPool{}
	zzInitPool(pool)
	pool.Add(&vswitch.Switch{ID: "vsw-1", Zone: "z1", AvailableIPCount: 10, IPv4CIDR: "10.0.0.0/24"})
	n := &ReconcileNode{aliyun: cloud, vswpool: pool, tracer: noop.NewTracerProvider().Tracer("zz")}
	node := &networkv1beta1.Node{}
	node.Spec.NodeMetadata.ZoneID = "z1"
	node.Spec.NodeMetadata.InstanceID = "i-1"
	node.Spec.ENISpec = &networkv1beta1.ENISpec{VSwitchOptions: []string{"vsw-1"}, SecurityGroupIDs: []string{"sg-1"}, EnableIPv4: true}
	if zz.Bool("has.status.map") {
		node.Status.NetworkInterfaces = map[string]*networkv1beta1.NetworkInterface{}
	}
	ctx := zzNodeCtx()
	err := n.createENI(ctx, node, &eniOptions{eniTypeKey: secondaryKey, addIPv4N: 1})
	rec := node.Status.NetworkInterfaces["eni-new"]
	if cloud.created["eni-new"] {
		inUse := rec != nil && rec.Status == aliyunClient.ENIStatusInUse && err == nil
		gone := cloud.deleted["eni-new"]
		marked := rec != nil && rec.Status == aliyunClient.ENIStatusDeleting
		zz.Assert(inUse || gone || marked, "an interface the cloud created is attached and recorded, or deleted again, or recorded for deletion - never leaked")
		zz.Assert(zz.Implies(err == nil, inUse && cloud.attached["eni-new"]), "success means the interface is attached and recorded in use")
		zz.Assert(zz.Implies(marked, MetaCtx(ctx).StatusChanged.Load()), "recording an interface for deletion marks the status as changed")
		// hand-over to Reconcile: a failed Node CR update only schedules the
		// cloud re-read when the flag is set, so every change of the record
		// has to set it - the new interface included
		zz.Assert(zz.Implies(rec != nil, MetaCtx(ctx).StatusChanged.Load()), "recording a new interface marks the status as changed")
	} else {
		zz.Assert(err != nil && rec == nil, "a failed create records nothing")
	}
}

func zzInitPool(p *vswitch.SwitchPool) {
	*p = *zzNewPool()
}

func zzNewPool() *vswitch.SwitchPool {
	p, _ := vswitch.NewSwitchPool(16, "1m")
	return p
}

var _ = logr.Discard
var _ = cache.NewLRUExpireCache
var _ = time.Second
