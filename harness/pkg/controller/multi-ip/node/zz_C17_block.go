//go:build verif

package node

import (
	"context"

	"go.opentelemetry.io/otel/trace/noop"

	zz "github.com/AliyunContainerService/terway/internal/zzverif"
	aliyunClient "github.com/AliyunContainerService/terway/pkg/aliyun/client"
	apiErr "github.com/AliyunContainerService/terway/pkg/aliyun/client/errors"
	networkv1beta1 "github.com/AliyunContainerService/terway/pkg/apis/network.alibabacloud.com/v1beta1"
	"github.com/AliyunContainerService/terway/pkg/vswitch"
)

type zzCodeErr struct{ code string }

func (e *zzCodeErr) Error() string      { return e.code }
func (e *zzCodeErr) HttpStatus() int    { return 400 }
func (e *zzCodeErr) ErrorCode() string  { return e.code }
func (e *zzCodeErr) Message() string    { return "" }
func (e *zzCodeErr) OriginError() error { return nil }

type zzExhaustedCloud struct {
	*zzCloud
	err4, err6 error
}

func (c *zzExhaustedCloud) AssignPrivateIPAddressV2(ctx context.Context, opts ...aliyunClient.AssignPrivateIPAddressOption) ([]aliyunClient.IPSet, error) {
	if c.err4 != nil {
		return nil, c.err4
	}
	return []aliyunClient.IPSet{{IPAddress: "10.0.0.5"}}, nil
}
func (c *zzExhaustedCloud) AssignIpv6AddressesV2(ctx context.Context, opts ...aliyunClient.AssignIPv6AddressesOption) ([]aliyunClient.IPSet, error) {
	if c.err6 != nil {
		return nil, c.err6
	}
	return []aliyunClient.IPSet{{IPAddress: "fd00::5"}}, nil
}

// C17 (a vSwitch reported exhausted is not chosen again until its cache entry
// expires), at the node controller's assign call sites: when the cloud
// refuses more addresses on an interface because its vSwitch has none left
// (InvalidVSwitchId.IpNotEnough) or the address quota is hit
// (QuotaExceeded.PrivateIpAddress) - for either family - it is that
// interface's *vSwitch* whose cached free count is set to zero, so the next
// selection skips it; any other error leaves the cache alone, and so does a
// success.  Other vSwitches are never touched.
func ZZ_C17_exhaustion_blocks_the_vswitch() {
	pool := zzNewPool()
	pool.Add(&vswitch.Switch{ID: "vsw-1", Zone: "z1", AvailableIPCount: 10, IPv4CIDR: "10.0.0.0/24"})
	pool.Add(&vswitch.Switch{ID: "vsw-2", Zone: "z1", AvailableIPCount: 7, IPv4CIDR: "10.0.1.0/24"})
	mkErr := func(name string) error {
		switch zz.Fork(name, 4) {
		case 1:
			return &zzCodeErr{code: apiErr.InvalidVSwitchIDIPNotEnough}
		case 2:
			return &zzCodeErr{code: apiErr.QuotaExceededPrivateIPAddress}
		case 3:
			return errZZOpenAPI
		}
		return nil
	}
	cloud := &zzExhaustedCloud{zzCloud: &zzCloud{}, err4: mkErr("ipv4.assign.error"), err6: mkErr("ipv6.assign.error")}
	n := &ReconcileNode{aliyun: cloud, vswpool: pool, tracer: noop.NewTracerProvider().Tracer("zz")}
	eni := &networkv1beta1.NetworkInterface{ID: "eni-1", VSwitchID: "vsw-1", Status: aliyunClient.ENIStatusInUse}
	n4, n6 := zz.Fork("add.v4", 2), zz.Fork("add.v6", 2)
	_ = n.assignIP(zzNodeCtx(), &eniOptions{eniRef: eni, addIPv4N: n4, addIPv6N: n6})
	exhausted := func(e error) bool {
		return apiErr.ErrorCodeIs(e, apiErr.InvalidVSwitchIDIPNotEnough, apiErr.QuotaExceededPrivateIPAddress)
	}
	reported := (n4 > 0 && exhausted(cloud.err4)) || (n6 > 0 && !(n4 > 0 && cloud.err4 != nil) && exhausted(cloud.err6))
	s1, e1 := pool.GetByID(context.Background(), nil, "vsw-1")
	s2, e2 := pool.GetByID(context.Background(), nil, "vsw-2")
	zz.Assert(e1 == nil && e2 == nil && s1 != nil && s2 != nil, "both vSwitches stay cached")
	if s1 == nil || s2 == nil {
		return
	}
	zz.Assert((s1.AvailableIPCount == 0) == reported && (reported || s1.AvailableIPCount == 10), "the interface's vSwitch is marked exhausted exactly when the cloud reported exhaustion for it (either family)")
	zz.Assert(s2.AvailableIPCount == 7, "other vSwitches are untouched")
}
