//go:build verif

package podeni

import (
	"context"
	"errors"
	"strconv"
	"time"

	"github.com/aliyun/alibaba-cloud-sdk-go/services/ecs"
	corev1 "k8s.io/api/core/v1"
	k8sErr "k8s.io/apimachinery/pkg/api/errors"
	metav1 "k8s.io/apimachinery/pkg/apis/meta/v1"
	"k8s.io/apimachinery/pkg/runtime/schema"
	"sigs.k8s.io/controller-runtime/pkg/client"

	zz "github.com/AliyunContainerService/terway/internal/zzverif"
	aliyunClient "github.com/AliyunContainerService/terway/pkg/aliyun/client"
	"github.com/AliyunContainerService/terway/pkg/apis/network.alibabacloud.com/v1beta1"
	register "github.com/AliyunContainerService/terway/pkg/controller"
	"github.com/AliyunContainerService/terway/types"
	"github.com/AliyunContainerService/terway/types/controlplane"
)

var errZZClient = errors.New("api server error")

type zzWrite struct {
	kind   string // status-patch | status-update | update | delete | create
	podENI *v1beta1.PodENI
}

// zzClient: the API server as the controllers see it.
type zzClient struct {
	client.Client
	podENIs  []v1beta1.PodENI
	listErr  bool
	pod      *corev1.Pod
	podErr   int // 0 found, 1 not found, 2 other error
	writes   []zzWrite
	writeErr bool
}

func (c *zzClient) List(ctx context.Context, list client.ObjectList, opts ...client.ListOption) error {
	if c.listErr {
		return errZZClient
	}
	if l, ok := list.(*v1beta1.PodENIList); ok {
		l.Items = c.podENIs
	}
	return nil
}
func (c *zzClient) Get(ctx context.Context, key client.ObjectKey, obj client.Object, opts ...client.GetOption) error {
	if p, ok := obj.(*corev1.Pod); ok {
		switch c.podErr {
		case 1:
			return k8sErr.NewNotFound(schema.GroupResource{Resource: "pods"}, key.Name)
		case 2:
			return errZZClient
		}
		*p = *c.pod
		return nil
	}
	return errZZClient
}
func (c *zzClient) Status() client.SubResourceWriter { return &zzStatusWriter{c: c} }

type zzStatusWriter struct {
	client.SubResourceWriter
	c *zzClient
}

func (w *zzStatusWriter) Update(ctx context.Context, obj client.Object, opts ...client.SubResourceUpdateOption) error {
	w.c.writes = append(w.c.writes, zzWrite{kind: "status-update", podENI: obj.(*v1beta1.PodENI)})
	if w.c.writeErr {
		return errZZClient
	}
	return nil
}
func (w *zzStatusWriter) Patch(ctx context.Context, obj client.Object, patch client.Patch, opts ...client.SubResourcePatchOption) error {
	w.c.writes = append(w.c.writes, zzWrite{kind: "status-patch", podENI: obj.(*v1beta1.PodENI)})
	if w.c.writeErr {
		return errZZClient
	}
	return nil
}

type zzAlloc struct {
	fixed    bool
	strategy v1beta1.ReleaseStrategy
	after    string
	dur      time.Duration
	parses   bool
}

var zzDurations = []struct {
	s      string
	d      time.Duration
	parses bool
}{{"10m", 10 * time.Minute, true}, {"-5m", -5 * time.Minute, true}, {"junk", 0, false}, {"0s", 0, true}, {"", 0, false}, {"48h", 48 * time.Hour, true}}

// C11 TTL: a fixed-IP record is moved to Deleting only if the pod is gone
// (or no longer needs a PodENI), the record is not being processed, and EVERY
// fixed allocation is strategy TTL with a parsable, non-negative duration that
// has elapsed since the pod was last seen - whatever the order and mix of the
// allocations.  While the pod exists only the last-seen stamp is refreshed.
// zz:noreplay time.Now is a symbolic clock under the engine; the native wall clock cannot be set to the counterexample's instant
func ZZ_C11_gc_cr_podenis() {
	n := zz.Fork("allocations", 2+zz.Tier()) + 1
	nDur := 3 + 3*zz.Tier() // quick: {10m, -5m, junk}; thorough adds {0s, "", 48h}
	podENI := v1beta1.PodENI{ObjectMeta: metav1.ObjectMeta{Namespace: "ns", Name: "p0"}}
	lastSeen := zz.Time("lastSeen")
	podENI.Status.PodLastSeen = metav1.Time{Time: lastSeen}
	podENI.Status.Phase = v1beta1.Phase(zz.OneOf("phase", string(v1beta1.ENIPhaseBind), string(v1beta1.ENIPhaseUnbind), string(v1beta1.ENIPhaseBinding), string(v1beta1.ENIPhaseDetaching), string(v1beta1.ENIPhaseDeleting), string(v1beta1.ENIPhaseInitial)))
	allocs := make([]zzAlloc, n)
	for i := 0; i < n; i++ {
		is := strconv.Itoa(i)
		a := zzAlloc{fixed: zz.Bool("alloc" + is + ".fixed")}
		a.strategy = v1beta1.ReleaseStrategy(zz.OneOf("alloc"+is+".strategy", string(v1beta1.ReleaseStrategyTTL), string(v1beta1.ReleaseStrategyNever), "Whatever"))
		d := zzDurations[zz.Fork("alloc"+is+".after", nDur)]
		a.after, a.dur, a.parses = d.s, d.d, d.parses
		allocs[i] = a
		var typ v1beta1.IPAllocType = v1beta1.IPAllocTypeElastic
		if a.fixed {
			typ = v1beta1.IPAllocTypeFixed
		}
		podENI.Spec.Allocations = append(podENI.Spec.Allocations, v1beta1.Allocation{ENI: v1beta1.ENI{ID: "eni-" + is},
			AllocationType: v1beta1.AllocationType{Type: typ, ReleaseStrategy: a.strategy, ReleaseAfter: a.after}})
	}
	cl := &zzClient{podENIs: []v1beta1.PodENI{podENI}, podErr: zz.Fork("pod", 3), writeErr: zz.Bool("write.fails")}
	requires := zz.Bool("pod.requires")
	cl.pod = &corev1.Pod{ObjectMeta: metav1.ObjectMeta{Namespace: "ns", Name: "p0"}}
	if !requires {
		cl.pod.Spec.HostNetwork = true
	}
	m := &ReconcilePodENI{client: cl, crdMode: true}
	m.gcCRPodENIs(context.Background())
	now := time.Now() // not earlier than the instant the collector read (the clock is monotone)
	_ = now

	deleting := false
	for _, w := range cl.writes {
		if w.podENI.Status.Phase == v1beta1.ENIPhaseDeleting && podENI.Status.Phase != v1beta1.ENIPhaseDeleting {
			deleting = true
		}
		zz.Assert(len(w.podENI.Spec.Allocations) == n, "the collector never edits the allocations of a record")
		// the release verdict was formed on a listed snapshot: it must be written with the snapshot's
		// resourceVersion (status update), so that it is rejected when the record was rebound meanwhile
		zz.Assert(w.kind != "status-patch" || w.podENI.Status.Phase == podENI.Status.Phase, "a phase change decided by the collector is written with a conflict-checked update, never with an unconditional patch")
	}
	podPresent := cl.podErr == 0 && requires
	if cl.podErr == 2 {
		zz.Assert(len(cl.writes) == 0, "when the pod lookup fails nothing is written")
		return
	}
	anyFixed := false
	for _, a := range allocs {
		anyFixed = anyFixed || a.fixed
	}
	if podPresent {
		zz.Assert(!deleting, "a record whose pod exists is never moved to Deleting by the collector")
		for _, w := range cl.writes {
			zz.Assert(w.kind == "status-patch" && w.podENI.Status.Phase == podENI.Status.Phase, "while the pod exists only the last-seen stamp is refreshed")
		}
		// the TTL of a fixed allocation runs from the last time the pod was seen: a record with
		// a fixed allocation anywhere among its allocations is stamped while the pod lives
		if anyFixed {
			zz.Assert(len(cl.writes) == 1, "a record that holds a fixed allocation - alone or next to elastic ones, in any position - is stamped 'seen now' while its pod exists")
		}
		return
	}
	if deleting {
		zz.Assert(podENI.Status.Phase != v1beta1.ENIPhaseDetaching && podENI.Status.Phase != v1beta1.ENIPhaseBinding, "a record that is being processed is left alone")
		for _, a := range allocs {
			if !a.fixed {
				continue
			}
			zz.Assert(a.strategy == v1beta1.ReleaseStrategyTTL, "a fixed allocation with strategy Never (or an unknown strategy) keeps the record forever")
			zz.Assert(a.parses && a.dur >= 0, "an unparsable or negative TTL keeps the record")
			zz.Assert(!lastSeen.Add(a.dur).After(now), "the record is kept at least until the TTL has elapsed since the pod was last seen")
		}
	}
	zz.Reach("gc-cr-done")
}

// ---------- leaked interface collector ----------

type zzLeakCloud struct {
	register.Interface
	detached []string
	deleted  []string
}

func (c *zzLeakCloud) DetachNetworkInterface(ctx context.Context, eniID, instanceID, trunkENIID string) error {
	c.detached = append(c.detached, eniID)
	if zz.Bool("detach.fails") {
		return errZZClient
	}
	return nil
}
func (c *zzLeakCloud) DeleteNetworkInterface(ctx context.Context, eniID string) error {
	c.deleted = append(c.deleted, eniID)
	if zz.Bool("delete.fails") {
		return errZZClient
	}
	return nil
}

// C11 leak GC: only interfaces that carry this cluster's controller tags, are
// older than the ten-minute grace period and are referenced by no record are
// detached (member, in use) or deleted (available); a failing list touches nothing.
// zz:noreplay time.Parse is replaced by a symbolic clock through an engine-side override
func ZZ_C11_gc_leaked_enis() {
	controlplane.SetConfig(&controlplane.Config{ClusterID: "c-mine"})
	n := 1 + zz.Tier() // quick: one arbitrary interface; thorough: two
	created := map[string]time.Time{}
	parses := map[string]bool{}
	zz.Override("time.Parse", func(layout, value string) (time.Time, error) {
		if !parses[value] {
			return time.Time{}, errZZClient
		}
		return created[value], nil
	})
	var enis []*aliyunClient.NetworkInterface
	type meta struct {
		cluster, creator       string
		hasCluster, hasCreator bool
		t                      time.Time
		parses                 bool
		ref                    bool
		typ, st                string
	}
	ms := make([]meta, n)
	var refs []v1beta1.Allocation
	cl := &zzClient{listErr: zz.Bool("list.fails")}
	for i := 0; i < n; i++ {
		is := strconv.Itoa(i)
		m := meta{cluster: zz.OneOf("eni"+is+".cluster", "c-mine", "c-other"), creator: zz.OneOf("eni"+is+".creator", types.TagTerwayController, "someone-else"),
			hasCluster: zz.Bool("eni" + is + ".hasCluster"), hasCreator: zz.Bool("eni" + is + ".hasCreator"),
			t: zz.Time("eni" + is + ".created"), parses: zz.Bool("eni" + is + ".timeParses"), ref: zz.Bool("eni" + is + ".referenced"),
			typ: zz.OneOf("eni"+is+".type", aliyunClient.ENITypeMember, aliyunClient.ENITypeSecondary), st: zz.OneOf("eni"+is+".status", aliyunClient.ENIStatusInUse, aliyunClient.ENIStatusAvailable, aliyunClient.ENIStatusAttaching)}
		ms[i] = m
		e := &aliyunClient.NetworkInterface{NetworkInterfaceID: "eni-" + is, CreationTime: "ts-" + is, Type: m.typ, Status: m.st}
		if m.hasCluster {
			e.Tags = append(e.Tags, ecs.Tag{TagKey: types.TagKeyClusterID, TagValue: m.cluster})
		}
		e.Tags = append(e.Tags, ecs.Tag{TagKey: "unrelated", TagValue: "x"})
		if m.hasCreator {
			e.Tags = append(e.Tags, ecs.Tag{TagKey: types.NetworkInterfaceTagCreatorKey, TagValue: m.creator})
		}
		created["ts-"+is] = m.t
		parses["ts-"+is] = m.parses
		enis = append(enis, e)
		if m.ref {
			refs = append(refs, v1beta1.Allocation{ENI: v1beta1.ENI{ID: "eni-" + is}})
		}
	}
	if len(refs) > 0 {
		// one multi-interface record: its first allocation names an interface that is not among the
		// candidates (too young, in another state), the referenced candidates follow
		all := append([]v1beta1.Allocation{{ENI: v1beta1.ENI{ID: "eni-not-a-candidate"}}}, refs...)
		cl.podENIs = append(cl.podENIs, v1beta1.PodENI{Spec: v1beta1.PodENISpec{Allocations: all}})
	}
	cloud := &zzLeakCloud{}
	r := &ReconcilePodENI{client: cl, aliyun: cloud}
	_ = r.gcENIs(context.Background(), enis)
	now := time.Now()
	if cl.listErr {
		zz.Assert(len(cloud.detached) == 0 && len(cloud.deleted) == 0, "when the records cannot be listed no interface is touched")
	}
	for i := 0; i < n; i++ {
		id := "eni-" + strconv.Itoa(i)
		m := ms[i]
		det, del := false, false
		for _, d := range cloud.detached {
			det = det || d == id
		}
		for _, d := range cloud.deleted {
			del = del || d == id
		}
		touched := det || del
		ours := zz.And(m.hasCluster, m.cluster == "c-mine", m.hasCreator, m.creator == types.TagTerwayController)
		zz.Assert(zz.Implies(touched, ours), "only interfaces carrying this cluster's id tag and the controller's creator tag are reaped")
		zz.Assert(zz.Implies(touched, m.parses && !m.t.Add(10*time.Minute).After(now)), "only interfaces older than the ten-minute grace period are reaped")
		zz.Assert(zz.Implies(touched, !m.ref), "an interface referenced by a record is never reaped")
		zz.Assert(zz.Implies(det, m.typ == aliyunClient.ENITypeMember && m.st == aliyunClient.ENIStatusInUse), "only member interfaces in use are detached")
		zz.Assert(zz.Implies(del, m.st == aliyunClient.ENIStatusAvailable), "only available interfaces are deleted")
		zz.Assert(!(det && del), "an interface is detached or deleted in one pass, not both")
	}
}
