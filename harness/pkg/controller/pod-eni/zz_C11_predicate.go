//go:build verif

package podeni

import (
	"time"

	metav1 "k8s.io/apimachinery/pkg/apis/meta/v1"
	"sigs.k8s.io/controller-runtime/pkg/event"

	zz "github.com/AliyunContainerService/terway/internal/zzverif"
	"github.com/AliyunContainerService/terway/pkg/apis/network.alibabacloud.com/v1beta1"
)

// C11 (the record is kept at least until its TTL has elapsed since the pod
// was last seen): the update-event filter of the record controller is handed
// the very objects the informer keeps in its store - the same objects the
// collector later lists and measures the TTL on.  The filter ignores the
// last-seen stamp when it compares old and new; it must do so on copies: the
// stamp (and everything else) of both objects is the same after the call as
// before it.  Its verdict: an update that changes nothing but the stamp and
// the resource version is filtered out, any other change passes.
func ZZ_C11_update_filter_leaves_store_objects_alone() {
	seenOld, seenNew := time.Unix(int64(zz.IntRange("old.seen", 1, 2000000000)), 0), time.Unix(int64(zz.IntRange("new.seen", 1, 2000000000)), 0)
	mk := func(rv string, seen time.Time, phase v1beta1.Phase) *v1beta1.PodENI {
		p := &v1beta1.PodENI{ObjectMeta: metav1.ObjectMeta{Namespace: "ns", Name: "p0", ResourceVersion: rv}}
		p.Spec.Allocations = []v1beta1.Allocation{{ENI: v1beta1.ENI{ID: "eni-1"}, AllocationType: v1beta1.AllocationType{Type: v1beta1.IPAllocTypeFixed, ReleaseStrategy: v1beta1.ReleaseStrategyTTL, ReleaseAfter: "1h"}}}
		p.Status.Phase = phase
		p.Status.PodLastSeen = metav1.Time{Time: seen}
		return p
	}
	phaseChanged := zz.Bool("phase.changed")
	var newPhase v1beta1.Phase = v1beta1.ENIPhaseBind
	if phaseChanged {
		newPhase = v1beta1.ENIPhaseUnbind
	}
	oldObj, newObj := mk("1", seenOld, v1beta1.ENIPhaseBind), mk("2", seenNew, newPhase)
	got := updateFunc(event.TypedUpdateEvent[*v1beta1.PodENI]{ObjectOld: oldObj, ObjectNew: newObj})
	zz.Assert(got == phaseChanged, "an update that only refreshes the last-seen stamp is filtered out, any other change passes")
	zz.Assert(oldObj.Status.PodLastSeen.Time.Equal(seenOld) && newObj.Status.PodLastSeen.Time.Equal(seenNew), "the filter does not write to the objects it is shown: the last-seen stamp in the informer's store stays what it was")
	zz.Assert(oldObj.ResourceVersion == "1" && newObj.ResourceVersion == "2" && oldObj.Status.Phase == v1beta1.ENIPhaseBind && newObj.Status.Phase == newPhase && len(newObj.Spec.Allocations) == 1, "nor to anything else of them")
}
