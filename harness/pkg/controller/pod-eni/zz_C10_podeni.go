//go:build verif

package podeni

import (
	"context"
	"strconv"
	"time"

	corev1 "k8s.io/api/core/v1"
	k8sErr "k8s.io/apimachinery/pkg/api/errors"
	metav1 "k8s.io/apimachinery/pkg/apis/meta/v1"
	"k8s.io/apimachinery/pkg/runtime/schema"
	k8stypes "k8s.io/apimachinery/pkg/types"
	"k8s.io/apimachinery/pkg/util/wait"
	"sigs.k8s.io/controller-runtime/pkg/client"
	"sigs.k8s.io/controller-runtime/pkg/reconcile"

	zz "github.com/AliyunContainerService/terway/internal/zzverif"
	aliyunClient "github.com/AliyunContainerService/terway/pkg/aliyun/client"
	"github.com/AliyunContainerService/terway/pkg/apis/network.alibabacloud.com/v1beta1"
	register "github.com/AliyunContainerService/terway/pkg/controller"
	"github.com/AliyunContainerService/terway/types"
)

type zzOp struct {
	kind string // detach | delete | describe | wait | attach | status-update | update | delete-cr
	id   string
	rec  *v1beta1.PodENI
}

// zzWorld10: API server + cloud seen by the PodENI controller, with an ordered effect log.
type zzWorld10 struct {
	client.Client
	register.Interface
	rec      *v1beta1.PodENI
	pod      *corev1.Pod
	node     *corev1.Node
	ops      []zzOp
	failAt   int // index of the operation that fails (-1: none)
	attached bool
}

func (w *zzWorld10) step(kind, id string, rec *v1beta1.PodENI) error {
	idx := len(w.ops)
	w.ops = append(w.ops, zzOp{kind: kind, id: id, rec: rec})
	if idx == w.failAt {
		return errZZClient
	}
	return nil
}

func (w *zzWorld10) Get(ctx context.Context, key client.ObjectKey, obj client.Object, opts ...client.GetOption) error {
	switch o := obj.(type) {
	case *v1beta1.PodENI:
		if w.rec == nil {
			return k8sErr.NewNotFound(schema.GroupResource{Resource: "podenis"}, key.Name)
		}
		*o = *w.rec.DeepCopy()
		return nil
	case *corev1.Pod:
		if w.pod == nil {
			return k8sErr.NewNotFound(schema.GroupResource{Resource: "pods"}, key.Name)
		}
		*o = *w.pod
		return nil
	case *corev1.Node:
		*o = *w.node
		return nil
	}
	return errZZClient
}
func (w *zzWorld10) Delete(ctx context.Context, obj client.Object, opts ...client.DeleteOption) error {
	return w.step("delete-cr", "", obj.(*v1beta1.PodENI))
}
func (w *zzWorld10) Update(ctx context.Context, obj client.Object, opts ...client.UpdateOption) error {
	return w.step("update", "", obj.(*v1beta1.PodENI))
}
func (w *zzWorld10) Status() client.SubResourceWriter { return &zzStatus10{w: w} }

type zzStatus10 struct {
	client.SubResourceWriter
	w *zzWorld10
}

func (s *zzStatus10) Update(ctx context.Context, obj client.Object, opts ...client.SubResourceUpdateOption) error {
	return s.w.step("status-update", "", obj.(*v1beta1.PodENI))
}

// a merge patch carries no resourceVersion: it cannot be rejected when the record changed meanwhile
func (s *zzStatus10) Patch(ctx context.Context, obj client.Object, patch client.Patch, opts ...client.SubResourcePatchOption) error {
	return s.w.step("status-patch", "", obj.(*v1beta1.PodENI))
}

func (w *zzWorld10) DetachNetworkInterface(ctx context.Context, eniID, instanceID, trunkENIID string) error {
	return w.step("detach", eniID, nil)
}
func (w *zzWorld10) DeleteNetworkInterface(ctx context.Context, eniID string) error {
	return w.step("delete", eniID, nil)
}
func (w *zzWorld10) WaitForNetworkInterface(ctx context.Context, eniID string, status string, backoff wait.Backoff, ignoreNotExist bool) (*aliyunClient.NetworkInterface, error) {
	if err := w.step("wait", eniID, nil); err != nil {
		return nil, err
	}
	return &aliyunClient.NetworkInterface{NetworkInterfaceID: eniID, Status: status}, nil
}
func (w *zzWorld10) DescribeNetworkInterface(ctx context.Context, vpcID string, eniID []string, instanceID string, instanceType string, status string, tags map[string]string) ([]*aliyunClient.NetworkInterface, error) {
	if err := w.step("describe", "", nil); err != nil {
		return nil, err
	}
	return []*aliyunClient.NetworkInterface{{NetworkInterfaceID: eniID[0], InstanceID: "i-1"}}, nil
}

const zzAttach = "(*github.com/AliyunContainerService/terway/pkg/controller/pod-eni.ReconcilePodENI).attachENI"
const zzInject = "(*github.com/AliyunContainerService/terway/pkg/controller/pod-eni.ReconcilePodENI).injectNodeStatus"

// C10: one Reconcile of the PodENI controller from an arbitrary record state
// (every phase, with / without deletion mark and finalizer, 1-2 allocations,
// fixed or not) with a failure injected at an arbitrary operation.
// zz:noreplay attachENI (concurrent cloud calls) and injectNodeStatus are summarised through engine-side overrides
func ZZ_C10_podeni_reconcile() {
	phases := []v1beta1.Phase{v1beta1.ENIPhaseInitial, v1beta1.ENIPhaseBind, v1beta1.ENIPhaseBinding, v1beta1.ENIPhaseUnbind, v1beta1.ENIPhaseDetaching, v1beta1.ENIPhaseDeleting}
	old := phases[zz.Fork("phase", len(phases))]
	nAlloc := zz.Fork("allocations", 2) + 1
	fixed := zz.Bool("fixed")
	rec := &v1beta1.PodENI{ObjectMeta: metav1.ObjectMeta{Namespace: "ns", Name: "p0", Annotations: map[string]string{types.PodUID: "uid-a"}}}
	rec.Status.Phase = old
	rec.Status.InstanceID = zz.OneOf("instance", "i-1", "")
	for i := 0; i < nAlloc; i++ {
		var at v1beta1.IPAllocType = v1beta1.IPAllocTypeElastic
		if fixed {
			at = v1beta1.IPAllocTypeFixed
		}
		rec.Spec.Allocations = append(rec.Spec.Allocations, v1beta1.Allocation{ENI: v1beta1.ENI{ID: "eni-" + strconv.Itoa(i)}, AllocationType: v1beta1.AllocationType{Type: at}})
	}
	// a retained record may carry the stamp of its previous pod (earlier than anything the clock shows now)
	if zz.Bool("record.has.old.lastSeen") {
		rec.Status.PodLastSeen = metav1.Unix(-1000, 0)
	}
	deleting := zz.Bool("deletion.mark")
	hasFinalizer := zz.Bool("finalizer")
	if hasFinalizer {
		rec.Finalizers = []string{types.FinalizerPodENI}
	}
	if deleting {
		ts := metav1.Unix(1700000000, 0)
		rec.DeletionTimestamp = &ts
	}
	w := &zzWorld10{rec: rec, failAt: zz.Fork("fail.at", 8) - 1}
	w.node = &corev1.Node{ObjectMeta: metav1.ObjectMeta{Name: "node-1", Labels: map[string]string{corev1.LabelTopologyRegion: "r", corev1.LabelInstanceTypeStable: "t", corev1.LabelTopologyZone: "z"}}}
	w.node.Spec.ProviderID = "r.i-1"
	if zz.Bool("pod.exists") {
		w.pod = &corev1.Pod{ObjectMeta: metav1.ObjectMeta{Namespace: "ns", Name: "p0", UID: "uid-a"}}
		w.pod.Spec.NodeName = "node-1"
		if zz.Bool("pod.owned.by.deployment") {
			w.pod.OwnerReferences = []metav1.OwnerReference{{Kind: "ReplicaSet"}}
		}
	}
	m := &ReconcilePodENI{client: w, aliyun: w}
	zz.Override(zzInject, func(m *ReconcilePodENI, ctx context.Context, namespace, name string) context.Context { return ctx })
	zz.Override(zzAttach, func(m *ReconcilePodENI, ctx context.Context, podENI *v1beta1.PodENI) error {
		if podENI.Status.InstanceID == "" {
			return errZZClient
		}
		for _, a := range podENI.Spec.Allocations {
			if err := w.step("attach", a.ENI.ID, nil); err != nil {
				return err
			}
		}
		w.attached = true
		return nil
	})

	before := time.Now()
	_, err := m.Reconcile(context.Background(), reconcile.Request{NamespacedName: k8stypes.NamespacedName{Namespace: "ns", Name: "p0"}})
	// binding a fixed-address record means the controller has just seen its pod: the last-seen stamp
	// (from which the release TTL counts, C11) is refreshed on every bind, also on a re-bind
	for _, o := range w.ops {
		if (o.kind == "status-update" || o.kind == "status-patch") && o.rec.Status.Phase == v1beta1.ENIPhaseBind && old != v1beta1.ENIPhaseBind && fixed {
			zz.Assert(!o.rec.Status.PodLastSeen.Time.Before(before), "binding a fixed-address record stamps the pod as seen now (the release TTL restarts at every bind)")
		}
	}

	count := func(kind string) int {
		n := 0
		for _, o := range w.ops {
			if o.kind == kind {
				n++
			}
		}
		return n
	}
	failed := w.failAt >= 0 && w.failAt < len(w.ops)
	zz.Assert(zz.Implies(failed, err != nil), "a failing cloud / API call is reported as an error (the request is retried)")
	// every status write follows the documented phase graph
	for _, o := range w.ops {
		if o.kind == "status-patch" || o.kind == "status-update" {
			zz.Assert(o.kind == "status-update" || o.rec.Status.Phase == old, "a phase change is written with a conflict-checked update, never with an unconditional patch (the other controller may have moved the record meanwhile)")
		}
		if (o.kind == "status-update" || o.kind == "status-patch") && o.rec.Status.Phase != old {
			nw := o.rec.Status.Phase
			ok := ((old == v1beta1.ENIPhaseInitial || old == v1beta1.ENIPhaseBinding) && nw == v1beta1.ENIPhaseBind) || (old == v1beta1.ENIPhaseDetaching && nw == v1beta1.ENIPhaseUnbind)
			zz.Assert(ok, "the PodENI controller only moves initial/binding -> bound and detaching -> unbound")
		}
		if o.kind == "status-update" || o.kind == "status-patch" {
			zz.Assert(len(o.rec.Spec.Allocations) == nAlloc, "a status write keeps the allocations (interface and address) of the record")
		}
	}
	if deleting {
		if !hasFinalizer {
			zz.Assert(len(w.ops) == 0, "a record under deletion without our finalizer is left alone")
			return
		}
		// detach (unless already unbound), delete every interface, then drop the finalizer
		removed := false
		for _, o := range w.ops {
			if o.kind == "update" {
				removed = len(o.rec.Finalizers) == 0
				zz.Assert(removed, "the only object update during deletion is the removal of the finalizer")
				zz.Assert(count("delete") == nAlloc, "the finalizer is removed only after every interface of the record was deleted")
			}
		}
		if failed && w.ops[w.failAt].kind != "update" {
			zz.Assert(count("update") == 0, "the finalizer is kept when detaching or deleting an interface failed")
		}
		if !failed {
			zz.Assert(count("update") == 1 && count("delete") == nAlloc, "without failures the interfaces are deleted and the finalizer removed")
			zz.Assert(zz.Implies(old != v1beta1.ENIPhaseUnbind, count("detach") == nAlloc), "interfaces that may still be attached are detached before they are deleted")
		}
		firstDel, lastDet := -1, -1
		for i, o := range w.ops {
			if o.kind == "delete" && firstDel < 0 {
				firstDel = i
			}
			if o.kind == "detach" {
				lastDet = i
			}
		}
		zz.Assert(firstDel < 0 || lastDet < firstDel, "all detaches precede the first delete")
		return
	}
	switch old {
	case v1beta1.ENIPhaseBind, v1beta1.ENIPhaseUnbind:
		zz.Assert(len(w.ops) == 0 && err == nil, "a bound or unbound record is stable: no cloud call, no write")
	case v1beta1.ENIPhaseDetaching:
		if !failed {
			zz.Assert(count("status-update") == 1 && count("delete") == 0 && count("delete-cr") == 0, "detaching ends in unbound: interfaces are detached, never deleted")
		}
		zz.Assert(count("delete") == 0, "a detaching record keeps its interfaces")
	case v1beta1.ENIPhaseDeleting:
		zz.Assert(count("detach") == 0 && count("delete") == 0 && count("status-update") == 0, "a record in phase deleting is only handed to the API server for deletion (cleanup runs under the finalizer)")
		zz.Assert(count("delete-cr") == 1, "a record in phase deleting is deleted")
	case v1beta1.ENIPhaseInitial, v1beta1.ENIPhaseBinding:
		zz.Assert(count("detach") == 0 && count("delete") == 0 && count("delete-cr") == 0, "binding never detaches or deletes an interface")
		bound := false
		for _, o := range w.ops {
			if o.kind == "status-update" && o.rec.Status.Phase == v1beta1.ENIPhaseBind {
				bound = true
			}
		}
		zz.Assert(zz.Implies(bound, w.attached && w.pod != nil), "a record is marked bound only after all its interfaces were attached for an existing pod")
		if old == v1beta1.ENIPhaseBinding && w.pod != nil && !(fixed && len(w.pod.OwnerReferences) == 0) {
			zz.Assert(count("attach") == 0 && err != nil, "a record is re-bound only for fixed-IP allocations of a pod with a stable name")
		}
	}
	zz.Reach("podeni-reconciled")
}

// C11 (the release TTL counts from the moment the controller last observed
// the pod), binding side: every bind of a fixed-address record - the first
// one and the re-bind of a retained record to its re-created pod - stamps the
// pod as seen now, so a stamp left by the previous pod never makes the TTL
// run out early.
// zz:noreplay attachENI (concurrent cloud calls) and injectNodeStatus are summarised through engine-side overrides
func ZZ_C11_bind_refreshes_last_seen() {
	old := []v1beta1.Phase{v1beta1.ENIPhaseInitial, v1beta1.ENIPhaseBinding}[zz.Fork("phase", 2)]
	rec := &v1beta1.PodENI{ObjectMeta: metav1.ObjectMeta{Namespace: "ns", Name: "p0", Annotations: map[string]string{types.PodUID: "uid-a"}, Finalizers: []string{types.FinalizerPodENI}}}
	rec.Status.Phase = old
	rec.Status.InstanceID = "i-1"
	rec.Spec.Allocations = []v1beta1.Allocation{{ENI: v1beta1.ENI{ID: "eni-0"}, AllocationType: v1beta1.AllocationType{Type: v1beta1.IPAllocTypeFixed, ReleaseStrategy: v1beta1.ReleaseStrategyTTL, ReleaseAfter: "10m"}}}
	hadStamp := zz.Bool("record.has.old.lastSeen")
	if hadStamp {
		rec.Status.PodLastSeen = metav1.Unix(-1000, 0)
	}
	w := &zzWorld10{rec: rec, failAt: -1}
	w.node = &corev1.Node{ObjectMeta: metav1.ObjectMeta{Name: "node-1", Labels: map[string]string{corev1.LabelTopologyRegion: "r", corev1.LabelInstanceTypeStable: "t", corev1.LabelTopologyZone: "z"}}}
	w.node.Spec.ProviderID = "r.i-1"
	w.pod = &corev1.Pod{ObjectMeta: metav1.ObjectMeta{Namespace: "ns", Name: "p0", UID: "uid-a"}}
	w.pod.Spec.NodeName = "node-1"
	m := &ReconcilePodENI{client: w, aliyun: w}
	zz.Override(zzInject, func(m *ReconcilePodENI, ctx context.Context, namespace, name string) context.Context { return ctx })
	zz.Override(zzAttach, func(m *ReconcilePodENI, ctx context.Context, podENI *v1beta1.PodENI) error { return nil })
	before := time.Now()
	_, err := m.Reconcile(context.Background(), reconcile.Request{NamespacedName: k8stypes.NamespacedName{Namespace: "ns", Name: "p0"}})
	zz.Assert(err == nil, "binding succeeds without faults")
	bound := 0
	for _, o := range w.ops {
		if o.kind == "status-update" && o.rec.Status.Phase == v1beta1.ENIPhaseBind {
			bound++
			zz.Assert(!o.rec.Status.PodLastSeen.Time.Before(before), "binding a fixed-address record stamps the pod as seen now, whatever stamp the record carried")
		}
	}
	zz.Assert(bound == 1, "the record is moved to bound exactly once")
}

// C10 (an interface is never pulled from a live pod), leak collector: an
// interface referenced by any allocation of any record - also when an earlier
// allocation of the same record is not a candidate - is never detached or
// deleted.  Same exploration as ZZ_C11_gc_leaked_enis.
// zz:noreplay time.Parse is replaced by a symbolic clock through an engine-side override
func ZZ_C10_leak_gc_spares_referenced() { ZZ_C11_gc_leaked_enis() }
