//go:build verif

package podeni

import (
	"context"

	corev1 "k8s.io/api/core/v1"
	metav1 "k8s.io/apimachinery/pkg/apis/meta/v1"
	"sigs.k8s.io/controller-runtime/pkg/client"

	zz "github.com/AliyunContainerService/terway/internal/zzverif"
	podctl "github.com/AliyunContainerService/terway/pkg/controller/pod"
	"github.com/AliyunContainerService/terway/types"
)

type zzNodeGetter struct {
	client.Client
	node *corev1.Node
	fail bool
}

func (c *zzNodeGetter) Get(ctx context.Context, key client.ObjectKey, obj client.Object, opts ...client.GetOption) error {
	if n, ok := obj.(*corev1.Node); ok && !c.fail && key.Name == c.node.Name {
		*n = *c.node
		return nil
	}
	return errZZClient
}

// C10 (live-pod protection across the two controllers): the record collector
// asks, for a pod that still exists, whether it needs its PodENI record; the
// pod controller decides, for the same pod, whether it maintains one.  For
// every pod (host network, phase, ignore label, pod-eni annotation) on every
// node (ignore label, virtual kubelet, exclusive-ENI label - on the *node*)
// and both IPAM modes: a pod whose record the pod controller maintains is a
// pod the collector keeps the record for - otherwise the interface of a
// running pod is detached and deleted a minute after it was bound, and
// nothing re-creates it.  A failed node lookup keeps the record.
func ZZ_C10_gc_keeps_managed_pod() {
	pod := &corev1.Pod{ObjectMeta: metav1.ObjectMeta{Namespace: "ns", Name: "p0", UID: "uid-0", Labels: map[string]string{}, Annotations: map[string]string{}}}
	pod.Spec.NodeName = "n1"
	pod.Spec.HostNetwork = zz.Bool("pod.hostNetwork")
	pod.Status.Phase = corev1.PodPhase(zz.OneOf("pod.phase", "Pending", "Running", "Succeeded", "Failed"))
	if zz.Bool("pod.ignored") {
		pod.Labels[types.IgnoreByTerway] = "true"
	}
	switch zz.Fork("pod.annotation", 3) {
	case 1:
		pod.Annotations[types.PodENI] = "true"
	case 2:
		pod.Annotations[types.PodENI] = "false"
	}
	// the exclusive-ENI label on the *pod* means nothing
	if zz.Bool("pod.carries.node.label") {
		pod.Labels[types.ExclusiveENIModeLabel] = string(types.ExclusiveENIOnly)
	}
	node := &corev1.Node{ObjectMeta: metav1.ObjectMeta{Name: "n1", Labels: map[string]string{}}}
	if zz.Bool("node.ignored") {
		node.Labels[types.IgnoreByTerway] = "true"
	}
	if zz.Bool("node.virtual.kubelet") {
		node.Labels["type"] = "virtual-kubelet"
	}
	switch zz.Fork("node.exclusive", 3) {
	case 1:
		node.Labels[types.ExclusiveENIModeLabel] = string(types.ExclusiveENIOnly)
	case 2:
		node.Labels[types.ExclusiveENIModeLabel] = "default"
	}
	crd := zz.Bool("crd.mode")
	managed := podctl.ManagesPodENIForZZ(pod, node, crd)
	nodeLookupFails := zz.Bool("node.lookup.fails")
	m := &ReconcilePodENI{client: &zzNodeGetter{node: node, fail: nodeLookupFails}, crdMode: crd}
	keeps := m.podRequirePodENI(context.Background(), pod)
	zz.Assert(zz.Implies(managed, keeps), "the collector keeps the record of every existing pod the pod controller maintains one for")
	exited := pod.Status.Phase == corev1.PodSucceeded || pod.Status.Phase == corev1.PodFailed
	zz.Assert(zz.Implies(exited || pod.Spec.HostNetwork, !keeps), "a pod whose sandbox has exited, or a host-network pod, does not hold a record back")
	if managed {
		zz.Reach("managed")
	}
}

// C10 (an interface is never taken from a live pod): the collector's verdict
// "this record can go" was formed on a listed snapshot; it must be written
// with the snapshot's resourceVersion (a conflict-checked status update), so
// that it is rejected when the record was re-bound to a re-created pod in
// between - an unconditional patch would land on the live pod's record.
// Same exploration as ZZ_C11_gc_cr_podenis.
// zz:noreplay time.Now is a symbolic clock under the engine
func ZZ_C10_gc_verdict_conflict_checked() { ZZ_C11_gc_cr_podenis() }
