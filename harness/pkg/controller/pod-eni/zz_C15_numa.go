//go:build verif

package podeni

import (
	"encoding/json"
	"strconv"

	zz "github.com/AliyunContainerService/terway/internal/zzverif"
)

// C15 (user-writable metadata never crashes the controller; malformed values
// are ignored): the NUMA hints read from the pod's cpuSet annotation.  The
// annotation is absent, not a JSON document of the expected shape, or a
// two-level object whose inner keys are arbitrary short strings (numbers,
// negative numbers, junk, duplicates across containers): parsing never
// panics, every hint is the number one of the keys spells, junk keys are
// dropped, duplicates are reported once.
func ZZ_C15_numa_hints() {
	anno := map[string]string{}
	kind := zz.Fork("cpuSet", 4) // 0 absent, 1 empty string, 2 not the expected document, 3 two-level object
	keys := []string{zz.OneOf("key0", "0", "1", "2", "-1", "x", "", "007", "999999999"), zz.OneOf("key1", "0", "1", "3", "junk")}
	switch kind {
	case 1:
		anno["cpuSet"] = ""
	case 2:
		anno["cpuSet"] = "[1,2"
	case 3:
		doc := map[string]map[string]any{"app": {keys[0]: "0-3"}}
		if zz.Bool("second.container") {
			doc["sidecar"] = map[string]any{keys[1]: "4-7"}
		} else {
			keys = keys[:1]
		}
		b, err := json.Marshal(doc)
		zz.Assert(err == nil, "the document serialises")
		anno["cpuSet"] = string(b)
	}
	hints := podNumaHints(anno)
	if kind != 3 {
		zz.Assert(len(hints) == 0, "no hint without a well-formed annotation")
		return
	}
	want := map[int]bool{}
	for _, k := range keys {
		if n, err := strconv.Atoi(k); err == nil {
			want[n] = true
		}
	}
	zz.Assert(len(hints) == len(want), "every numeric key yields one hint, junk keys none, duplicates once")
	for _, h := range hints {
		zz.Assert(want[h], "a hint is the number one of the keys spells")
	}
}
