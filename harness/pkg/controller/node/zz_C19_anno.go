//go:build verif

package node

import (
	"context"
	"strconv"

	corev1 "k8s.io/api/core/v1"
	metav1 "k8s.io/apimachinery/pkg/apis/meta/v1"
	"sigs.k8s.io/controller-runtime/pkg/client"

	zz "github.com/AliyunContainerService/terway/internal/zzverif"
	aliyunClient "github.com/AliyunContainerService/terway/pkg/aliyun/client"
	networkv1beta1 "github.com/AliyunContainerService/terway/pkg/apis/network.alibabacloud.com/v1beta1"
	"github.com/AliyunContainerService/terway/types"
)

type zzK8sClient struct {
	client.Client
	patched *corev1.Node
}

func (c *zzK8sClient) Patch(ctx context.Context, obj client.Object, patch client.Patch, opts ...client.PatchOption) error {
	c.patched = obj.(*corev1.Node)
	return nil
}

// C19(e): the pod-IP capacity annotation the controller puts on the node
// equals (standard secondary + trunk interface slots) x addresses per
// interface (exclusive-ENI mode: the number of secondary slots), hence never
// exceeds the attachable secondary interfaces times addresses per interface
// for any flavor within the instance limit; it is removed when it is zero.
// zz:noreplay client.MergeFrom / patch plumbing runs against an engine-side fake
func ZZ_C19_node_annotation() {
	ipPer := []int{0, 1, 10, 30}[zz.Fork("cap.ipv4PerAdapter", 4)]
	adapters := zz.IntRange("cap.adapters", 1, 16)
	nSec, nTrunk, nRdma := zz.IntRange("flavor.secondary", 0, 16), zz.IntRange("flavor.trunk", 0, 1), zz.IntRange("flavor.rdma", 0, 1)
	zz.Assume(nSec+nTrunk+nRdma <= adapters-1) // what the daemon publishes (ZZ_C19_node_cr_flavor)
	node := &networkv1beta1.Node{ObjectMeta: metav1.ObjectMeta{Name: "n1", Labels: map[string]string{}}}
	node.Spec.NodeCap = networkv1beta1.NodeCap{Adapters: adapters, IPv4PerAdapter: ipPer, MemberAdapterLimit: zz.IntRange("cap.member", 0, 64)}
	node.Spec.ENISpec = &networkv1beta1.ENISpec{EnableTrunk: zz.Bool("enableTrunk")}
	node.Spec.Flavor = []networkv1beta1.Flavor{
		{NetworkInterfaceType: networkv1beta1.ENITypeTrunk, NetworkInterfaceTrafficMode: networkv1beta1.NetworkInterfaceTrafficModeStandard, Count: nTrunk},
		{NetworkInterfaceType: networkv1beta1.ENITypeSecondary, NetworkInterfaceTrafficMode: networkv1beta1.NetworkInterfaceTrafficModeHighPerformance, Count: nRdma},
		{NetworkInterfaceType: networkv1beta1.ENITypeSecondary, NetworkInterfaceTrafficMode: networkv1beta1.NetworkInterfaceTrafficModeStandard, Count: nSec},
	}
	exclusive := zz.Bool("exclusive")
	if exclusive {
		node.Labels[types.ExclusiveENIModeLabel] = string(types.ExclusiveENIOnly)
	}
	if zz.Bool("trunk.attached") {
		node.Status.NetworkInterfaces = map[string]*networkv1beta1.NetworkInterface{"eni-t": {ID: "eni-t", NetworkInterfaceType: networkv1beta1.ENITypeTrunk, Status: zz.OneOf("trunk.status", aliyunClient.ENIStatusInUse, aliyunClient.ENIStatusAttaching)}}
	}
	k8sNode := &corev1.Node{ObjectMeta: metav1.ObjectMeta{Name: "n1", Annotations: map[string]string{string(types.NormalIPTypeIPs): "999"}}}
	cl := &zzK8sClient{}
	r := &ReconcileNode{client: cl}
	err := r.k8sAnno(context.Background(), k8sNode, node)
	zz.Assert(err == nil, "annotating succeeds")
	want := (nSec + nTrunk) * ipPer
	if exclusive {
		want = nSec
	}
	got, has := k8sNode.Annotations[string(types.NormalIPTypeIPs)]
	zz.Assert(has == (want > 0), "a zero capacity is not advertised at all")
	if has {
		zz.Assert(got == strconv.Itoa(want), "the advertised pod-IP capacity equals usable interface slots times addresses per interface")
	}
	if !exclusive {
		zz.Assert(want <= (adapters-1)*ipPer, "the advertised pod-IP capacity never exceeds attachable secondary interfaces times addresses per interface")
	}
	tid, hasT := k8sNode.Annotations[types.TrunkOn]
	zz.Assert(zz.Implies(hasT, zz.And(tid == "eni-t", node.Spec.ENISpec.EnableTrunk, !exclusive)), "the trunk annotation only ever names an attached trunk interface of a trunk-enabled node")
}

type zzK8sStatusClient struct {
	client.Client
	patched *corev1.Node
}

func (c *zzK8sStatusClient) Status() client.SubResourceWriter { return &zzK8sStatusWriter{c: c} }

type zzK8sStatusWriter struct {
	client.SubResourceWriter
	c *zzK8sStatusClient
}

func (w *zzK8sStatusWriter) Patch(ctx context.Context, obj client.Object, patch client.Patch, opts ...client.SubResourcePatchOption) error {
	w.c.patched = obj.(*corev1.Node)
	return nil
}

// C19(e): the extended resources the controller reports on the node.  In
// exclusive-ENI mode the number of ENI devices is the number of standard
// secondary slots of the flavor (hence at most the attachable secondary
// interfaces); otherwise member-ENI devices are reported only on a
// trunk-enabled node whose trunk interface is attached and in use, and then
// exactly the member-adapter limit of the instance type; nothing is reported
// for a node whose configuration is not published yet.
// zz:noreplay client.MergeFrom / patch plumbing runs against an engine-side fake
func ZZ_C19_node_resources() {
	adapters := zz.IntRange("cap.adapters", 1, 16)
	nSec, nTrunk := zz.IntRange("flavor.secondary", 0, 16), zz.IntRange("flavor.trunk", 0, 1)
	zz.Assume(nSec+nTrunk <= adapters-1) // what the daemon publishes (ZZ_C19_node_cr_flavor)
	members := zz.IntRange("cap.member", 0, 64)
	node := &networkv1beta1.Node{ObjectMeta: metav1.ObjectMeta{Name: "n1", Labels: map[string]string{}}}
	node.Spec.NodeCap = networkv1beta1.NodeCap{Adapters: adapters, MemberAdapterLimit: members}
	published := zz.Bool("config.published")
	trunkOn := zz.Bool("enableTrunk")
	if published {
		node.Spec.ENISpec = &networkv1beta1.ENISpec{EnableTrunk: trunkOn}
	}
	node.Spec.Flavor = []networkv1beta1.Flavor{
		{NetworkInterfaceType: networkv1beta1.ENITypeTrunk, NetworkInterfaceTrafficMode: networkv1beta1.NetworkInterfaceTrafficModeStandard, Count: nTrunk},
		{NetworkInterfaceType: networkv1beta1.ENITypeSecondary, NetworkInterfaceTrafficMode: networkv1beta1.NetworkInterfaceTrafficModeHighPerformance, Count: 1},
		{NetworkInterfaceType: networkv1beta1.ENITypeSecondary, NetworkInterfaceTrafficMode: networkv1beta1.NetworkInterfaceTrafficModeStandard, Count: nSec},
	}
	exclusive := zz.Bool("exclusive")
	if exclusive {
		node.Labels[types.ExclusiveENIModeLabel] = string(types.ExclusiveENIOnly)
	}
	trunkReady := false
	switch zz.Fork("trunk.eni", 3) {
	case 1:
		node.Status.NetworkInterfaces = map[string]*networkv1beta1.NetworkInterface{"eni-t": {ID: "eni-t", NetworkInterfaceType: networkv1beta1.ENITypeTrunk, Status: aliyunClient.ENIStatusInUse}}
		trunkReady = true
	case 2:
		node.Status.NetworkInterfaces = map[string]*networkv1beta1.NetworkInterface{"eni-t": {ID: "eni-t", NetworkInterfaceType: networkv1beta1.ENITypeTrunk, Status: aliyunClient.ENIStatusAttaching},
			"eni-s": {ID: "eni-s", NetworkInterfaceType: networkv1beta1.ENITypeSecondary, Status: aliyunClient.ENIStatusInUse}}
	}
	k8sNode := &corev1.Node{ObjectMeta: metav1.ObjectMeta{Name: "n1"}}
	cl := &zzK8sStatusClient{}
	r := &ReconcileNode{client: cl}
	err := r.patchNodeRes(context.Background(), k8sNode, node)
	zz.Assert(err == nil, "reporting succeeds")
	eniQ, hasENI := k8sNode.Status.Allocatable["aliyun/eni"]
	memQ, hasMem := k8sNode.Status.Allocatable["aliyun/member-eni"]
	if !published {
		zz.Assert(!hasENI && !hasMem && cl.patched == nil, "nothing is reported before the node's configuration is published")
		return
	}
	if exclusive {
		zz.Assert(!hasMem, "no member-ENI devices in exclusive-ENI mode")
		zz.Assert(hasENI == (nSec > 0) && (!hasENI || eniQ.Value() == int64(nSec)), "exclusive-ENI devices: one per standard secondary slot of the flavor")
		zz.Assert(nSec <= adapters-1, "hence never more than the attachable secondary interfaces")
	} else {
		zz.Assert(!hasENI, "no exclusive-ENI devices outside exclusive-ENI mode")
		report := trunkOn && trunkReady && members > 0
		zz.Assert(hasMem == report && (!hasMem || memQ.Value() == int64(members)), "member-ENI devices only with trunking enabled and the trunk interface in use, and then exactly the type's member-adapter limit")
	}
	capQ, hasCap := k8sNode.Status.Capacity["aliyun/eni"]
	zz.Assert(hasCap == hasENI && (!hasCap || capQ.Value() == eniQ.Value()), "capacity and allocatable agree")
}
