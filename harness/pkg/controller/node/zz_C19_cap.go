//go:build verif

package node

import (
	"context"
	"errors"

	corev1 "k8s.io/api/core/v1"
	metav1 "k8s.io/apimachinery/pkg/apis/meta/v1"
	"sigs.k8s.io/controller-runtime/pkg/client"
	"sigs.k8s.io/controller-runtime/pkg/controller/controllerutil"

	zz "github.com/AliyunContainerService/terway/internal/zzverif"
	aliyunClient "github.com/AliyunContainerService/terway/pkg/aliyun/client"
	networkv1beta1 "github.com/AliyunContainerService/terway/pkg/apis/network.alibabacloud.com/v1beta1"
)

type zzLimitProvider struct {
	limit *aliyunClient.Limits
	fail  bool
	asked string
}

var errZZLimit = errors.New("describe instance types failed")

func (p *zzLimitProvider) GetLimit(client interface{}, instanceType string) (*aliyunClient.Limits, error) {
	p.asked = instanceType
	if p.fail {
		return nil, errZZLimit
	}
	return p.limit, nil
}
func (p *zzLimitProvider) GetLimitFromAnno(anno map[string]string) (*aliyunClient.Limits, error) {
	return nil, errZZLimit
}

// C19 (the capability the controller publishes in the Node CR): for every
// limit vector of the instance type, the CR's capability carries the type's
// interface and per-interface address limits as they are, and as its RDMA
// quantity the number of RDMA interfaces terway will actually use - none on a
// type with at most two interfaces, at most one below eight interfaces, at
// most two otherwise, never more than the type has - because the daemon gates
// RDMA on that number and sizes the RDMA device resource with it.  A failed
// limit lookup publishes nothing.
// zz:noreplay controllerutil.CreateOrPatch is summarised through an engine-side override
func ZZ_C19_node_cr_capability() {
	limit := &aliyunClient.Limits{
		Adapters:              zz.IntRange("limit.adapters", 1, 16),
		TotalAdapters:         zz.IntRange("limit.total", 1, 32),
		IPv4PerAdapter:        zz.IntRange("limit.ipv4", 0, 64),
		IPv6PerAdapter:        zz.IntRange("limit.ipv6", 0, 64),
		MemberAdapterLimit:    zz.IntRange("limit.member", 0, 128),
		MaxMemberAdapterLimit: zz.IntRange("limit.maxmember", 0, 256),
		ERdmaAdapters:         zz.IntRange("limit.erdma", 0, 8),
		InstanceBandwidthRx:   zz.IntRange("limit.rx", 0, 1000000),
		InstanceBandwidthTx:   zz.IntRange("limit.tx", 0, 1000000),
	}
	prov := &zzLimitProvider{limit: limit, fail: zz.Bool("limit.lookup.fails")}
	aliyunClient.LimitProviders = map[string]aliyunClient.LimitProvider{"ecs": prov}
	var written *networkv1beta1.Node
	zz.Override("sigs.k8s.io/controller-runtime/pkg/controller/controllerutil.CreateOrPatch", func(ctx context.Context, c client.Client, obj client.Object, f controllerutil.MutateFn) (controllerutil.OperationResult, error) {
		if err := f(); err != nil {
			return controllerutil.OperationResultNone, err
		}
		written = obj.(*networkv1beta1.Node)
		return controllerutil.OperationResultCreated, nil
	})
	k8sNode := &corev1.Node{ObjectMeta: metav1.ObjectMeta{Name: "n1", Labels: map[string]string{
		corev1.LabelTopologyRegion: "cn-x", corev1.LabelInstanceTypeStable: "ecs.g7.large", corev1.LabelTopologyZone: "cn-x-a"}}}
	k8sNode.Spec.ProviderID = "cn-x.i-1"
	node := &networkv1beta1.Node{ObjectMeta: metav1.ObjectMeta{Name: "n1"}}
	r := &ReconcileNode{client: &zzK8sClient{}}
	err := r.createOrUpdate(context.Background(), k8sNode, node)
	if prov.fail {
		zz.Assert(err != nil && written == nil, "a failed limit lookup publishes nothing")
		return
	}
	zz.Assert(err == nil && written != nil, "the Node CR is written")
	if written == nil {
		return
	}
	zz.Assert(prov.asked == "ecs.g7.large", "the limits are those of the node's instance type")
	nc := written.Spec.NodeCap
	zz.Assert(nc.Adapters == limit.Adapters && nc.TotalAdapters == limit.TotalAdapters && nc.IPv4PerAdapter == limit.IPv4PerAdapter && nc.IPv6PerAdapter == limit.IPv6PerAdapter &&
		nc.MemberAdapterLimit == limit.MemberAdapterLimit && nc.MaxMemberAdapterLimit == limit.MaxMemberAdapterLimit &&
		nc.InstanceBandwidthRx == limit.InstanceBandwidthRx && nc.InstanceBandwidthTx == limit.InstanceBandwidthTx, "the published capability carries the instance type's limits as they are")
	zz.Assert(nc.EriQuantity >= 0 && nc.EriQuantity <= limit.ERdmaAdapters, "never more RDMA interfaces than the type has")
	zz.Assert(zz.Implies(limit.Adapters <= 2, nc.EriQuantity == 0), "no RDMA interface on a type with at most two interfaces (the only secondary slot stays an ordinary one)")
	zz.Assert(zz.Implies(limit.Adapters < 8, nc.EriQuantity <= 1) && nc.EriQuantity <= 2, "at most one RDMA interface below eight interfaces, at most two otherwise")
	zz.Assert(nc.EriQuantity == limit.ERDMARes(), "the published RDMA quantity is the number of RDMA interfaces terway uses")
	zz.Assert(written.Spec.NodeMetadata.InstanceID == "i-1" && written.Spec.NodeMetadata.InstanceType == "ecs.g7.large" && written.Spec.NodeMetadata.ZoneID == "cn-x-a" && written.Spec.NodeMetadata.RegionID == "cn-x", "the CR names the node's instance")
}
