//go:build verif

package status

import (
	"strconv"

	zz "github.com/AliyunContainerService/terway/internal/zzverif"
)

// C15: the network-card index request is driven by user-controlled values -
// the NUMA hint comes from the pod's cpuSet annotation, the preferred index
// from a stored PodENI record.  For every number of cards, every arbitrary
// hint / index (including negative and huge values) and every card occupancy
// the call returns nil or a valid card index and never panics.
func ZZ_C15_request_network_index() {
	cards := zz.Fork("cards", 4)
	n := NewNodeStatus(cards)
	for i := 0; i < cards; i++ {
		if zz.Bool("card" + strconv.Itoa(i) + ".busy") {
			n.NetworkCards[i].NetworkInterfaces.Insert(NetworkInterfaceID("eni-x" + strconv.Itoa(i)))
		}
	}
	var prefer, numa *int
	if zz.Bool("has.prefer") {
		v := zz.Int("prefer")
		prefer = &v
	}
	if zz.Bool("has.numa") {
		v := zz.Int("numa")
		numa = &v
	}
	got := n.RequestNetworkIndex("eni-1", prefer, numa)
	zz.Assert(zz.LockState(&n.lock) == 0, "the node status lock is released")
	if got != nil {
		zz.Assert(*got >= 0 && *got < cards, "a granted card index names an existing network card")
		if prefer != nil {
			zz.Assert(*got == *prefer, "a preferred (recorded) index is honoured exactly")
		} else if numa != nil {
			zz.Assert(*got%2 == *numa, "a NUMA hint is honoured")
		}
		held := 0
		for _, c := range n.NetworkCards {
			if c.NetworkInterfaces.Has("eni-1") {
				held++
				zz.Assert(c.CardIndex == *got, "the interface is recorded on the granted card")
			}
		}
		zz.Assert(held == 1, "an interface is recorded on exactly one card")
	} else {
		for _, c := range n.NetworkCards {
			zz.Assert(!c.NetworkInterfaces.Has("eni-1"), "a refused request records nothing")
		}
	}
	zz.Reach("returned")
}
