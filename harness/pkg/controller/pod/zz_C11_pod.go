//go:build verif

package pod

// C11 (fixed addresses survive re-creation: the record is kept until its
// release strategy says otherwise), pod-deletion side: when the pod of a
// record goes away the record is detached and *kept* (phase detaching) as soon
// as any of its allocations is fixed - whatever the order of fixed and elastic
// allocations - and only a record without any fixed allocation is sent to
// deleting.  Same exploration as ZZ_C10_pod_reconcile.
// zz:noreplay parse and createENI (PodNetworking resolution, concurrent cloud calls) are summarised through engine-side overrides
func ZZ_C11_pod_gone_keeps_fixed_record() { ZZ_C10_pod_reconcile() }
