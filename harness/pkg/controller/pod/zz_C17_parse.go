//go:build verif

package pod

import (
	"context"
	"strconv"

	zz "github.com/AliyunContainerService/terway/internal/zzverif"
	aliyunClient "github.com/AliyunContainerService/terway/pkg/aliyun/client"
	"github.com/AliyunContainerService/terway/pkg/apis/network.alibabacloud.com/v1beta1"
	"github.com/AliyunContainerService/terway/pkg/vswitch"
	"github.com/AliyunContainerService/terway/types/controlplane"
)

type zzGetOneCall struct {
	zone   string
	ids    []string
	policy vswitch.SelectionPolicy
	ignore bool
}

// C17 (the selection policy is per request): a pod with several networks.
// For each network the controller asks the vSwitch pool with that network's
// own policy (none / "ordered" = first eligible candidate, "random", "most"),
// its own candidate list, the node's zone and no zone fall-back - nothing of
// the network before it - and the allocation carries the vSwitch the pool
// returned for it.
// zz:noreplay SwitchPool.GetOne is replaced through an engine-side override (it has harnesses of its own)
func ZZ_C17_per_network_policy() {
	var calls []zzGetOneCall
	zz.Override("(*github.com/AliyunContainerService/terway/pkg/vswitch.SwitchPool).GetOne", func(s *vswitch.SwitchPool, ctx context.Context, client aliyunClient.VPC, zone string, ids []string, opts ...vswitch.SelectOption) (*vswitch.Switch, error) {
		o := (&vswitch.SelectOptions{}).ApplyOptions(opts)
		calls = append(calls, zzGetOneCall{zone: zone, ids: ids, policy: o.VSwitchSelectPolicy, ignore: o.IgnoreZone})
		return &vswitch.Switch{ID: "picked-" + strconv.Itoa(len(calls)-1), Zone: zone, IPv4CIDR: "10." + strconv.Itoa(len(calls)-1) + ".0.0/24"}, nil
	})
	anno := &controlplane.PodNetworksAnnotation{}
	n := 2
	want := make([]vswitch.SelectionPolicy, n)
	for i := 0; i < n; i++ {
		is := strconv.Itoa(i)
		pn := controlplane.PodNetworks{VSwitchOptions: []string{"vsw-" + is + "a", "vsw-" + is + "b"}, SecurityGroupIDs: []string{"sg-1"}, Interface: "eth" + is}
		switch zz.Fork("net"+is+".policy", 4) {
		case 0:
			want[i] = vswitch.VSwitchSelectionPolicyOrdered
		case 1:
			pn.VSwitchSelectOptions.VSwitchSelectionPolicy = v1beta1.VSwitchSelectionPolicyOrdered
			want[i] = vswitch.VSwitchSelectionPolicyOrdered
		case 2:
			pn.VSwitchSelectOptions.VSwitchSelectionPolicy = v1beta1.VSwitchSelectionPolicyRandom
			want[i] = vswitch.VSwitchSelectionPolicyRandom
		case 3:
			pn.VSwitchSelectOptions.VSwitchSelectionPolicy = v1beta1.VSwitchSelectionPolicyMost
			want[i] = vswitch.VSwitchSelectionPolicyMost
		}
		anno.PodNetworks = append(anno.PodNetworks, pn)
	}
	m := &ReconcilePod{swPool: &vswitch.SwitchPool{}}
	allocs, err := m.ParsePodNetworksFromAnnotation(context.Background(), "zone-a", anno)
	zz.Assert(err == nil && len(allocs) == n && len(calls) == n, "one selection and one allocation per network")
	if err != nil || len(allocs) != n || len(calls) != n {
		return
	}
	for i := 0; i < n; i++ {
		is := strconv.Itoa(i)
		c := calls[i]
		zz.Assert(c.policy == want[i], "each network's vSwitch is selected with that network's own policy (none = ordered), whatever the network before it asked for")
		zz.Assert(c.zone == "zone-a" && !c.ignore, "the selection is confined to the node's zone")
		zz.Assert(len(c.ids) == 2 && c.ids[0] == "vsw-"+is+"a" && c.ids[1] == "vsw-"+is+"b", "the candidates are the network's own list, in its order")
		zz.Assert(allocs[i].ENI.VSwitchID == "picked-"+is && allocs[i].IPv4CIDR == "10."+is+".0.0/24" && allocs[i].Interface == "eth"+is, "the allocation carries the vSwitch selected for it")
	}
}
