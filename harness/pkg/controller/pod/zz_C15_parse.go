//go:build verif

package pod

import (
	"context"

	zz "github.com/AliyunContainerService/terway/internal/zzverif"
	aliyunClient "github.com/AliyunContainerService/terway/pkg/aliyun/client"
	"github.com/AliyunContainerService/terway/pkg/apis/network.alibabacloud.com/v1beta1"
	"github.com/AliyunContainerService/terway/pkg/vswitch"
	"github.com/AliyunContainerService/terway/types/controlplane"
)

// C15 (no value of the pod-networks annotation makes a controller panic): the
// pod controller's consumer of the parsed annotation.  The annotation is
// user-writable and may reach the controller without the webhook's defaults:
// every optional part - allocation type, interface name, attachment type,
// extra routes, selection policy - present or absent (an absent allocation
// type is a nil pointer), empty vSwitch / security-group lists, an empty zone:
// the call returns allocations or an error, it never panics.
// zz:noreplay SwitchPool.GetOne is replaced through an engine-side override
func ZZ_C15_pod_networks_optional_parts() {
	zz.Override("(*github.com/AliyunContainerService/terway/pkg/vswitch.SwitchPool).GetOne", func(s *vswitch.SwitchPool, ctx context.Context, client aliyunClient.VPC, zone string, ids []string, opts ...vswitch.SelectOption) (*vswitch.Switch, error) {
		if zz.Bool("vswitch.selection.fails") {
			return nil, errZZ
		}
		return &vswitch.Switch{ID: "picked", Zone: zone, IPv4CIDR: "10.0.0.0/24"}, nil
	})
	pn := controlplane.PodNetworks{}
	if zz.Bool("has.vswitches") {
		pn.VSwitchOptions = []string{"vsw-1"}
	}
	if zz.Bool("has.security.groups") {
		pn.SecurityGroupIDs = []string{"sg-1"}
	}
	if zz.Bool("has.interface.name") {
		pn.Interface = "eth1"
	}
	if zz.Bool("has.allocation.type") {
		pn.AllocationType = &v1beta1.AllocationType{Type: v1beta1.IPAllocTypeFixed, ReleaseStrategy: v1beta1.ReleaseStrategyTTL, ReleaseAfter: "10m"}
	}
	pn.ENIOptions.ENIAttachType = []v1beta1.ENIAttachType{"", v1beta1.ENIOptionTypeENI, v1beta1.ENIOptionTypeTrunk}[zz.Fork("attach.type", 3)]
	anno := &controlplane.PodNetworksAnnotation{}
	if zz.Bool("has.network") {
		anno.PodNetworks = []controlplane.PodNetworks{pn}
	}
	m := &ReconcilePod{swPool: &vswitch.SwitchPool{}}
	allocs, err := m.ParsePodNetworksFromAnnotation(context.Background(), zz.OneOf("zone", "", "zone-a"), anno)
	zz.Assert(err != nil || len(allocs) == len(anno.PodNetworks), "the call returns an error or one allocation per network")
	if err == nil && len(allocs) == 1 {
		zz.Assert(allocs[0].ENI.VSwitchID == "picked" && (allocs[0].Interface == "eth1" || allocs[0].Interface == defaultInterface), "the allocation names the selected vSwitch and an interface")
		zz.Assert(zz.Implies(pn.AllocationType == nil, allocs[0].AllocationType.Type == ""), "an absent allocation type stays unset")
	}
}
