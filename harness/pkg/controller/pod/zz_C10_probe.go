//go:build verif

package pod

import (
	"context"

	corev1 "k8s.io/api/core/v1"
	metav1 "k8s.io/apimachinery/pkg/apis/meta/v1"
	k8stypes "k8s.io/apimachinery/pkg/types"
	"sigs.k8s.io/controller-runtime/pkg/reconcile"

	"github.com/AliyunContainerService/terway/pkg/apis/network.alibabacloud.com/v1beta1"
	"github.com/AliyunContainerService/terway/types"
)

// ManagesPodENIForZZ runs the pod controller's real Reconcile for the pod on
// the node and reports whether it gets as far as looking after the pod's
// PodENI record (it finds a record already bound to this pod instance and
// leaves it alone).  Used by the record collector's harness in pod-eni: what
// one controller maintains the other must not reap.
func ManagesPodENIForZZ(pod *corev1.Pod, node *corev1.Node, crdMode bool) bool {
	rec := &v1beta1.PodENI{ObjectMeta: metav1.ObjectMeta{Namespace: pod.Namespace, Name: pod.Name, Annotations: map[string]string{types.PodUID: string(pod.UID)}}}
	rec.Status.Phase = v1beta1.ENIPhaseBind
	c := &zzClient{pod: pod, node: node, podENI: rec}
	m := &ReconcilePod{client: c, crdMode: crdMode}
	_, err := m.Reconcile(context.Background(), reconcile.Request{NamespacedName: k8stypes.NamespacedName{Namespace: pod.Namespace, Name: pod.Name}})
	return err == nil && c.podENIGets > 0 && len(c.writes) == 0
}
