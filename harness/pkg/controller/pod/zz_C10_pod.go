//go:build verif

package pod

import (
	"context"
	"errors"
	"strconv"

	corev1 "k8s.io/api/core/v1"
	k8sErr "k8s.io/apimachinery/pkg/api/errors"
	metav1 "k8s.io/apimachinery/pkg/apis/meta/v1"
	"k8s.io/apimachinery/pkg/runtime/schema"
	k8stypes "k8s.io/apimachinery/pkg/types"
	"sigs.k8s.io/controller-runtime/pkg/client"
	"sigs.k8s.io/controller-runtime/pkg/reconcile"

	zz "github.com/AliyunContainerService/terway/internal/zzverif"
	"github.com/AliyunContainerService/terway/pkg/apis/network.alibabacloud.com/v1beta1"
	register "github.com/AliyunContainerService/terway/pkg/controller"
	"github.com/AliyunContainerService/terway/pkg/controller/common"
	"github.com/AliyunContainerService/terway/types"
)

var errZZ = errors.New("api server / cloud error")

type zzWrite struct {
	kind  string // status-update | update | patch | delete | create
	phase v1beta1.Phase
	uid   string
	enis  string // interface ids of the allocations, comma separated
}

type zzClient struct {
	client.Client
	pod        *corev1.Pod // nil: not found
	podErr     bool
	node       *corev1.Node
	podENI     *v1beta1.PodENI // nil: not found
	podENIGets int
	writes     []zzWrite
	createErr  bool
	writeErr   bool
}

func (c *zzClient) Get(ctx context.Context, key client.ObjectKey, obj client.Object, opts ...client.GetOption) error {
	switch o := obj.(type) {
	case *corev1.Pod:
		if c.podErr {
			return errZZ
		}
		if c.pod == nil {
			return k8sErr.NewNotFound(schema.GroupResource{Resource: "pods"}, key.Name)
		}
		*o = *c.pod
		return nil
	case *corev1.Node:
		*o = *c.node
		return nil
	case *v1beta1.PodENI:
		c.podENIGets++
		if c.podENI == nil {
			return k8sErr.NewNotFound(schema.GroupResource{Resource: "podenis"}, key.Name)
		}
		*o = *c.podENI.DeepCopy()
		return nil
	}
	return errZZ
}
func (c *zzClient) rec(kind string, obj client.Object) error {
	w := zzWrite{kind: kind}
	if p, ok := obj.(*v1beta1.PodENI); ok {
		w.phase = p.Status.Phase
		w.uid = p.Annotations[types.PodUID]
		for _, a := range p.Spec.Allocations {
			w.enis += a.ENI.ID + ","
		}
	}
	c.writes = append(c.writes, w)
	if c.writeErr {
		return errZZ
	}
	return nil
}
func (c *zzClient) Create(ctx context.Context, obj client.Object, opts ...client.CreateOption) error {
	if c.createErr {
		c.writes = append(c.writes, zzWrite{kind: "create-failed"})
		return errZZ
	}
	return c.rec("create", obj)
}
func (c *zzClient) Update(ctx context.Context, obj client.Object, opts ...client.UpdateOption) error {
	return c.rec("update", obj)
}
func (c *zzClient) Patch(ctx context.Context, obj client.Object, patch client.Patch, opts ...client.PatchOption) error {
	return c.rec("patch", obj)
}
func (c *zzClient) Delete(ctx context.Context, obj client.Object, opts ...client.DeleteOption) error {
	return c.rec("delete", obj)
}
func (c *zzClient) Status() client.SubResourceWriter { return &zzStatus{c: c} }

type zzStatus struct {
	client.SubResourceWriter
	c *zzClient
}

func (w *zzStatus) Update(ctx context.Context, obj client.Object, opts ...client.SubResourceUpdateOption) error {
	return w.c.rec("status-update", obj)
}

// a merge patch carries no resourceVersion: it cannot be rejected when the record changed meanwhile
func (w *zzStatus) Patch(ctx context.Context, obj client.Object, patch client.Patch, opts ...client.SubResourcePatchOption) error {
	return w.c.rec("status-patch", obj)
}

type zzCloud struct {
	register.Interface
	deleted   []string
	deleteErr bool
}

func (c *zzCloud) DeleteNetworkInterface(ctx context.Context, eniID string) error {
	c.deleted = append(c.deleted, eniID)
	if c.deleteErr {
		return errZZ
	}
	return nil
}

const zzParse = "(*github.com/AliyunContainerService/terway/pkg/controller/pod.ReconcilePod).parse"
const zzCreateENI = "(*github.com/AliyunContainerService/terway/pkg/controller/pod.ReconcilePod).createENI"

// C10: one Reconcile of the pod controller from an arbitrary observed state
// (pod absent / present with arbitrary phase, UID, deletion mark; record
// absent / present with arbitrary phase, owner UID, fixed allocation).
// zz:noreplay parse and createENI (PodNetworking resolution, concurrent cloud calls) are summarised through engine-side overrides
func ZZ_C10_pod_reconcile() {
	cl := &zzClient{createErr: zz.Bool("create.fails"), writeErr: zz.Bool("write.fails"), podErr: zz.Bool("pod.lookup.fails")}
	cloud := &zzCloud{deleteErr: zz.Bool("cloud.delete.fails")}
	cl.node = &corev1.Node{ObjectMeta: metav1.ObjectMeta{Name: "node-1"}}
	podUID := zz.OneOf("pod.uid", "uid-a", "uid-b")
	podState := zz.Fork("pod.state", 4) // 0 absent, 1 running, 2 sandbox exited, 3 running + deletion mark
	if podState != 0 {
		cl.pod = &corev1.Pod{ObjectMeta: metav1.ObjectMeta{Namespace: "ns", Name: "p0", UID: k8stypes.UID(podUID)}}
		cl.pod.Spec.NodeName = "node-1"
		cl.pod.Status.Phase = corev1.PodRunning
		if podState == 2 {
			cl.pod.Status.Phase = corev1.PodPhase(zz.OneOf("pod.phase", string(corev1.PodSucceeded), string(corev1.PodFailed)))
		}
		if podState == 3 {
			ts := metav1.Unix(1700000000, 0)
			cl.pod.DeletionTimestamp = &ts
		}
	}
	phases := []v1beta1.Phase{v1beta1.ENIPhaseInitial, v1beta1.ENIPhaseBind, v1beta1.ENIPhaseBinding, v1beta1.ENIPhaseUnbind, v1beta1.ENIPhaseDetaching, v1beta1.ENIPhaseDeleting}
	var oldPhase v1beta1.Phase
	recUID := ""
	hasRec := zz.Bool("record.exists")
	fixed := false
	recENIs := "eni-old,"
	if hasRec {
		oldPhase = phases[zz.Fork("record.phase", len(phases))]
		recUID = zz.OneOf("record.uid", "uid-a", "uid-b", "")
		// one or two allocations, each fixed or elastic (a multi-network pod may mix them, in any order):
		// the record "has a fixed IP" when any allocation is fixed
		fixed1 := zz.Bool("record.fixed")
		r := &v1beta1.PodENI{ObjectMeta: metav1.ObjectMeta{Namespace: "ns", Name: "p0", Annotations: map[string]string{types.PodUID: recUID}, Labels: map[string]string{}}}
		r.Status.Phase = oldPhase
		typeOf := func(f bool) v1beta1.IPAllocType {
			if f {
				return v1beta1.IPAllocTypeFixed
			}
			return v1beta1.IPAllocTypeElastic
		}
		r.Spec.Allocations = []v1beta1.Allocation{{ENI: v1beta1.ENI{ID: "eni-old"}, AllocationType: v1beta1.AllocationType{Type: typeOf(fixed1)}}}
		fixed = fixed1
		if zz.Bool("record.second.allocation") {
			fixed2 := zz.Bool("record.second.fixed")
			r.Spec.Allocations = append(r.Spec.Allocations, v1beta1.Allocation{ENI: v1beta1.ENI{ID: "eni-old2"}, AllocationType: v1beta1.AllocationType{Type: typeOf(fixed2)}})
			fixed = fixed1 || fixed2
			recENIs = "eni-old,eni-old2,"
		}
		if zz.Bool("record.deleting") {
			ts := metav1.Unix(1700000000, 0)
			r.DeletionTimestamp = &ts
		}
		cl.podENI = r
	}
	m := &ReconcilePod{client: cl, aliyun: cloud, crdMode: true}
	created := 0
	zz.Override(zzParse, func(m *ReconcilePod, ctx context.Context, pod *corev1.Pod, node *corev1.Node) (*common.NodeInfo, []*v1beta1.Allocation, error) {
		if zz.Bool("parse.fails") {
			return nil, nil, errZZ
		}
		n := zz.Fork("parse.allocs", 2) + 1
		var out []*v1beta1.Allocation
		for i := 0; i < n; i++ {
			out = append(out, &v1beta1.Allocation{AllocationType: v1beta1.AllocationType{Type: v1beta1.IPAllocTypeElastic}})
		}
		return &common.NodeInfo{NodeName: "node-1", ZoneID: "z1"}, out, nil
	})
	zz.Override(zzCreateENI, func(m *ReconcilePod, ctx context.Context, allocs *[]*v1beta1.Allocation, pod *corev1.Pod, podENI *v1beta1.PodENI) error {
		// the cloud creates interfaces one by one; any call may fail
		for i := range *allocs {
			if zz.Bool("cloud.create.fails") {
				return errZZ
			}
			created++
			a := *(*allocs)[i]
			a.ENI.ID = "eni-new-" + strconv.Itoa(i)
			podENI.Spec.Allocations = append(podENI.Spec.Allocations, a)
		}
		return nil
	})

	_, err := m.Reconcile(context.Background(), reconcile.Request{NamespacedName: k8stypes.NamespacedName{Namespace: "ns", Name: "p0"}})

	livePod := podState == 1 || podState == 3 // pod object exists and its sandbox has not exited
	sameInstance := livePod && hasRec && recUID == podUID
	for _, w := range cl.writes {
		destructive := w.kind == "delete" || ((w.kind == "status-update" || w.kind == "update") && (w.phase == v1beta1.ENIPhaseDetaching || w.phase == v1beta1.ENIPhaseDeleting) && w.phase != oldPhase)
		zz.Assert(zz.Implies(sameInstance, !destructive), "the record of a pod instance that is still running is never sent to detaching / deleting nor deleted")
		if w.kind == "status-update" && hasRec && w.phase != oldPhase {
			ok := (oldPhase == v1beta1.ENIPhaseUnbind && w.phase == v1beta1.ENIPhaseBinding) ||
				(oldPhase == v1beta1.ENIPhaseBind && w.phase == v1beta1.ENIPhaseDetaching) ||
				w.phase == v1beta1.ENIPhaseDeleting ||
				(w.phase == v1beta1.ENIPhaseDetaching && fixed)
			zz.Assert(ok, "the pod controller only makes documented phase transitions (unbound->binding, bound->detaching, any->deleting/detaching on pod deletion)")
		}
	}
	if sameInstance {
		zz.Assert(len(cloud.deleted) == 0, "no interface of a running pod instance is deleted in the cloud")
	}
	for _, w := range cl.writes {
		zz.Assert(w.kind != "status-patch" || !hasRec || w.phase == oldPhase, "a phase change is written with a conflict-checked update, never with an unconditional patch")
	}
	// re-binding a retained (unbound) record to the pod that came back: first the record is re-targeted
	// to the new pod instance, then - in a later pass - moved to binding; interface and address are kept
	if !cl.podErr && podState == 1 && hasRec && oldPhase == v1beta1.ENIPhaseUnbind && cl.podENI.DeletionTimestamp.IsZero() {
		zz.Reach("rebind")
		zz.Assert(len(cl.writes) == 1 && len(cloud.deleted) == 0 && created == 0, "re-binding is one write per pass and touches no interface")
		if len(cl.writes) == 1 {
			w := cl.writes[0]
			zz.Assert(w.enis == recENIs, "the retained interfaces (and with them the addresses) are kept by the re-binding")
			if recUID != podUID {
				zz.Assert(w.kind == "update" && w.uid == podUID && w.phase == v1beta1.ENIPhaseUnbind, "a record of a previous pod instance is first re-targeted to the new instance, its phase untouched")
			} else {
				zz.Assert(w.kind == "status-update" && w.phase == v1beta1.ENIPhaseBinding && w.uid == podUID, "a record that already names this pod instance is moved to binding with a conflict-checked status update")
			}
			zz.Assert(zz.Implies(cl.writeErr, err != nil), "a failed write is reported (the pass is retried)")
		}
	}
	if cl.podErr {
		zz.Assert(len(cl.writes) == 0 && len(cloud.deleted) == 0 && err != nil, "a failing pod lookup changes nothing")
		return
	}
	gone := podState == 0 || podState == 2
	if gone && hasRec && cl.podENI.DeletionTimestamp.IsZero() && oldPhase != v1beta1.ENIPhaseDeleting {
		var want v1beta1.Phase = v1beta1.ENIPhaseDeleting
		if fixed {
			want = v1beta1.ENIPhaseDetaching
		}
		if !(fixed && oldPhase == v1beta1.ENIPhaseDetaching) {
			zz.Assert(len(cl.writes) == 1 && cl.writes[0].kind == "status-update" && cl.writes[0].phase == want, "when the pod is gone its record goes to deleting (no fixed IP) or detaching (fixed IP)")
		}
	}
	if podState == 1 && !hasRec {
		// creation path
		creates, failed := 0, 0
		for _, w := range cl.writes {
			if w.kind == "create" {
				creates++
			}
			if w.kind == "create-failed" {
				failed++
			}
		}
		recordExists := creates == 1 && err == nil
		if !recordExists && created > 0 {
			zz.Assert(len(cloud.deleted) >= 1, "when creation fails partway the interfaces already created are deleted again")
			if !cloud.deleteErr {
				zz.Assert(len(cloud.deleted) == created, "every interface created before the failure is deleted, so none exists without a record")
			}
		}
		if recordExists {
			zz.Assert(len(cloud.deleted) == 0 && cl.writes[len(cl.writes)-1].uid == podUID, "a created record belongs to this pod instance and keeps its interfaces")
		}
	}
	zz.Reach("reconciled")
}
