//go:build verif

// Package zzverif is the harness API of the solver-based checks.
//
// Under the symbolic executor (gosym) every function in this file is an
// intrinsic: its body is ignored.  Compiled natively (replay of a
// counterexample), the bodies below read the solver's values from the replay
// file named by $ZZVERIF_REPLAY so that the very same harness source is the
// concrete reproducer.
package zzverif

import (
	"encoding/hex"
	"encoding/json"
	"fmt"
	"math"
	"os"
	"strconv"
	"strings"
	"sync"
	"time"
)

type replayFile struct {
	Harness string            `json:"harness"`
	Msg     string            `json:"msg"`
	Values  map[string]string `json:"values"`
}

var (
	mu      sync.Mutex
	loaded  bool
	values  map[string]string
	counter map[string]int
)

func load() {
	if loaded {
		return
	}
	loaded = true
	values = map[string]string{}
	counter = map[string]int{}
	p := os.Getenv("ZZVERIF_REPLAY")
	if p == "" {
		return
	}
	b, err := os.ReadFile(p)
	if err != nil {
		panic(err)
	}
	var rf replayFile
	if err := json.Unmarshal(b, &rf); err != nil {
		panic(err)
	}
	values = rf.Values
}

// Reset restarts the name counters (one replay run).
func Reset() {
	mu.Lock()
	defer mu.Unlock()
	load()
	counter = map[string]int{}
}

func next(name string) (string, bool) {
	mu.Lock()
	defer mu.Unlock()
	load()
	n := counter[name]
	counter[name] = n + 1
	k := name
	if n > 0 {
		k = fmt.Sprintf("%s#%d", name, n)
	}
	v, ok := values[k]
	return v, ok
}

func nextInt(name string) uint64 {
	v, ok := next(name)
	if !ok || !strings.HasPrefix(v, "i:") && !strings.HasPrefix(v, "b:") {
		return 0
	}
	u, _ := strconv.ParseUint(v[2:], 10, 64)
	return u
}

func Int(name string) int       { return int(nextInt(name)) }
func Int64(name string) int64   { return int64(nextInt(name)) }
func Uint64(name string) uint64 { return nextInt(name) }
func Int32(name string) int32   { return int32(nextInt(name)) }
func Uint32(name string) uint32 { return uint32(nextInt(name)) }
func Uint16(name string) uint16 { return uint16(nextInt(name)) }
func Uint8(name string) uint8   { return uint8(nextInt(name)) }
func Bool(name string) bool     { return nextInt(name) != 0 }

// IntRange returns an arbitrary integer in [lo,hi].
func IntRange(name string, lo, hi int) int {
	if lo == hi {
		return lo
	}
	v := int(int64(nextInt(name)))
	if v < lo || v > hi {
		v = lo
	}
	return v
}

// Fork returns an arbitrary value in [0,n); the engine explores each value on
// its own path (the result is concrete there).
func Fork(name string, n int) int {
	if n <= 1 {
		return 0
	}
	v := int(int64(nextInt(name)))
	if v < 0 || v >= n {
		v = 0
	}
	return v
}

// Str returns an arbitrary byte string of length <= maxLen.
func Str(name string, maxLen int) string {
	v, ok := next(name)
	if !ok || !strings.HasPrefix(v, "s:") {
		return ""
	}
	b, _ := hex.DecodeString(v[2:])
	return string(b)
}

// OneOf returns one of the given strings.
func OneOf(name string, opts ...string) string {
	if len(opts) == 0 {
		return ""
	}
	i := int(nextInt(name))
	if i < 0 || i >= len(opts) {
		i = 0
	}
	return opts[i]
}

type assumeFailed struct{}
type assertFailed struct{ msg string }

// Assume restricts the explored inputs.
func Assume(b bool) {
	if !b {
		panic(assumeFailed{})
	}
}

// Assert states the property.
func Assert(b bool, msg string) {
	if !b {
		panic(assertFailed{msg})
	}
}

// Reach marks a point that at least one feasible path must reach (vacuity guard).
func Reach(tag string) {}

// Tier is 0 for quick, 1 for thorough.
func Tier() int {
	if os.Getenv("ZZVERIF_TIER") == "thorough" {
		return 1
	}
	return 0
}

// Shard(n) partitions a harness into n independently explored parts; the
// engine runs the harness once per shard (in parallel) with Shard returning
// 0..n-1.  Natively the shard of the counterexample is replayed.
func Shard(n int) int {
	mu.Lock()
	defer mu.Unlock()
	load()
	v, ok := values["$shard"]
	if !ok {
		return 0
	}
	u, _ := strconv.Atoi(strings.TrimPrefix(v, "i:"))
	return u
}

// AllowPanic: panics after this point end the path instead of being violations.
func AllowPanic() {}

// FixedMapOrder(true) makes map iteration follow insertion order (used only
// where a symmetry argument, stated in the harness, makes orders equivalent).
func FixedMapOrder(on bool) {}

// Concrete forks over the feasible values of v in [lo,hi].
func Concrete(v, lo, hi int) int { return v }

// IsEngine reports whether the harness is being executed symbolically.
func IsEngine() bool { return false }

func Spawned() int     { return 0 }
func RunSpawned(i int) {}

// NoReceiver declares that no goroutine receives from ch from now on: under the
// engine a send on it only completes into free buffer space (an unbuffered send
// is never ready).  Natively a no-op (the harness simply does not receive).
func NoReceiver(ch any) {}

// LockState: 0 free, -1 write-held, n>0 read-held n times (engine only).
func LockState(l any) int { return 0 }

func SwapElems(s any, i, j int) { panic("engine only") }
func LenOf(s any) int           { panic("engine only") }
func AsAssign(err error, target any) bool {
	panic("engine only")
}
func Log(v any) {}

// Time returns an arbitrary instant (whole seconds).
func Time(name string) time.Time {
	sec := int64(nextInt(name))
	// seconds since year 1 -> unix
	return time.Unix(sec-62135596800, 0).UTC()
}

// Outcome of a native replay run.
type Outcome struct {
	AssumeFailed bool
	AssertFailed bool
	Panicked     bool
	Msg          string
}

// RunNative runs a harness once natively under the loaded replay values.
func RunNative(h func()) (o Outcome) {
	Reset()
	defer func() {
		if r := recover(); r != nil {
			switch e := r.(type) {
			case assumeFailed:
				o.AssumeFailed = true
			case assertFailed:
				o.AssertFailed = true
				o.Msg = e.msg
			default:
				o.Panicked = true
				o.Msg = fmt.Sprint(r)
			}
		}
	}()
	h()
	return
}

// ReplayMain is called from the generated test: it runs the harness named in
// the replay file up to $ZZVERIF_REPEAT times (map iteration order cannot be
// forced natively) and reports whether the violation reproduced.
func ReplayMain(hs map[string]func()) (reproduced bool, detail string) {
	load()
	p := os.Getenv("ZZVERIF_REPLAY")
	b, err := os.ReadFile(p)
	if err != nil {
		return false, "cannot read replay file: " + err.Error()
	}
	var rf replayFile
	if err := json.Unmarshal(b, &rf); err != nil {
		return false, err.Error()
	}
	h, ok := hs[rf.Harness]
	if !ok {
		return false, "harness " + rf.Harness + " not in this package"
	}
	rep := 1
	if s := os.Getenv("ZZVERIF_REPEAT"); s != "" {
		rep, _ = strconv.Atoi(s)
	}
	last := ""
	wantPanic := strings.HasPrefix(rf.Msg, "panic: ")
	for i := 0; i < rep; i++ {
		o := RunNative(h)
		switch {
		case o.AssertFailed && !wantPanic && o.Msg == rf.Msg:
			return true, "assertion failed natively: " + o.Msg
		case o.AssertFailed:
			last = "a different assertion failed natively: " + o.Msg
		case o.Panicked && wantPanic:
			return true, "panic natively: " + o.Msg
		case o.Panicked:
			last = "native run diverged (panic instead of the assertion failure): " + o.Msg
		case o.AssumeFailed:
			last = "assumption failed natively"
		default:
			last = "harness passed natively"
		}
	}
	return false, last
}

// HashBytes is the uninterpreted hash function (engine only).
func HashBytes(kind int, in []byte, n int) []byte { panic("engine only") }

// And/Or/Implies/Ite*: boolean connectives that do not short-circuit, so the
// engine builds one formula instead of forking paths.
func And(bs ...bool) bool {
	for _, b := range bs {
		if !b {
			return false
		}
	}
	return true
}
func Or(bs ...bool) bool {
	for _, b := range bs {
		if b {
			return true
		}
	}
	return false
}
func Implies(a, b bool) bool { return !a || b }
func IteInt(c bool, a, b int) int {
	if c {
		return a
	}
	return b
}
func IteStr(c bool, a, b string) string {
	if c {
		return a
	}
	return b
}

// Float64 returns an arbitrary float64 (engine: symbolic; native: from bits).
func Float64(name string) float64 { return math.Float64frombits(nextInt(name)) }

// CacheExpiry(true): from now on a TTL-cache entry may be reported missing at any lookup.
func CacheExpiry(on bool) {}

// OnLock / OnUnlock register a function the engine calls right after every
// acquisition / right after every release of the given mutex (nil removes
// it).  Harnesses use them to assert the invariant whenever the lock is
// released and to havoc the guarded state (other goroutines' steps, under the
// rely condition) whenever it is re-acquired.  Natively they do nothing.
func OnLock(l any, f func())   {}
func OnUnlock(l any, f func()) {}

// Unreachable states that no feasible path gets here (an assertion that is
// exempt from the vacuity check).
func Unreachable(msg string) { panic(assertFailed{msg}) }

// OnYield registers a function the engine calls whenever the code under test
// parks on a condition variable (between releasing and re-acquiring the lock).
func OnYield(f func()) {}
func Yield()           {}

// Override makes the engine call f instead of the function with the given
// fully qualified name (as printed by go/ssa, e.g.
// "(*github.com/x/y.T).Method") for the rest of the path; nil removes it.
// Used to summarise a concrete type's method (recorded as a cut in evidence).
// Natively it does nothing, so harnesses that use it are engine-only.
func Override(name string, f any) {}

// Setenv sets an environment variable as seen by os.Getenv under the engine
// (default: every variable is unset).
func Setenv(k, v string) { os.Setenv(k, v) }
