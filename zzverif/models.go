//go:build verif

package zzverif

import (
	"context"
	"errors"
	"hash"
	"k8s.io/apimachinery/pkg/util/wait"
	"sort"
	"sync"
	"time"
)

// Models: Go implementations that the symbolic executor runs *instead of*
// library functions whose real bodies use assembly, unsafe or reflection.
// They are never called natively.

// M_sort_Sort: the result is a permutation sorted w.r.t. the real Less,
// obtained by insertion sort through the real Swap.
func M_sort_Sort(data sort.Interface) {
	n := data.Len()
	for i := 1; i < n; i++ {
		for j := i; j > 0 && data.Less(j, j-1); j-- {
			data.Swap(j, j-1)
		}
	}
}

func M_sort_Strings(x []string) {
	for i := 1; i < len(x); i++ {
		for j := i; j > 0 && x[j] < x[j-1]; j-- {
			x[j], x[j-1] = x[j-1], x[j]
		}
	}
}

func M_sort_Ints(x []int) {
	for i := 1; i < len(x); i++ {
		for j := i; j > 0 && x[j] < x[j-1]; j-- {
			x[j], x[j-1] = x[j-1], x[j]
		}
	}
}

func M_sort_Slice(x any, less func(i, j int) bool) {
	n := LenOf(x)
	for i := 1; i < n; i++ {
		for j := i; j > 0 && less(j, j-1); j-- {
			SwapElems(x, j, j-1)
		}
	}
}

// M_rand_Shuffle: an arbitrary sequence of swaps (Fisher-Yates with
// nondeterministic picks) through the caller's swap function.
func M_rand_Shuffle(n int, swap func(i, j int)) {
	for i := n - 1; i > 0; i-- {
		j := Fork("rand.Shuffle", i+1)
		swap(i, j)
	}
}

func M_errors_Is(err, target error) bool {
	if err == nil || target == nil {
		return err == target
	}
	for depth := 0; depth < 8; depth++ {
		if err == target {
			return true
		}
		if x, ok := err.(interface{ Is(error) bool }); ok && x.Is(target) {
			return true
		}
		switch x := err.(type) {
		case interface{ Unwrap() error }:
			err = x.Unwrap()
			if err == nil {
				return false
			}
		case interface{ Unwrap() []error }:
			for _, e := range x.Unwrap() {
				if M_errors_Is(e, target) {
					return true
				}
			}
			return false
		default:
			return false
		}
	}
	return false
}

func M_errors_As(err error, target any) bool {
	if err == nil {
		return false
	}
	for depth := 0; depth < 8; depth++ {
		if AsAssign(err, target) {
			return true
		}
		if x, ok := err.(interface{ As(any) bool }); ok && x.As(target) {
			return true
		}
		switch x := err.(type) {
		case interface{ Unwrap() error }:
			err = x.Unwrap()
			if err == nil {
				return false
			}
		case interface{ Unwrap() []error }:
			for _, e := range x.Unwrap() {
				if e != nil && M_errors_As(e, target) {
					return true
				}
			}
			return false
		default:
			return false
		}
	}
	return false
}

func isSpaceB(c byte) bool {
	return c == ' ' || c == '\t' || c == '\n' || c == '\v' || c == '\f' || c == '\r'
}

// ASCII models (callers assume/know the strings are ASCII)
func M_strings_TrimSpace(s string) string {
	i := 0
	for i < len(s) && isSpaceB(s[i]) {
		i++
	}
	j := len(s)
	for j > i && isSpaceB(s[j-1]) {
		j--
	}
	return s[i:j]
}

func M_strings_ToUpper(s string) string {
	b := make([]byte, len(s))
	for i := 0; i < len(s); i++ {
		c := s[i]
		if c >= 'a' && c <= 'z' {
			c -= 'a' - 'A'
		}
		b[i] = c
	}
	return string(b)
}

func M_strings_ToLower(s string) string {
	b := make([]byte, len(s))
	for i := 0; i < len(s); i++ {
		c := s[i]
		if c >= 'A' && c <= 'Z' {
			c += 'a' - 'A'
		}
		b[i] = c
	}
	return string(b)
}

func M_strings_IndexFunc(s string, f func(rune) bool) int {
	for i := 0; i < len(s); i++ {
		if f(rune(s[i])) {
			return i
		}
	}
	return -1
}

func M_unicode_IsLetter(r rune) bool {
	return (r >= 'a' && r <= 'z') || (r >= 'A' && r <= 'Z')
}
func M_unicode_IsSpace(r rune) bool {
	return r == ' ' || r == '\t' || r == '\n' || r == '\v' || r == '\f' || r == '\r' || r == 0x85 || r == 0xA0
}
func M_unicode_IsDigit(r rune) bool { return r >= '0' && r <= '9' }

func M_strings_HasPrefix(s, p string) bool {
	return len(s) >= len(p) && s[:len(p)] == p
}
func M_strings_HasSuffix(s, p string) bool {
	return len(s) >= len(p) && s[len(s)-len(p):] == p
}
func M_strings_Index(s, sub string) int {
	n := len(sub)
	for i := 0; i+n <= len(s); i++ {
		if s[i:i+n] == sub {
			return i
		}
	}
	return -1
}
func M_strings_Contains(s, sub string) bool { return M_strings_Index(s, sub) >= 0 }
func M_strings_IndexByte(s string, c byte) int {
	for i := 0; i < len(s); i++ {
		if s[i] == c {
			return i
		}
	}
	return -1
}
func M_bytealg_IndexByte(b []byte, c byte) int {
	for i := 0; i < len(b); i++ {
		if b[i] == c {
			return i
		}
	}
	return -1
}
func M_bytealg_CountString(s string, c byte) int {
	n := 0
	for i := 0; i < len(s); i++ {
		if s[i] == c {
			n++
		}
	}
	return n
}
func M_strings_SplitN(s, sep string, n int) []string {
	if n == 0 {
		return nil
	}
	var out []string
	if sep == "" {
		for i := 0; i < len(s); i++ {
			if n > 0 && len(out) == n-1 {
				out = append(out, s[i:])
				return out
			}
			out = append(out, s[i:i+1])
		}
		return out
	}
	for n < 0 || len(out) < n-1 {
		i := M_strings_Index(s, sep)
		if i < 0 {
			break
		}
		out = append(out, s[:i])
		s = s[i+len(sep):]
	}
	out = append(out, s)
	return out
}
func M_strings_Split(s, sep string) []string { return M_strings_SplitN(s, sep, -1) }
func M_strings_Join(a []string, sep string) string {
	r := ""
	for i, x := range a {
		if i > 0 {
			r += sep
		}
		r += x
	}
	return r
}
func M_strings_TrimPrefix(s, p string) string {
	if M_strings_HasPrefix(s, p) {
		return s[len(p):]
	}
	return s
}
func M_strings_TrimSuffix(s, p string) string {
	if M_strings_HasSuffix(s, p) {
		return s[:len(s)-len(p)]
	}
	return s
}
func M_strings_EqualFold(a, b string) bool {
	return M_strings_ToLower(a) == M_strings_ToLower(b)
}
func M_bytes_Equal(a, b []byte) bool {
	if len(a) != len(b) {
		return false
	}
	for i := range a {
		if a[i] != b[i] {
			return false
		}
	}
	return true
}
func M_bytes_Compare(a, b []byte) int {
	n := len(a)
	if len(b) < n {
		n = len(b)
	}
	for i := 0; i < n; i++ {
		if a[i] < b[i] {
			return -1
		}
		if a[i] > b[i] {
			return 1
		}
	}
	if len(a) < len(b) {
		return -1
	}
	if len(a) > len(b) {
		return 1
	}
	return 0
}

// Hash is the abstract hash object returned in place of crypto/sha1.New and
// crypto/md5.New: Sum is an uninterpreted function of the written bytes
// (HashBytes), functional and assumed collision-free.
type Hash struct {
	buf  []byte
	kind int
	size int
}

func (h *Hash) Write(p []byte) (int, error) { h.buf = append(h.buf, p...); return len(p), nil }
func (h *Hash) Sum(b []byte) []byte         { return append(b, HashBytes(h.kind, h.buf, h.size)...) }
func (h *Hash) Reset()                      { h.buf = nil }
func (h *Hash) Size() int                   { return h.size }
func (h *Hash) BlockSize() int              { return 64 }

func M_sha1_New() hash.Hash { return &Hash{kind: 1, size: 20} }
func M_md5_New() hash.Hash  { return &Hash{kind: 5, size: 16} }
func M_sha1_Sum(data []byte) (r [20]byte) {
	copy(r[:], HashBytes(1, data, 20))
	return
}
func M_md5_Sum(data []byte) (r [16]byte) {
	copy(r[:], HashBytes(5, data, 16))
	return
}

var errModelSyntax = errors.New("strconv: parsing: invalid syntax (model)")

// M_strconv_ParseFloat: exact on plain decimal digit strings (up to 9
// digits); for every other input the result is an arbitrary (value, error)
// pair, i.e. an over-approximation of the real parser.
func M_strconv_ParseFloat(s string, bitSize int) (float64, error) {
	if len(s) == 0 {
		return 0, errModelSyntax
	}
	if len(s) > 0 && len(s) <= 9 {
		digits := true
		v := 0
		for i := 0; i < len(s); i++ {
			c := s[i]
			if c < '0' || c > '9' {
				digits = false
				break
			}
			v = v*10 + int(c-'0')
		}
		if digits {
			return float64(v), nil
		}
	}
	if Bool("ParseFloat.fails") {
		return 0, errModelSyntax
	}
	return Float64("ParseFloat.value"), nil
}

// M_strconv_Atoi: exact on short digit strings with optional sign, else error/arbitrary.
func M_strconv_Atoi(s string) (int, error) {
	if len(s) == 0 {
		return 0, errModelSyntax
	}
	if len(s) > 0 && len(s) <= 9 {
		i := 0
		neg := false
		if s[0] == '-' || s[0] == '+' {
			neg = s[0] == '-'
			i = 1
		}
		if i < len(s) {
			digits := true
			v := 0
			for ; i < len(s); i++ {
				c := s[i]
				if c < '0' || c > '9' {
					digits = false
					break
				}
				v = v*10 + int(c-'0')
			}
			if digits {
				if neg {
					v = -v
				}
				return v, nil
			}
		}
		return 0, errModelSyntax
	}
	if Bool("Atoi.fails") {
		return 0, errModelSyntax
	}
	return Int("Atoi.value"), nil
}

// M_singleflight_Do: single thread of control - the function is simply called.
func M_singleflight_Do(g any, key string, fn func() (interface{}, error)) (interface{}, error, bool) {
	v, err := fn()
	return v, err, false
}

// contexts: cancellation is not modelled (the parent is handed through and
// cancel functions do nothing); deadlines are out of scope of the checks.
func M_ctx_WithCancel(parent context.Context) (context.Context, context.CancelFunc) {
	return parent, func() {}
}
func M_ctx_WithTimeout(parent context.Context, d time.Duration) (context.Context, context.CancelFunc) {
	return parent, func() {}
}
func M_ctx_WithDeadline(parent context.Context, d time.Time) (context.Context, context.CancelFunc) {
	return parent, func() {}
}
func M_ctx_WithCancelCause(parent context.Context) (context.Context, context.CancelCauseFunc) {
	return parent, func(error) {}
}

// M_cond_Wait: Wait releases the lock and re-acquires it; what other
// goroutines do in between is supplied by the harness through the
// OnUnlock/OnLock hooks of the mutex (havoc under the rely condition).
func M_cond_Wait(c *sync.Cond) {
	c.L.Unlock()
	Yield() // the goroutine is parked; the harness' OnYield hook decides what happens meanwhile
	c.L.Lock()
}

// M_wait_PollUntilContextTimeout: the condition is probed at most twice; if it
// is still false the poll ends the way the real one does when its time-out
// context expires (context.DeadlineExceeded).
func M_wait_PollUntilContextTimeout(ctx context.Context, interval, timeout time.Duration, immediate bool, condition func(context.Context) (bool, error)) error {
	for i := 0; i < 2; i++ {
		ok, err := condition(ctx)
		if err != nil {
			return err
		}
		if ok {
			return nil
		}
	}
	return context.DeadlineExceeded
}

// the real function returns wait.ErrWaitTimeout, which wait.Interrupted recognises
var errWaitTimeout = wait.ErrWaitTimeout

// M_wait_ExponentialBackoffWithContext: the condition is probed at most twice.
func M_wait_ExponentialBackoffWithContext(ctx context.Context, backoff any, condition func(context.Context) (bool, error)) error {
	for i := 0; i < 2; i++ {
		ok, err := condition(ctx)
		if err != nil {
			return err
		}
		if ok {
			return nil
		}
	}
	return errWaitTimeout
}
