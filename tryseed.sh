#!/bin/sh
# usage: tryseed.sh <seed-dir-name> <prop> [tier] [extra gosym args]
# applies seeded/<name>/patch.diff to /repo, runs the check, reverts.
name=$1; prop=$2; tier=${3:-quick}; shift; shift; [ $# -gt 0 ] && shift
cd /repo || exit 2
git diff --quiet || { echo "repo dirty"; exit 2; }
git apply /verif/seeded/$name/patch.diff || { echo "patch does not apply"; exit 2; }
cd /verif
start=$(date +%s)
./check $prop $tier "$@" > /tmp/tryseed-$name.log 2>&1
code=$?
end=$(date +%s)
git -C /repo checkout -- .
git -C /repo status --short | grep -v '^??' 
echo "seed=$name prop=$prop tier=$tier exit=$code wall=$((end-start))s"
grep -E "^(VIOLATION|KNOWN-FINDING|INCONCLUSIVE|OK)" /tmp/tryseed-$name.log | cut -c1-260 | head -8
