#!/bin/sh
# usage: tryseed.sh <seed-dir-name> <prop> [tier] [extra gosym args]
# applies seeded/<name>/patch.diff to a scratch worktree of /repo (HEAD), runs the
# property's check against that tree (ZZ_REPO), removes the worktree.  /repo itself
# and /verif/evidence are not touched.
name=$1; prop=$2; tier=${3:-quick}; shift; shift; [ $# -gt 0 ] && shift
wt=/tmp/seedrun-$name
git -C /repo worktree remove --force $wt 2>/dev/null
git -C /repo worktree add -q $wt HEAD || exit 2
( cd $wt && git apply /verif/seeded/$name/patch.diff ) || { echo "patch does not apply"; git -C /repo worktree remove --force $wt; exit 2; }
cd /verif
start=$(date +%s)
ZZ_REPO=$wt ZZ_EVIDENCE_DIR=/tmp/seedrun-evidence ZZ_REPLAY_DIR=/tmp/seedrun-replays ./check $prop $tier "$@" > /tmp/tryseed-$name.log 2>&1
code=$?
end=$(date +%s)
git -C /repo worktree remove --force $wt
echo "seed=$name prop=$prop tier=$tier exit=$code wall=$((end-start))s"
grep -E "^(VIOLATION|KNOWN-FINDING|INCONCLUSIVE|OK)" /tmp/tryseed-$name.log | cut -c1-200 | head -6
python3 - "$name" "$prop" "$tier" "$code" <<'PY'
import json,sys,re
name,prop,tier,code=sys.argv[1:5]
p='/verif/seeded/%s/meta.json'%name
m=json.load(open(p))
log=open('/tmp/tryseed-%s.log'%name).read()
hs=sorted(set(re.findall(r"harness=(ZZ_\w+)",log)))
m.setdefault('framework_runs',{})[prop+':'+tier]={'exit':int(code),'detected':code=='1','harnesses_reporting':hs}
json.dump(m,open(p,'w'),indent=1)
PY
