package main

import (
	"encoding/json"
	"flag"
	"fmt"
	"os"
	"path/filepath"
	"regexp"
	"sort"
	"strings"
	"sync"
	"time"

	"golang.org/x/tools/go/packages"
	"golang.org/x/tools/go/ssa"
	"golang.org/x/tools/go/ssa/ssautil"
)

const modPath = "github.com/AliyunContainerService/terway"

type HarnessResult struct {
	Name         string
	Base         string
	Shard        int
	NShard       int
	Paths        int
	Obligations  int
	Discharged   int
	Trivial      int
	Nontrivial   int
	Violations   []Violation
	Inconclusive []string
	AssertSites  map[string]int
	ReachTags    map[string]int
	Fns          []string
	Stubs        map[string]int
	Queries      int
	SolverTime   float64
	Wall         float64
	MaxLoop      int
	Samples      []string
	Unreached    []string
	SolverErrors []string
	CrossChecked int
	CrossDisagree int
	Steps        int
}

func buildOverlay(repo, harnessDir, zzDir string) (map[string][]byte, []string, error) {
	ov := map[string][]byte{}
	var files []string
	err := filepath.Walk(harnessDir, func(p string, info os.FileInfo, err error) error {
		if err != nil || info.IsDir() || !strings.HasSuffix(p, ".go") {
			return err
		}
		rel, _ := filepath.Rel(harnessDir, p)
		b, err := os.ReadFile(p)
		if err != nil {
			return err
		}
		ov[filepath.Join(repo, rel)] = b
		files = append(files, rel)
		return nil
	})
	if err != nil {
		return nil, nil, err
	}
	ents, err := os.ReadDir(zzDir)
	if err != nil {
		return nil, nil, err
	}
	for _, e := range ents {
		if strings.HasSuffix(e.Name(), ".go") {
			b, err := os.ReadFile(filepath.Join(zzDir, e.Name()))
			if err != nil {
				return nil, nil, err
			}
			ov[filepath.Join(repo, "internal/zzverif", e.Name())] = b
		}
	}
	return ov, files, nil
}

func main() {
	repo := flag.String("repo", "/repo", "repository root")
	hdir := flag.String("harness", "/verif/harness", "harness directory (mirrors repo layout)")
	zzdir := flag.String("zz", "/verif/zzverif", "zzverif package sources")
	prop := flag.String("prop", "", "property id (harness functions ZZ_<prop>_*)")
	tier := flag.String("tier", "quick", "quick|thorough")
	runRe := flag.String("run", "", "regexp selecting harness functions")
	out := flag.String("out", "", "write JSON result here")
	jobs := flag.Int("jobs", 12, "parallel harnesses")
	verbose := flag.Bool("v", false, "verbose")
	timeout := flag.Duration("timeout", 10*time.Minute, "per-harness wall budget")
	maxPaths := flag.Int("maxpaths", 200000, "per-harness path budget")
	solverTO := flag.Int("solver-timeout", 20000, "per-query solver timeout (ms)")
	dump := flag.String("dump", "", "dump SSA of function (pkgpath.Func) and exit")
	onlyShard := flag.Int("shard", -1, "run only this shard of sharded harnesses")
	cross := flag.Bool("cross", false, "cross-check final obligations on z3-new and cvc5")
	flag.Parse()

	repoRoot = strings.TrimRight(*repo, "/")
	start := time.Now()
	ov, files, err := buildOverlay(*repo, *hdir, *zzdir)
	if err != nil {
		fmt.Fprintln(os.Stderr, "overlay:", err)
		os.Exit(2)
	}
	// packages that contain harness files of this property
	dirs := map[string]bool{}
	for _, f := range files {
		base := filepath.Base(f)
		if *prop == "" || strings.HasPrefix(base, "zz_"+*prop+"_") || strings.HasPrefix(base, "zz_"+*prop+".") {
			dirs["./"+filepath.Dir(f)] = true
		}
	}
	if len(dirs) == 0 {
		fmt.Fprintln(os.Stderr, "no harness files for", *prop)
		os.Exit(2)
	}
	var patterns []string
	for d := range dirs {
		patterns = append(patterns, d)
	}
	sort.Strings(patterns)
	patterns = append(patterns, "./internal/zzverif")
	cfg := &packages.Config{
		Mode:       packages.NeedName | packages.NeedFiles | packages.NeedCompiledGoFiles | packages.NeedImports | packages.NeedDeps | packages.NeedTypes | packages.NeedSyntax | packages.NeedTypesInfo | packages.NeedTypesSizes | packages.NeedModule,
		Dir:        *repo,
		Overlay:    ov,
		BuildFlags: []string{"-tags=default_build,verif"},
		Env:        append(os.Environ(), "GOFLAGS=-mod=mod", "GOPROXY=off"),
	}
	pkgs, err := packages.Load(cfg, patterns...)
	if err != nil {
		fmt.Fprintln(os.Stderr, "load:", err)
		os.Exit(2)
	}
	nerr := 0
	packages.Visit(pkgs, nil, func(p *packages.Package) {
		for _, e := range p.Errors {
			if nerr < 20 {
				fmt.Fprintln(os.Stderr, "package error:", e)
			}
			nerr++
		}
	})
	if nerr > 0 {
		fmt.Println("INCONCLUSIVE: the repository (with harness overlay) does not type-check")
		os.Exit(2)
	}
	prog, spkgs := ssautil.AllPackages(pkgs, ssa.InstantiateGenerics)
	_ = spkgs
	// packages are built lazily, on first call into them (see pushCall)
	for _, sp := range spkgs {
		if sp != nil {
			sp.Build()
		}
	}
	loadT := time.Since(start)

	var modelPkg *ssa.Package
	for _, sp := range prog.AllPackages() {
		if sp.Pkg.Path() == modPath+"/internal/zzverif" {
			modelPkg = sp
		}
	}
	if *dump != "" {
		for _, sp := range prog.AllPackages() {
			for name, m := range sp.Members {
				if fn, ok := m.(*ssa.Function); ok && sp.Pkg.Path()+"."+name == *dump {
					fn.WriteTo(os.Stdout)
					for _, an := range fn.AnonFuncs {
						an.WriteTo(os.Stdout)
					}
				}
			}
		}
		return
	}

	// collect harness functions
	var harnesses []*ssa.Function
	re := regexp.MustCompile(".*")
	if *runRe != "" {
		re = regexp.MustCompile(*runRe)
	}
	for i, sp := range spkgs {
		if sp == nil || pkgs[i].PkgPath == modPath+"/internal/zzverif" {
			continue
		}
		var names []string
		for name := range sp.Members {
			names = append(names, name)
		}
		sort.Strings(names)
		for _, name := range names {
			fn, ok := sp.Members[name].(*ssa.Function)
			if !ok || !strings.HasPrefix(name, "ZZ_") {
				continue
			}
			if *prop != "" && !strings.HasPrefix(name, "ZZ_"+*prop+"_") {
				continue
			}
			if !re.MatchString(name) {
				continue
			}
			if len(fn.Params) != 0 {
				continue
			}
			harnesses = append(harnesses, fn)
		}
	}
	if len(harnesses) == 0 {
		fmt.Fprintln(os.Stderr, "no harness functions found")
		os.Exit(2)
	}
	tierN := 0
	if *tier == "thorough" {
		tierN = 1
	}
	fmt.Printf("gosym: loaded %d packages, SSA built in %.1fs; %d harness(es), tier=%s\n", len(prog.AllPackages()), loadT.Seconds(), len(harnesses), *tier)

	// shards: a harness that calls zz.Shard(n) with a constant n is run n times
	type job struct {
		fn            *ssa.Function
		shard, nshard int
	}
	var jobsL []job
	for _, h := range harnesses {
		n := shardCount(h)
		if n <= 1 {
			jobsL = append(jobsL, job{h, 0, 0})
			continue
		}
		for s := 0; s < n; s++ {
			if *onlyShard >= 0 && s != *onlyShard {
				continue
			}
			jobsL = append(jobsL, job{h, s, n})
		}
	}
	results := make([]*HarnessResult, len(jobsL))
	var wg sync.WaitGroup
	sem := make(chan struct{}, *jobs)
	var mu sync.Mutex
	for hi, jb := range jobsL {
		wg.Add(1)
		go func(hi int, h *ssa.Function, shard, nshard int) {
			defer wg.Done()
			sem <- struct{}{}
			defer func() { <-sem }()
			t0 := time.Now()
			c := Config{MaxPaths: *maxPaths, MaxSteps: 4000000, LoopBound: 200, Deadline: time.Now().Add(*timeout), Tier: tierN, Verbose: *verbose, PanicIsViolation: true}
			x, err := NewExec(prog, c, []string{"z3", "-in"}, *solverTO)
			if err != nil {
				fmt.Fprintln(os.Stderr, err)
				os.Exit(2)
			}
			x.modelPkg = modelPkg
			x.shard, x.nshards = shard, nshard
			hr := &HarnessResult{Name: h.Name()}
			if nshard > 1 {
				hr.Name = fmt.Sprintf("%s[%d/%d]", h.Name(), shard, nshard)
			}
			hr.Base = h.Name()
			hr.Shard, hr.NShard = shard, nshard
			func() {
				defer func() {
					if r := recover(); r != nil {
						x.inconclusive(fmt.Sprintf("engine crash: %v at %s", r, x.pos(x.curInstr)))
						if *verbose {
							panic(r)
						}
					}
				}()
				x.RunHarness(h)
			}()
			hr.Paths = x.Paths
			hr.Obligations = x.Obligations
			hr.Discharged = x.Discharged
			hr.Trivial = x.Trivial
			hr.Nontrivial = len(x.NontrivPaths)
			hr.Violations = x.Violations
			hr.Inconclusive = x.Inconclusive
			hr.AssertSites = x.AssertSites
			hr.ReachTags = x.ReachTags
			for f := range x.FnsEncoded {
				hr.Fns = append(hr.Fns, f)
			}
			sort.Strings(hr.Fns)
			hr.Stubs = x.StubsHit
			hr.Queries = x.sol.Queries
			hr.SolverTime = x.sol.Time.Seconds()
			hr.Wall = time.Since(t0).Seconds()
			hr.MaxLoop = x.MaxLoop
			hr.Samples = x.Samples
			hr.SolverErrors = x.sol.Errors
			hr.Steps = x.Steps
			if len(x.sol.Errors) > 0 {
				hr.Inconclusive = append(hr.Inconclusive, fmt.Sprintf("solver reported %d error line(s), first: %s", len(x.sol.Errors), x.sol.Errors[0]))
			}
			// vacuity: every Assert / Reach call site in the harness file(s) must have been reached
			hr.Unreached = unreachedSites(x, h)
			if *cross && len(x.Samples) > 0 {
				for _, s := range x.Samples {
					for _, bin := range [][]string{{"z3-new", "-in"}, {"cvc5", "--lang=smt2", "--incremental"}} {
						r := CrossCheck(bin, "(set-logic ALL)\n"+s, 60*time.Second)
						hr.CrossChecked++
						if r == Sat {
							hr.CrossDisagree++
							hr.Inconclusive = append(hr.Inconclusive, "solver disagreement on sample obligation ("+bin[0]+")")
						}
					}
				}
			}
			mu.Lock()
			results[hi] = hr
			status := "ok"
			if len(hr.Violations) > 0 {
				status = fmt.Sprintf("%d VIOLATING PATH(S)", len(hr.Violations))
			} else if len(hr.Inconclusive) > 0 {
				status = "INCONCLUSIVE"
			}
			fmt.Printf("  %-46s paths=%-6d obl=%-6d disch=%-6d (trivial %d) queries=%-6d solver=%.1fs wall=%.1fs  %s\n", hr.Name, hr.Paths, hr.Obligations, hr.Discharged, hr.Trivial, hr.Queries, hr.SolverTime, hr.Wall, status)
			for _, m := range hr.Inconclusive {
				fmt.Printf("      inconclusive: %s\n", m)
			}
			for k, v := range hr.Violations {
				if k >= 3 {
					fmt.Printf("      ... %d more\n", len(hr.Violations)-3)
					break
				}
				fmt.Printf("      violation: %s at %s\n", v.Msg, v.Pos)
			}
			mu.Unlock()
		}(hi, jb.fn, jb.shard, jb.nshard)
	}
	wg.Wait()
	// vacuity is judged over the whole run: an Assert/Reach site (harness
	// helpers are shared between harnesses and shards) is unreached only if no
	// harness reached it on a feasible path.
	reachedSomewhere := map[string]bool{}
	for _, r := range results {
		for s, n := range r.AssertSites {
			if n > 0 {
				reachedSomewhere["Assert "+s] = true
			}
		}
		for s, n := range r.ReachTags {
			if n > 0 {
				reachedSomewhere["Reach "+s] = true
			}
		}
	}
	globalUnreached := map[string]bool{}
	for _, r := range results {
		var keep []string
		for _, u := range r.Unreached {
			key := u
			if strings.HasPrefix(u, "Reach ") {
				if i := strings.Index(u, " at "); i > 0 {
					key = u[:i]
				}
			}
			if !reachedSomewhere[key] {
				globalUnreached[u] = true
			}
		}
		r.Unreached = keep
	}
	if len(globalUnreached) > 0 && len(results) > 0 {
		for u := range globalUnreached {
			results[0].Unreached = append(results[0].Unreached, u)
			fmt.Printf("  vacuity: no harness reached %s\n", u)
		}
		sort.Strings(results[0].Unreached)
	}

	if *out != "" {
		b, _ := json.MarshalIndent(map[string]interface{}{
			"property": *prop, "tier": *tier, "load_s": loadT.Seconds(), "wall_s": time.Since(start).Seconds(),
			"packages": len(prog.AllPackages()), "results": exportResults(results),
		}, "", " ")
		os.WriteFile(*out, b, 0o644)
	}
	code := 0
	for _, r := range results {
		if len(r.Violations) > 0 {
			code = 1
		}
	}
	if code == 0 {
		for _, r := range results {
			if len(r.Inconclusive) > 0 || len(r.Unreached) > 0 {
				code = 2
			}
		}
	}
	os.Exit(code)
}

// unreachedSites lists Assert/Reach call sites in the harness' package files
// (functions reachable from h by static calls inside the same package and
// defined in zz_ files) that no feasible path reached.
func shardCount(h *ssa.Function) int {
	seen := map[*ssa.Function]bool{}
	var visit func(fn *ssa.Function, d int) int
	visit = func(fn *ssa.Function, d int) int {
		if fn == nil || seen[fn] || d > 4 {
			return 0
		}
		seen[fn] = true
		for _, b := range fn.Blocks {
			for _, in := range b.Instrs {
				c, ok := in.(*ssa.Call)
				if !ok {
					continue
				}
				callee := c.Call.StaticCallee()
				if callee == nil {
					continue
				}
				if fnName(callee) == zz+"Shard" {
					if k, ok := c.Call.Args[0].(*ssa.Const); ok {
						return int(k.Int64())
					}
				}
				if callee.Pkg == h.Pkg && strings.HasPrefix(callee.Name(), "zz") {
					if n := visit(callee, d+1); n > 0 {
						return n
					}
				}
			}
		}
		return 0
	}
	return visit(h, 0)
}

func unreachedSites(x *Exec, h *ssa.Function) []string {
	var res []string
	seen := map[*ssa.Function]bool{}
	var visit func(fn *ssa.Function)
	visit = func(fn *ssa.Function) {
		if fn == nil || seen[fn] || len(fn.Blocks) == 0 {
			return
		}
		seen[fn] = true
		file := x.prog.Fset.Position(fn.Pos()).Filename
		if !strings.Contains(filepath.Base(file), "zz_") {
			return
		}
		for _, b := range fn.Blocks {
			for _, in := range b.Instrs {
				var cc *ssa.CallCommon
				switch c := in.(type) {
				case *ssa.Call:
					cc = &c.Call
				case *ssa.Defer:
					cc = &c.Call
				case *ssa.Go:
					cc = &c.Call
				case *ssa.MakeClosure:
					visit(c.Fn.(*ssa.Function))
					continue
				}
				if cc == nil {
					continue
				}
				callee := cc.StaticCallee()
				if callee == nil {
					continue
				}
				switch fnName(callee) {
				case zz + "Assert":
					msg := ""
					if c, ok := cc.Args[1].(*ssa.Const); ok && c.Value != nil {
						msg = strings.Trim(c.Value.ExactString(), "\"")
					}
					site := x.pos(in) + ": " + msg
					if x.cfg.Tier == 0 && strings.HasPrefix(msg, "[thorough]") {
						continue
					}
					if x.AssertSites[site] == 0 {
						res = append(res, "Assert "+site)
					}
				case zz + "Unreachable":
				case zz + "Reach":
					if c, ok := cc.Args[0].(*ssa.Const); ok && c.Value != nil {
						tag := strings.Trim(c.Value.ExactString(), "\"")
						if x.ReachTags[tag] == 0 {
							res = append(res, "Reach "+tag+" at "+x.pos(in))
						}
					}
				default:
					visit(callee)
				}
			}
		}
		for _, an := range fn.AnonFuncs {
			visit(an)
		}
	}
	visit(h)
	sort.Strings(res)
	return res
}

type xViolation struct {
	Harness string            `json:"harness"`
	Msg     string            `json:"msg"`
	Pos     string            `json:"pos"`
	Kind    string            `json:"kind"`
	Values  map[string]string `json:"values"`
	Trace   []string          `json:"trace"`
	Stack   []string          `json:"stack"`
}

func exportResults(rs []*HarnessResult) []map[string]interface{} {
	var out []map[string]interface{}
	for _, r := range rs {
		var vs []xViolation
		for _, v := range r.Violations {
			xv := exportViolation(v)
			if r.NShard > 1 {
				xv.Values["$shard"] = fmt.Sprintf("i:%d", r.Shard)
			}
			vs = append(vs, xv)
		}
		out = append(out, map[string]interface{}{
			"name": r.Name, "base": r.Base, "paths": r.Paths, "obligations": r.Obligations, "discharged": r.Discharged, "trivial": r.Trivial,
			"nontrivial": r.Nontrivial, "violations": vs, "inconclusive": r.Inconclusive, "unreached": r.Unreached,
			"assert_sites": r.AssertSites, "reach_tags": r.ReachTags, "functions": r.Fns, "stubs": r.Stubs,
			"queries": r.Queries, "solver_s": r.SolverTime, "wall_s": r.Wall, "max_loop_visits": r.MaxLoop, "samples": r.Samples,
			"cross_checked": r.CrossChecked, "cross_disagree": r.CrossDisagree, "steps": r.Steps,
		})
	}
	return out
}

// exportViolation turns model values into replay values keyed by nondet name.
func exportViolation(v Violation) xViolation {
	vals := map[string]string{}
	for _, n := range v.Nondet {
		switch n.Kind {
		case "str":
			ln := int(v.Model[n.Name+".len"])
			if ln > n.Max {
				ln = n.Max
			}
			bs := make([]byte, ln)
			for i := 0; i < ln; i++ {
				bs[i] = byte(v.Model[fmt.Sprintf("%s[%d]", n.Name, i)])
			}
			vals[n.Name] = "s:" + fmt.Sprintf("%x", bs)
		case "bool":
			vals[n.Name] = fmt.Sprintf("b:%d", v.Model[n.Name])
		default:
			vals[n.Name] = fmt.Sprintf("i:%d", v.Model[n.Name])
		}
	}
	return xViolation{Harness: v.Harness, Msg: v.Msg, Pos: v.Pos, Kind: v.Kind, Values: vals, Trace: v.Trace, Stack: v.Stack}
}
