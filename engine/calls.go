package main

import (
	"fmt"
	"go/types"
	"strings"
	"sync"

	"golang.org/x/tools/go/ssa"
)

// packages whose functions are treated as effect-free no-ops returning zero values
var noopPkgs = []string{
	"github.com/go-logr/logr",
	"k8s.io/klog/v2",
	"k8s.io/klog",
	"sigs.k8s.io/controller-runtime/pkg/log",
	"github.com/prometheus/client_golang/prometheus",
	"go.opentelemetry.io/otel",
	"k8s.io/client-go/tools/record",
	"github.com/sirupsen/logrus",
	"github.com/AliyunContainerService/terway/pkg/tracing",
	"github.com/AliyunContainerService/terway/pkg/metric",
	"log",
}

func isNoopPkg(p string) bool {
	for _, n := range noopPkgs {
		if p == n || strings.HasPrefix(p, n+"/") {
			return true
		}
	}
	return false
}

func fnPkgPath(fn *ssa.Function) string {
	if fn.Pkg != nil {
		return fn.Pkg.Pkg.Path()
	}
	if o := fn.Origin(); o != nil && o.Pkg != nil {
		return o.Pkg.Pkg.Path()
	}
	if fn.Object() != nil && fn.Object().Pkg() != nil {
		return fn.Object().Pkg().Path()
	}
	// wrappers / bound methods: use the method's package via the receiver
	if fn.Signature.Recv() != nil {
		t := fn.Signature.Recv().Type()
		if p, ok := t.(*types.Pointer); ok {
			t = p.Elem()
		}
		if n, ok := t.(*types.Named); ok && n.Obj().Pkg() != nil {
			return n.Obj().Pkg().Path()
		}
	}
	return ""
}

// fnName returns the canonical name used for intrinsic lookup.
func fnName(fn *ssa.Function) string {
	if o := fn.Origin(); o != nil {
		return o.String()
	}
	return fn.String()
}

func (x *Exec) resolveCall(st *State, fr *Frame, cc *ssa.CallCommon) (Value, []Value) {
	var args []Value
	if cc.IsInvoke() {
		recv := x.get(st, fr, cc.Value).(IfaceV)
		for _, a := range cc.Args {
			args = append(args, x.get(st, fr, a))
		}
		if recv.typ == nil {
			if cc.Method.Pkg() != nil && isNoopPkg(cc.Method.Pkg().Path()) {
				return &FuncV{builtin: "$noop:" + cc.Method.FullName(), recv: cc.Signature()}, args
			}
			panic(goPanic{"runtime error: invalid memory address or nil pointer dereference (method " + cc.Method.Name() + " on nil interface)"})
		}
		if op, ok := recv.val.(OpaqueV); ok {
			return &FuncV{builtin: "$opaque:" + op.tag + "." + cc.Method.Name(), recv: cc.Signature()}, args
		}
		m := x.prog.LookupMethod(recv.typ, cc.Method.Pkg(), cc.Method.Name())
		if m == nil {
			panic(x.unsupported(fmt.Sprintf("method %s not found on %s", cc.Method.Name(), recv.typ)))
		}
		return &FuncV{fn: m}, append([]Value{recv.val}, args...)
	}
	fv := x.get(st, fr, cc.Value)
	for _, a := range cc.Args {
		args = append(args, x.get(st, fr, a))
	}
	return fv, args
}

func (x *Exec) execCall(st *State, fr *Frame, in ssa.Instruction, cc *ssa.CallCommon, dest ssa.Value) {
	fn, args := x.resolveCall(st, fr, cc)
	pushed := x.callValue(st, fr, fn, args, dest, false)
	if !pushed {
		fr.pc++
	}
}

// callValue performs a call; returns true if a frame was pushed (result is
// delivered on return), false if the call completed immediately.
func (x *Exec) callValue(st *State, fr *Frame, fnv Value, args []Value, dest ssa.Value, discard bool) bool {
	fv, _ := fnv.(*FuncV)
	if fv == nil {
		panic(goPanic{"runtime error: invalid memory address or nil pointer dereference (nil func call)"})
	}
	deliver := func(ret Value) bool {
		if dest != nil && !discard {
			if ret == nil {
				// call without results used as value? set empty tuple
				ret = TupleV{}
			}
			x.set(st, fr, dest, ret)
		}
		return false
	}
	if fv.fn == nil {
		name := fv.builtin
		if strings.HasPrefix(name, "$noop:") || strings.HasPrefix(name, "$opaque:") {
			x.StubsHit[name]++
			sig := fv.recv.(*types.Signature)
			return deliver(x.noopResults(sig, args))
		}
		return deliver(x.execBuiltin(st, fr, name, args, dest))
	}
	fn := fv.fn
	name := fnName(fn)
	if ov, ok := st.ghost["$override:"+name]; ok {
		x.StubsHit["override:"+name]++
		return x.callValue(st, fr, ov, args, dest, discard)
	}
	if h, ok := intrinsics[name]; ok {
		ret, mode := h(x, st, fr, fn, args)
		switch mode {
		case 1:
			x.StubsHit[name]++
			return deliver(ret)
		case 2:
			// redirected to another function: ret is *FuncV, args possibly replaced via st.ghost
			x.StubsHit[name]++
			rf := ret.(*FuncV)
			return x.pushCall(st, rf.fn, args, rf.bindings, dest, discard)
		case 3:
			// call another function value with x.redirArgs
			x.StubsHit[name]++
			ra := x.redirArgs
			x.redirArgs = nil
			return x.callValue(st, fr, ret, ra, dest, discard)
		}
	}
	if m, ok := redirects[name]; ok {
		mf := x.modelFn(m)
		if mf == nil {
			panic(x.unsupported("model function " + m + " missing for " + name))
		}
		x.StubsHit[name+" => model "+m]++
		return x.pushCall(st, mf, args, nil, dest, discard)
	}
	pp := fnPkgPath(fn)
	if isNoopPkg(pp) {
		x.StubsHit["noop:"+pp]++
		return deliver(x.noopResults(fn.Signature, args))
	}
	// (*ssa.Package).Build is idempotent and blocks concurrent callers until the
	// package is complete, so it is called before the first look at fn.Blocks:
	// harnesses run in parallel goroutines over one shared SSA program
	x.buildFn(fn)
	if len(fn.Blocks) == 0 {
		panic(x.unsupported("no body / intrinsic for " + name))
	}
	return x.pushCall(st, fn, args, fv.bindings, dest, discard)
}

// noopResults: zero results, except that a context.Context result is the
// first context argument (tracer.Start and friends hand the context through).
func (x *Exec) noopResults(sig *types.Signature, args []Value) Value {
	res := sig.Results()
	z := x.zeroOf(res)
	isCtx := func(t types.Type) bool { return t.String() == "context.Context" }
	var ctxArg Value
	for _, a := range args {
		if iv, ok := a.(IfaceV); ok && iv.typ != nil {
			ts := iv.typ.String()
			if strings.HasPrefix(ts, "*context.") || strings.HasPrefix(ts, "context.") {
				ctxArg = a
				break
			}
		}
	}
	if ctxArg == nil {
		return z
	}
	switch res.Len() {
	case 0:
		return z
	case 1:
		if isCtx(res.At(0).Type()) {
			return ctxArg
		}
		return z
	}
	tv := z.(TupleV)
	for i := 0; i < res.Len(); i++ {
		if isCtx(res.At(i).Type()) {
			tv[i] = ctxArg
		}
	}
	return tv
}

func (x *Exec) zeroOf(res *types.Tuple) Value {
	switch res.Len() {
	case 0:
		return nil
	case 1:
		return x.zero(res.At(0).Type())
	}
	tv := make(TupleV, res.Len())
	for i := range tv {
		tv[i] = x.zero(res.At(i).Type())
	}
	return tv
}

func (x *Exec) pushCall(st *State, fn *ssa.Function, args []Value, bindings []Value, dest ssa.Value, discard bool) bool {
	if len(st.frames) > 200 {
		panic(x.unsupported("call depth > 200"))
	}
	nf := x.newFrame(fn, args, bindings)
	nf.dest = dest
	nf.discard = discard
	st.frames = append(st.frames, nf)
	st.mutGen++
	x.FnsEncoded[fn.String()] = true
	return true
}

func (x *Exec) modelFn(name string) *ssa.Function {
	if x.modelPkg == nil {
		return nil
	}
	return x.modelPkg.Func(name)
}

// ---------- builtins ----------

func (x *Exec) execBuiltin(st *State, fr *Frame, name string, args []Value, dest ssa.Value) Value {
	switch name {
	case "len":
		switch a := args[0].(type) {
		case *StrV:
			return x.strLen(a)
		case SliceV:
			return x.tc.Const(64, uint64(a.len))
		case MapV:
			if a.obj == 0 {
				return x.tc.Const(64, 0)
			}
			return x.tc.Const(64, uint64(len(st.heap[a.obj].(*MapObj).entries)))
		case *ArrayV:
			return x.tc.Const(64, uint64(len(a.e)))
		case PtrV: // pointer to array
			arr := x.load(st, a).(*ArrayV)
			return x.tc.Const(64, uint64(len(arr.e)))
		case ChanV:
			if a.obj == 0 {
				return x.tc.Const(64, 0)
			}
			return x.tc.Const(64, uint64(len(st.heap[a.obj].(*ChanObj).buf)))
		}
	case "cap":
		switch a := args[0].(type) {
		case SliceV:
			return x.tc.Const(64, uint64(a.cap))
		case *ArrayV:
			return x.tc.Const(64, uint64(len(a.e)))
		case ChanV:
			if a.obj == 0 {
				return x.tc.Const(64, 0)
			}
			return x.tc.Const(64, uint64(st.heap[a.obj].(*ChanObj).cap))
		}
	case "append":
		s := args[0].(SliceV)
		switch t := args[1].(type) {
		case SliceV:
			elems := make([]Value, t.len)
			for k := 0; k < t.len; k++ {
				elems[k] = x.load(st, x.sliceElemPtr(t, k))
			}
			return x.appendVals(st, s, elems)
		case *StrV:
			ts := x.strSplitLen(st, t)
			n := len(ts.alts[0].b)
			elems := make([]Value, n)
			for k := 0; k < n; k++ {
				var bt *Term
				for ai := len(ts.alts) - 1; ai >= 0; ai-- {
					if bt == nil {
						bt = ts.alts[ai].b[k]
					} else {
						bt = x.tc.Ite(ts.alts[ai].g, ts.alts[ai].b[k], bt)
					}
				}
				elems[k] = bt
			}
			return x.appendVals(st, s, elems)
		}
	case "copy":
		d := args[0].(SliceV)
		var elems []Value
		switch t := args[1].(type) {
		case SliceV:
			for k := 0; k < t.len; k++ {
				elems = append(elems, x.load(st, x.sliceElemPtr(t, k)))
			}
		case *StrV:
			ts := x.strSplitLen(st, t)
			a := x.strSplitAlt(st, ts)
			for _, b := range a.b {
				elems = append(elems, b)
			}
		}
		n := len(elems)
		if d.len < n {
			n = d.len
		}
		for k := 0; k < n; k++ {
			x.store(st, x.sliceElemPtr(d, k), elems[k])
		}
		return x.tc.Const(64, uint64(n))
	case "delete":
		m := args[0].(MapV)
		if m.obj == 0 {
			return nil
		}
		mo := st.heap[m.obj].(*MapObj)
		idx := x.mapFind(st, mo, args[1])
		if idx >= 0 {
			ne := make([]MapEntry, 0, len(mo.entries)-1)
			ne = append(ne, mo.entries[:idx]...)
			ne = append(ne, mo.entries[idx+1:]...)
			st.heap[m.obj] = &MapObj{entries: ne, nextID: mo.nextID}
			st.mutGen++
		}
		return nil
	case "panic":
		panic(goPanicVal{val: args[0]})
	case "recover":
		if fr.isDefer && fr.savedPanic != nil {
			v := fr.savedPanic.val
			fr.savedPanic = nil
			fr.recovered = true
			st.mutGen++
			return v
		}
		return IfaceV{}
	case "print", "println":
		return nil
	case "min", "max":
		r := args[0]
		for _, a := range args[1:] {
			rt, at := r.(*Term), a.(*Term)
			var typ types.Type
			if dest != nil {
				typ = dest.Type()
			}
			var c *Term
			if typ != nil && !isSigned(typ) {
				c = x.tc.Cmp("bvult", at, rt)
			} else {
				c = x.tc.Cmp("bvslt", at, rt)
			}
			if name == "max" {
				r = x.tc.Ite(c, rt, at)
			} else {
				r = x.tc.Ite(c, at, rt)
			}
		}
		return r
	case "clear":
		switch a := args[0].(type) {
		case SliceV:
			if a.len > 0 {
				z := x.zeroLike(x.load(st, x.sliceElemPtr(a, 0)))
				for k := 0; k < a.len; k++ {
					x.store(st, x.sliceElemPtr(a, k), z)
				}
			}
			return nil
		case MapV:
			if a.obj != 0 {
				st.heap[a.obj] = &MapObj{nextID: st.heap[a.obj].(*MapObj).nextID}
				st.mutGen++
			}
			return nil
		}
	case "close":
		c := args[0].(ChanV)
		if c.obj == 0 {
			panic(goPanic{"close of nil channel"})
		}
		co := *st.heap[c.obj].(*ChanObj)
		if co.closed {
			panic(goPanic{"close of closed channel"})
		}
		co.closed = true
		st.heap[c.obj] = &co
		st.mutGen++
		return nil
	case "ssa:wrapnilchk":
		p := args[0].(PtrV)
		if p.isNil() {
			panic(goPanic{"runtime error: value method called using nil pointer"})
		}
		return p
	}
	panic(x.unsupported(fmt.Sprintf("builtin %s on %T", name, args[0])))
}

func (x *Exec) appendVals(st *State, s SliceV, elems []Value) Value {
	n := len(elems)
	if n == 0 {
		return s
	}
	if !s.base.isNil() && s.len+n <= s.cap {
		// in place
		for k, e := range elems {
			x.store(st, s.base.child(s.off+s.len+k), e)
		}
		return SliceV{base: s.base, off: s.off, len: s.len + n, cap: s.cap}
	}
	// grow: new backing array. Capacity: Go's growth is implementation
	// defined; we use max(2*cap, len+n) like the runtime for small slices.
	ncap := s.cap * 2
	if ncap < s.len+n {
		ncap = s.len + n
	}
	arr := &ArrayV{e: make([]Value, ncap)}
	for k := 0; k < s.len; k++ {
		arr.e[k] = x.load(st, x.sliceElemPtr(s, k))
	}
	for k, e := range elems {
		arr.e[s.len+k] = e
	}
	// zero fill the rest with the zero value of an element (derive from first elem kind)
	if ncap > s.len+n {
		z := x.zeroLike(elems[0])
		for k := s.len + n; k < ncap; k++ {
			arr.e[k] = z
		}
	}
	p := st.alloc(arr)
	return SliceV{base: p, off: 0, len: s.len + n, cap: ncap}
}

// zeroLike builds a zero value with the shape of v.
func (x *Exec) zeroLike(v Value) Value {
	switch u := v.(type) {
	case *Term:
		switch u.sort.K {
		case SBool:
			return x.tc.False
		case SFP:
			return x.tc.ConstF(0)
		}
		return x.tc.Const(u.sort.W, 0)
	case *StrV:
		return x.strConst("")
	case PtrV:
		return PtrV{}
	case *StructV:
		f := make([]Value, len(u.f))
		for i := range f {
			f[i] = x.zeroLike(u.f[i])
		}
		return &StructV{f: f}
	case *ArrayV:
		e := make([]Value, len(u.e))
		for i := range e {
			e[i] = x.zeroLike(u.e[i])
		}
		return &ArrayV{e: e}
	case SliceV:
		return SliceV{}
	case MapV:
		return MapV{}
	case ChanV:
		return ChanV{}
	case IfaceV:
		return IfaceV{}
	case *FuncV:
		return (*FuncV)(nil)
	case OpaqueV:
		return u
	}
	panic(x.unsupported(fmt.Sprintf("zeroLike %T", v)))
}

// ---------- maps ----------

// mapFind returns the index of the entry whose key equals k (forking on
// symbolic equality), or -1.
func (x *Exec) mapFind(st *State, mo *MapObj, k Value) int {
	n := len(mo.entries)
	if n == 0 {
		return -1
	}
	conds := make([]*Term, n+1)
	var nots []*Term
	allConst := true
	for i, e := range mo.entries {
		eq := x.valEq(e.key, k)
		if !eq.cst {
			allConst = false
		}
		conds[i] = x.tc.And(append(append([]*Term(nil), nots...), eq)...)
		nots = append(nots, x.tc.Not(eq))
	}
	conds[n] = x.tc.And(nots...)
	if allConst {
		for i := range conds {
			if conds[i].IsTrue() {
				if i == n {
					return -1
				}
				return i
			}
		}
		return -1
	}
	i := x.choose(st, conds, "map key")
	if i == n {
		return -1
	}
	return i
}

func (x *Exec) execLookup(st *State, fr *Frame, i *ssa.Lookup) {
	base := x.get(st, fr, i.X)
	if s, ok := base.(*StrV); ok {
		idx := x.toInt64(x.get(st, fr, i.Index).(*Term), i.Index.Type())
		x.set(st, fr, i, x.strIndex(st, s, idx))
		fr.pc++
		return
	}
	m := base.(MapV)
	k := x.get(st, fr, i.Index)
	vt := i.X.Type().Underlying().(*types.Map).Elem()
	var res Value
	found := false
	if m.obj != 0 {
		mo := st.heap[m.obj].(*MapObj)
		idx := x.mapFind(st, mo, k)
		if idx >= 0 {
			res = mo.entries[idx].val
			found = true
		}
	}
	if !found {
		res = x.zero(vt)
	}
	if i.CommaOk {
		x.set(st, fr, i, TupleV{res, x.tc.Bool(found)})
	} else {
		x.set(st, fr, i, res)
	}
	fr.pc++
}

func (x *Exec) mapSet(st *State, m MapV, k, v Value) {
	if m.obj == 0 {
		panic(goPanic{"assignment to entry in nil map"})
	}
	mo := st.heap[m.obj].(*MapObj)
	idx := x.mapFind(st, mo, k)
	ne := make([]MapEntry, len(mo.entries), len(mo.entries)+1)
	copy(ne, mo.entries)
	nid := mo.nextID
	if idx >= 0 {
		ne[idx].val = v
	} else {
		nid++
		ne = append(ne, MapEntry{id: nid, key: k, val: v})
	}
	st.heap[m.obj] = &MapObj{entries: ne, nextID: nid}
	st.mutGen++
}

func (x *Exec) execMapUpdate(st *State, fr *Frame, i *ssa.MapUpdate) {
	m := x.get(st, fr, i.Map).(MapV)
	k := x.get(st, fr, i.Key)
	v := x.get(st, fr, i.Value)
	x.mapSet(st, m, k, v)
	fr.pc++
}

func (x *Exec) execRange(st *State, fr *Frame, i *ssa.Range) {
	base := x.get(st, fr, i.X)
	switch b := base.(type) {
	case MapV:
		it := &IterV{isMap: true, m: b, visited: map[int]bool{}}
		if b.obj != 0 {
			for _, e := range st.heap[b.obj].(*MapObj).entries {
				it.ids = append(it.ids, e.id)
			}
		}
		x.set(st, fr, i, it)
	case *StrV:
		s := x.strSplitLen(st, b)
		x.set(st, fr, i, &IterV{str: s})
	default:
		panic(x.unsupported(fmt.Sprintf("range over %T", base)))
	}
	fr.pc++
}

func (x *Exec) execNext(st *State, fr *Frame, i *ssa.Next) {
	it := x.get(st, fr, i.Iter).(*IterV)
	tt := i.Type().(*types.Tuple)
	if it.isMap {
		var cands []int // indices into entries
		var mo *MapObj
		if it.m.obj != 0 {
			mo = st.heap[it.m.obj].(*MapObj)
			for idx, e := range mo.entries {
				if it.visited[e.id] {
					continue
				}
				inRange := false
				for _, id := range it.ids {
					if id == e.id {
						inRange = true
						break
					}
				}
				if inRange {
					cands = append(cands, idx)
				}
			}
		}
		if len(cands) == 0 {
			x.set(st, fr, i, TupleV{x.tc.False, x.zero(tt.At(1).Type()), x.zero(tt.At(2).Type())})
			fr.pc++
			return
		}
		c := 0
		if len(cands) > 1 && !x.fixedMapOrder(st) {
			c = x.chooseN(st, len(cands), "map order")
		}
		e := mo.entries[cands[c]]
		nit := &IterV{isMap: true, m: it.m, ids: it.ids, visited: make(map[int]bool, len(it.visited)+1)}
		for k := range it.visited {
			nit.visited[k] = true
		}
		nit.visited[e.id] = true
		// the iterator is an SSA value: update in place
		x.set(st, fr, i.Iter, nit)
		if len(cands) > 1 {
			st.trace = append(st.trace, fmt.Sprintf("maporder@%s:%d/%d", x.pos(i), c, len(cands)))
		}
		var kv, vv Value = e.key, e.val
		if isInvalidType(tt.At(1).Type()) {
			kv = x.tc.False
		}
		if isInvalidType(tt.At(2).Type()) {
			vv = x.tc.False
		}
		x.set(st, fr, i, TupleV{x.tc.True, kv, vv})
		fr.pc++
		return
	}
	// string: yields (ok, index, rune); ASCII only
	s := it.str
	n := len(s.alts[0].b)
	if it.pos >= n {
		x.set(st, fr, i, TupleV{x.tc.False, x.tc.Const(64, 0), x.tc.Const(32, 0)})
		fr.pc++
		return
	}
	var bt *Term
	for ai := len(s.alts) - 1; ai >= 0; ai-- {
		if bt == nil {
			bt = s.alts[ai].b[it.pos]
		} else {
			bt = x.tc.Ite(s.alts[ai].g, s.alts[ai].b[it.pos], bt)
		}
	}
	nonASCII := x.tc.Cmp("bvuge", bt, x.tc.Const(8, 0x80))
	if x.branch(st, nonASCII, "non-ascii rune") {
		panic(x.unsupported("range over string with non-ASCII byte"))
	}
	x.set(st, fr, i.Iter, &IterV{str: s, pos: it.pos + 1})
	x.set(st, fr, i, TupleV{x.tc.True, x.tc.Const(64, uint64(it.pos)), x.tc.ZExt(bt, 32)})
	fr.pc++
}

func isInvalidType(t types.Type) bool {
	b, ok := t.(*types.Basic)
	return ok && b.Kind() == types.Invalid
}

// orderInsensitive: iteration order of maps inside these functions cannot
// influence their result (they only copy entries into another map).
var orderInsensitive = []string{"github.com/samber/lo.PickBy", "github.com/samber/lo.OmitBy", "maps.Copy", "maps.Clone", ").DeepCopyInto", ").DeepCopy"}

func (x *Exec) fixedMapOrder(st *State) bool {
	if _, ok := st.ghost["$fixedMapOrder"]; ok {
		return true
	}
	fn := fnName(st.top().fn)
	for _, s := range orderInsensitive {
		if strings.HasPrefix(fn, s) || (s[0] == ')' && strings.HasSuffix(fn, s)) {
			return true
		}
	}
	return false
}

// ---------- globals ----------

func (x *Exec) globalPtr(st *State, g *ssa.Global) PtrV {
	key := "$global:" + g.String()
	if p, ok := st.ghost[key]; ok {
		return p.(PtrV)
	}
	mg := st.mutGen
	p := st.alloc(x.zero(typeOfPtrElem(g.Type())))
	st.ghost[key] = p
	st.mutGen = mg // allocation of the global's cell is idempotent
	return p
}

// ensureGlobal makes sure the package-level variable is initialised before
// it is read.  Returns true when an initialisation frame was pushed (the
// current instruction must then be re-executed).
func (x *Exec) ensureGlobal(st *State, fr *Frame, g *ssa.Global) bool {
	if st.globalsInit[g] {
		return false
	}
	st.globalsInit[g] = true
	if g.Pkg == nil {
		return false
	}
	// harness-package globals written by the harness itself start as zero
	g.Pkg.Build()
	initFn := g.Pkg.Func("init")
	if initFn == nil || len(initFn.Blocks) == 0 {
		return false
	}
	script, ok := x.initSlice(initFn, g)
	if ok && len(script) > 0 {
		nf := &Frame{fn: initFn, info: x.fnInfo(initFn), script: script, visits: map[int]int{}}
		nf.locals = make([]Value, nf.info.n)
		nf.discard = true
		nf.block = initFn.Blocks[0]
		st.frames = append(st.frames, nf)
		return true
	}
	if !ok {
		// look for explicit init functions storing to g
		for k := 1; ; k++ {
			f := g.Pkg.Func(fmt.Sprintf("init#%d", k))
			if f == nil {
				break
			}
			if fnStoresGlobal(f, g) {
				x.pushCall(st, f, nil, nil, nil, true)
				return true
			}
		}
	}
	return false
}

func fnStoresGlobal(f *ssa.Function, g *ssa.Global) bool {
	for _, b := range f.Blocks {
		for _, in := range b.Instrs {
			if s, ok := in.(*ssa.Store); ok && s.Addr == g {
				return true
			}
		}
	}
	return false
}

// initSlice computes the instructions of the package initialiser that are
// needed to initialise g: the backward slice of the stores into g, closed
// under writes through pointers that belong to the slice.
func (x *Exec) initSlice(initFn *ssa.Function, g *ssa.Global) ([]ssa.Instruction, bool) {
	inSlice := map[ssa.Instruction]bool{}
	var work []ssa.Instruction
	found := false
	// addresses derived from the global (struct / array literals are stored field by field)
	derived := map[ssa.Value]bool{g: true}
	for changed := true; changed; {
		changed = false
		for _, b := range initFn.Blocks {
			for _, in := range b.Instrs {
				switch a := in.(type) {
				case *ssa.FieldAddr:
					if derived[a.X] && !derived[a] {
						derived[a] = true
						changed = true
					}
				case *ssa.IndexAddr:
					if derived[a.X] && !derived[a] {
						derived[a] = true
						changed = true
					}
				}
			}
		}
	}
	for _, b := range initFn.Blocks {
		for _, in := range b.Instrs {
			if s, ok := in.(*ssa.Store); ok && derived[s.Addr] {
				inSlice[in] = true
				work = append(work, in)
				found = true
			}
		}
	}
	if !found {
		return nil, false
	}
	addVal := func(v ssa.Value) {
		if in, ok := v.(ssa.Instruction); ok && in.Parent() == initFn && !inSlice[in] {
			inSlice[in] = true
			work = append(work, in)
		}
	}
	for len(work) > 0 {
		in := work[len(work)-1]
		work = work[:len(work)-1]
		var ops []*ssa.Value
		for _, op := range in.Operands(ops) {
			if *op != nil {
				addVal(*op)
			}
		}
		// writes through pointer-like values produced by this instruction
		if v, ok := in.(ssa.Value); ok {
			switch in.(type) {
			case *ssa.Alloc, *ssa.MakeMap, *ssa.MakeSlice, *ssa.FieldAddr, *ssa.IndexAddr, *ssa.Slice, *ssa.MakeClosure, *ssa.MakeInterface, *ssa.ChangeType, *ssa.Convert:
				if refs := v.Referrers(); refs != nil {
					for _, r := range *refs {
						switch rr := r.(type) {
						case *ssa.Store:
							if rr.Addr == v && !inSlice[r] {
								inSlice[r] = true
								work = append(work, r)
							}
						case *ssa.MapUpdate:
							if rr.Map == v && !inSlice[r] {
								inSlice[r] = true
								work = append(work, r)
							}
						case *ssa.FieldAddr, *ssa.IndexAddr, *ssa.Slice:
							if !inSlice[r] {
								// only follow address computations based on v
								inSlice[r] = true
								work = append(work, r)
							}
						}
					}
				}
			}
		}
	}
	var script []ssa.Instruction
	for _, b := range initFn.Blocks {
		for _, in := range b.Instrs {
			if !inSlice[in] {
				continue
			}
			switch in.(type) {
			case *ssa.If, *ssa.Jump, *ssa.Phi, *ssa.Return:
				return nil, false
			}
			script = append(script, in)
		}
	}
	return script, true
}

var buildMu sync.Mutex

// buildFn builds the SSA of the package that owns fn (lazily; building the
// whole import graph up front costs half a minute for the daemon package).
func (x *Exec) buildFn(fn *ssa.Function) {
	if x.built[fn] {
		return
	}
	x.built[fn] = true
	if fn.Pkg != nil {
		fn.Pkg.Build()
		return
	}
	if o := fn.Origin(); o != nil && o.Pkg != nil {
		o.Pkg.Build()
	}
	if fn.Object() != nil && fn.Object().Pkg() != nil {
		if p := x.prog.Package(fn.Object().Pkg()); p != nil {
			p.Build()
		}
	}
}
