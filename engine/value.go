package main

import (
	"fmt"
	"go/types"
	"strings"

	"golang.org/x/tools/go/ssa"
)

// Value is one of:
//   *Term            bool / integer / float scalar
//   *StrV            string (guarded alternatives of byte lists)
//   PtrV             pointer (object id + path) or nil
//   *StructV         struct value (immutable)
//   *ArrayV          array value (immutable)
//   SliceV           slice header
//   MapV             map reference (object id) or nil
//   ChanV            channel reference or nil
//   IfaceV           interface value
//   *FuncV           function / closure / bound method, or nil (*FuncV)(nil)
//   TupleV           multiple results
//   *IterV           range iterator
//   OpaqueV          opaque token of some type (uninterpreted environment object)
type Value interface{}

type StrAlt struct {
	g *Term   // guard
	b []*Term // bytes (BV8)
}

type StrV struct {
	alts []StrAlt
}

type PtrV struct {
	obj  int // 0 = nil
	path []int
}

type StructV struct {
	f []Value
}

type ArrayV struct {
	e []Value
}

type SliceV struct {
	base PtrV // pointer to an *ArrayV; obj==0 => nil slice
	off  int
	len  int
	cap  int
}

type MapV struct{ obj int }
type ChanV struct{ obj int }

type IfaceV struct {
	typ types.Type // nil => nil interface
	val Value
}

type FuncV struct {
	fn       *ssa.Function
	bindings []Value
	builtin  string // for builtins / intrinsics by name
	recv     Value  // bound method receiver (for MakeClosure of bound methods ssa handles via $bound)
}

type TupleV []Value

type OpaqueV struct {
	tag string
}

type MapEntry struct {
	id  int
	key Value
	val Value
}

type MapObj struct {
	entries []MapEntry
	nextID  int
}

type ChanObj struct {
	buf    []Value
	closed bool
	cap    int
	sends  int
	noRecv bool // no goroutine is (or will be) receiving: a send only completes into free buffer space
}

type IterV struct {
	isMap   bool
	m       MapV
	ids     []int // entry ids existing at range time (map)
	visited map[int]bool
	str     *StrV // string iteration (concrete length assumed)
	pos     int
}

func (p PtrV) isNil() bool { return p.obj == 0 }

func (p PtrV) child(i int) PtrV {
	np := make([]int, len(p.path)+1)
	copy(np, p.path)
	np[len(p.path)] = i
	return PtrV{obj: p.obj, path: np}
}

func ptrEq(a, b PtrV) bool {
	if a.obj != b.obj || len(a.path) != len(b.path) {
		return false
	}
	for i := range a.path {
		if a.path[i] != b.path[i] {
			return false
		}
	}
	return true
}

func (p PtrV) String() string {
	if p.obj == 0 {
		return "nil"
	}
	return fmt.Sprintf("&o%d%v", p.obj, p.path)
}

// ---------- strings ----------

func (x *Exec) strConst(s string) *StrV {
	b := make([]*Term, len(s))
	for i := 0; i < len(s); i++ {
		b[i] = x.tc.Const(8, uint64(s[i]))
	}
	return &StrV{alts: []StrAlt{{g: x.tc.True, b: b}}}
}

func altConcrete(a StrAlt) (string, bool) {
	bs := make([]byte, len(a.b))
	for i, t := range a.b {
		if !t.cst {
			return "", false
		}
		bs[i] = byte(t.val)
	}
	return string(bs), true
}

// concrete returns the string if there is one unguarded concrete alternative.
func (s *StrV) concrete() (string, bool) {
	if len(s.alts) != 1 || !s.alts[0].g.IsTrue() {
		return "", false
	}
	return altConcrete(s.alts[0])
}

func (s *StrV) allConcrete() bool {
	for _, a := range s.alts {
		if _, ok := altConcrete(a); !ok {
			return false
		}
	}
	return true
}

func (x *Exec) strNormalize(alts []StrAlt) *StrV {
	// drop false guards; merge identical byte lists
	var out []StrAlt
	idx := map[string]int{}
	for _, a := range alts {
		if a.g.IsFalse() {
			continue
		}
		var kb strings.Builder
		for _, t := range a.b {
			fmt.Fprintf(&kb, "%d,", t.id)
		}
		k := kb.String()
		if i, ok := idx[k]; ok {
			out[i].g = x.tc.Or(out[i].g, a.g)
			continue
		}
		idx[k] = len(out)
		out = append(out, a)
	}
	if len(out) == 0 {
		// unreachable under the current path; keep an empty string
		return x.strConst("")
	}
	if len(out) == 1 {
		// guards are exhaustive under the path condition
		out[0].g = x.tc.True
	}
	return &StrV{alts: out}
}

func (x *Exec) strLen(s *StrV) *Term {
	n := len(s.alts)
	r := x.tc.Const(64, uint64(len(s.alts[n-1].b)))
	for i := n - 2; i >= 0; i-- {
		r = x.tc.Ite(s.alts[i].g, x.tc.Const(64, uint64(len(s.alts[i].b))), r)
	}
	return r
}

func (x *Exec) strEq(a, b *StrV) *Term {
	var ors []*Term
	for _, p := range a.alts {
		for _, q := range b.alts {
			if len(p.b) != len(q.b) {
				continue
			}
			cs := []*Term{p.g, q.g}
			dead := false
			for i := range p.b {
				e := x.tc.Eq(p.b[i], q.b[i])
				if e.IsFalse() {
					dead = true
					break
				}
				cs = append(cs, e)
			}
			if dead {
				continue
			}
			ors = append(ors, x.tc.And(cs...))
		}
	}
	return x.tc.Or(ors...)
}

// strLess: lexicographic a < b.
func (x *Exec) strLess(a, b *StrV) *Term {
	var ors []*Term
	for _, p := range a.alts {
		for _, q := range b.alts {
			// lt = exists k: prefix equal up to k and (a[k]<b[k]) or a is proper prefix
			n := len(p.b)
			if len(q.b) < n {
				n = len(q.b)
			}
			lt := x.tc.Bool(len(p.b) < len(q.b)) // if all n equal
			for k := n - 1; k >= 0; k-- {
				lt = x.tc.Ite(x.tc.Eq(p.b[k], q.b[k]), lt, x.tc.Cmp("bvult", p.b[k], q.b[k]))
			}
			ors = append(ors, x.tc.And(p.g, q.g, lt))
		}
	}
	return x.tc.Or(ors...)
}

func (x *Exec) strConcat(a, b *StrV) *StrV {
	var alts []StrAlt
	for _, p := range a.alts {
		for _, q := range b.alts {
			g := x.tc.And(p.g, q.g)
			if g.IsFalse() {
				continue
			}
			bs := make([]*Term, 0, len(p.b)+len(q.b))
			bs = append(bs, p.b...)
			bs = append(bs, q.b...)
			alts = append(alts, StrAlt{g: g, b: bs})
		}
	}
	return x.strNormalize(alts)
}

// strIte merges two strings under a guard.
func (x *Exec) strIte(g *Term, a, b *StrV) *StrV {
	if g.IsTrue() {
		return a
	}
	if g.IsFalse() {
		return b
	}
	var alts []StrAlt
	for _, p := range a.alts {
		alts = append(alts, StrAlt{g: x.tc.And(g, p.g), b: p.b})
	}
	ng := x.tc.Not(g)
	for _, q := range b.alts {
		alts = append(alts, StrAlt{g: x.tc.And(ng, q.g), b: q.b})
	}
	return x.strNormalize(alts)
}

// ---------- zero values ----------

func (x *Exec) zero(t types.Type) Value {
	switch u := t.Underlying().(type) {
	case *types.Basic:
		switch {
		case u.Kind() == types.Invalid:
			return x.tc.False
		case u.Info()&types.IsBoolean != 0:
			return x.tc.False
		case u.Info()&types.IsString != 0:
			return x.strConst("")
		case u.Info()&types.IsFloat != 0:
			return x.tc.ConstF(0)
		case u.Info()&types.IsInteger != 0:
			return x.tc.Const(x.width(u), 0)
		case u.Kind() == types.UnsafePointer:
			return PtrV{}
		case u.Kind() == types.UntypedNil:
			return PtrV{}
		}
	case *types.Pointer:
		return PtrV{}
	case *types.Struct:
		f := make([]Value, u.NumFields())
		for i := range f {
			f[i] = x.zero(u.Field(i).Type())
		}
		return &StructV{f: f}
	case *types.Array:
		n := int(u.Len())
		e := make([]Value, n)
		if n > 0 {
			z := x.zero(u.Elem())
			for i := range e {
				e[i] = z
			}
		}
		return &ArrayV{e: e}
	case *types.Slice:
		return SliceV{}
	case *types.Map:
		return MapV{}
	case *types.Chan:
		return ChanV{}
	case *types.Interface:
		return IfaceV{}
	case *types.Signature:
		return (*FuncV)(nil)
	case *types.Tuple:
		tv := make(TupleV, u.Len())
		for i := range tv {
			tv[i] = x.zero(u.At(i).Type())
		}
		return tv
	}
	panic(x.unsupported("zero value of " + t.String()))
}

func (x *Exec) width(b *types.Basic) int {
	switch b.Kind() {
	case types.Int8, types.Uint8:
		return 8
	case types.Int16, types.Uint16:
		return 16
	case types.Int32, types.Uint32:
		return 32
	case types.Int64, types.Uint64, types.Int, types.Uint, types.Uintptr, types.UntypedInt:
		return 64
	case types.UntypedRune:
		return 32
	}
	return 64
}

func isSigned(t types.Type) bool {
	b, ok := t.Underlying().(*types.Basic)
	if !ok {
		return false
	}
	return b.Info()&types.IsUnsigned == 0 && b.Info()&types.IsInteger != 0
}

func isInteger(t types.Type) bool {
	b, ok := t.Underlying().(*types.Basic)
	return ok && b.Info()&types.IsInteger != 0
}
func isFloat(t types.Type) bool {
	b, ok := t.Underlying().(*types.Basic)
	return ok && b.Info()&types.IsFloat != 0
}
func isString(t types.Type) bool {
	b, ok := t.Underlying().(*types.Basic)
	return ok && b.Info()&types.IsString != 0
}
func isBool(t types.Type) bool {
	b, ok := t.Underlying().(*types.Basic)
	return ok && b.Info()&types.IsBoolean != 0
}

// ---------- value rendering for diagnostics ----------

func (x *Exec) show(v Value, d int) string {
	if d > 4 {
		return "…"
	}
	switch u := v.(type) {
	case nil:
		return "<nil>"
	case *Term:
		return u.String()
	case *StrV:
		if s, ok := u.concrete(); ok {
			return fmt.Sprintf("%q", s)
		}
		var parts []string
		for _, a := range u.alts {
			if s, ok := altConcrete(a); ok {
				parts = append(parts, fmt.Sprintf("%q", s))
			} else {
				parts = append(parts, fmt.Sprintf("<sym len %d>", len(a.b)))
			}
		}
		return "str{" + strings.Join(parts, "|") + "}"
	case PtrV:
		return u.String()
	case *StructV:
		var parts []string
		for _, f := range u.f {
			parts = append(parts, x.show(f, d+1))
		}
		return "{" + strings.Join(parts, ", ") + "}"
	case *ArrayV:
		var parts []string
		for _, f := range u.e {
			parts = append(parts, x.show(f, d+1))
		}
		return "[" + strings.Join(parts, ", ") + "]"
	case SliceV:
		return fmt.Sprintf("slice(%v,%d,%d,%d)", u.base, u.off, u.len, u.cap)
	case MapV:
		return fmt.Sprintf("map(o%d)", u.obj)
	case IfaceV:
		if u.typ == nil {
			return "iface(nil)"
		}
		return fmt.Sprintf("iface(%s: %s)", u.typ, x.show(u.val, d+1))
	case *FuncV:
		if u == nil {
			return "func(nil)"
		}
		if u.fn != nil {
			return "func " + u.fn.String()
		}
		return "builtin " + u.builtin
	case TupleV:
		var parts []string
		for _, f := range u {
			parts = append(parts, x.show(f, d+1))
		}
		return "(" + strings.Join(parts, ", ") + ")"
	case OpaqueV:
		return "opaque(" + u.tag + ")"
	}
	return fmt.Sprintf("%T", v)
}
