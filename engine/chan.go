package main

import (
	"fmt"
	"go/types"

	"golang.org/x/tools/go/ssa"
)

// Channels: a channel is a FIFO buffer object.  There is a single thread of
// control, so an operation that would block ends the path ("blocked"), except
// inside select where only ready cases (or default) can be chosen.

func (x *Exec) chanObj(st *State, c ChanV) *ChanObj {
	if c.obj == 0 {
		return nil
	}
	return st.heap[c.obj].(*ChanObj)
}

func (x *Exec) execSend(st *State, fr *Frame, i *ssa.Send) {
	c := x.get(st, fr, i.Chan).(ChanV)
	v := x.get(st, fr, i.X)
	x.chanSend(st, c, v)
	fr.pc++
}

func (x *Exec) chanSend(st *State, c ChanV, v Value) {
	co := x.chanObj(st, c)
	if co == nil {
		panic(pathEnd{"send on nil channel blocks forever"})
	}
	if co.closed {
		panic(goPanic{"send on closed channel"})
	}
	// unbuffered or full channels: we let the send complete (the receiver is
	// another goroutine that the harness models by draining the buffer) unless
	// the harness declared that nobody receives (zz.NoReceiver)
	if co.noRecv && len(co.buf) >= co.cap {
		panic(pathEnd{"send blocks forever: no receiver and no buffer space"})
	}
	n := *co
	n.buf = append(append([]Value(nil), co.buf...), v)
	n.sends++
	st.heap[c.obj] = &n
	st.mutGen++
}

func (x *Exec) execRecv(st *State, fr *Frame, i *ssa.UnOp) {
	c := x.get(st, fr, i.X).(ChanV)
	co := x.chanObj(st, c)
	et := i.X.Type().Underlying().(*types.Chan).Elem()
	if co == nil {
		panic(pathEnd{"receive on nil channel blocks forever"})
	}
	var v Value
	ok := true
	if len(co.buf) > 0 {
		v = co.buf[0]
		n := *co
		n.buf = append([]Value(nil), co.buf[1:]...)
		st.heap[c.obj] = &n
		st.mutGen++
	} else if co.closed {
		v = x.zero(et)
		ok = false
	} else {
		panic(pathEnd{"receive on empty channel blocks"})
	}
	if i.CommaOk {
		x.set(st, fr, i, TupleV{v, x.tc.Bool(ok)})
	} else {
		x.set(st, fr, i, v)
	}
	fr.pc++
}

func (x *Exec) execSelect(st *State, fr *Frame, i *ssa.Select) {
	// determine ready cases
	var ready []int
	for k, s := range i.States {
		c := x.get(st, fr, s.Chan).(ChanV)
		co := x.chanObj(st, c)
		if co == nil {
			continue
		}
		if s.Dir == types.SendOnly {
			if !(co.noRecv && len(co.buf) >= co.cap) {
				ready = append(ready, k)
			}
		} else if len(co.buf) > 0 || co.closed {
			ready = append(ready, k)
		}
	}
	idx := -1
	if len(ready) == 0 {
		if i.Blocking {
			panic(pathEnd{"select blocks"})
		}
	} else {
		ch := 0
		if len(ready) > 1 {
			ch = x.chooseN(st, len(ready), "select")
			st.trace = append(st.trace, fmt.Sprintf("select@%s:%d", x.pos(i), ready[ch]))
		}
		idx = ready[ch]
	}
	// result tuple: (index int, recvOk bool, r_0 T_0, ... r_n-1 T_n-1) for recv states
	res := TupleV{x.tc.Const(64, uint64(int64(idx))), x.tc.False}
	for k, s := range i.States {
		if s.Dir != types.RecvOnly {
			continue
		}
		et := s.Chan.Type().Underlying().(*types.Chan).Elem()
		if k == idx {
			c := x.get(st, fr, s.Chan).(ChanV)
			co := x.chanObj(st, c)
			if len(co.buf) > 0 {
				res = append(res, co.buf[0])
				res[1] = x.tc.True
				n := *co
				n.buf = append([]Value(nil), co.buf[1:]...)
				st.heap[c.obj] = &n
				st.mutGen++
			} else {
				res = append(res, x.zero(et))
			}
		} else {
			res = append(res, x.zero(et))
		}
	}
	if idx >= 0 && i.States[idx].Dir == types.SendOnly {
		c := x.get(st, fr, i.States[idx].Chan).(ChanV)
		x.chanSend(st, c, x.get(st, fr, i.States[idx].Send))
	}
	x.set(st, fr, i, res)
	fr.pc++
}
