package main

import (
	"fmt"
	"go/types"
	"strconv"
	"strings"

	"golang.org/x/tools/go/ssa"
)

const zz = "github.com/AliyunContainerService/terway/internal/zzverif."

type intrinsicFn func(x *Exec, st *State, fr *Frame, fn *ssa.Function, args []Value) (Value, int)

var intrinsics map[string]intrinsicFn

// redirects: real function -> model function (in package zzverif) that is
// symbolically executed instead.
var redirects = map[string]string{
	"sort.Sort":                    "M_sort_Sort",
	"sort.Stable":                  "M_sort_Sort",
	"sort.Strings":                 "M_sort_Strings",
	"sort.Ints":                    "M_sort_Ints",
	"sort.Slice":                   "M_sort_Slice",
	"sort.SliceStable":             "M_sort_Slice",
	"errors.Is":                    "M_errors_Is",
	"errors.As":                    "M_errors_As",
	"math/rand.Shuffle":            "M_rand_Shuffle",
	"strings.TrimSpace":            "M_strings_TrimSpace",
	"strconv.ParseFloat":           "M_strconv_ParseFloat",
	"strings.ToUpper":              "M_strings_ToUpper",
	"strings.ToLower":              "M_strings_ToLower",
	"strings.IndexFunc":            "M_strings_IndexFunc",
	"strings.HasPrefix":            "M_strings_HasPrefix",
	"strings.HasSuffix":            "M_strings_HasSuffix",
	"strings.Contains":             "M_strings_Contains",
	"strings.Index":                "M_strings_Index",
	"strings.IndexByte":            "M_strings_IndexByte",
	"strings.Split":                "M_strings_Split",
	"strings.SplitN":               "M_strings_SplitN",
	"strings.Join":                 "M_strings_Join",
	"strings.TrimPrefix":           "M_strings_TrimPrefix",
	"strings.TrimSuffix":           "M_strings_TrimSuffix",
	"strings.EqualFold":            "M_strings_EqualFold",
	"unicode.IsLetter":             "M_unicode_IsLetter",
	"unicode.IsSpace":              "M_unicode_IsSpace",
	"unicode.IsDigit":              "M_unicode_IsDigit",
	"bytes.Equal":                  "M_bytes_Equal",
	"bytes.Compare":                "M_bytes_Compare",
	"internal/bytealg.Equal":       "M_bytes_Equal",
	"internal/bytealg.Compare":     "M_bytes_Compare",
	"internal/bytealg.IndexByte":   "M_bytealg_IndexByte",
	"internal/bytealg.IndexByteString": "M_strings_IndexByte",
	"internal/bytealg.CountString": "M_bytealg_CountString",
	"slices.Sort[[]string string]": "M_sort_Strings",
}

func (x *Exec) concStr(v Value, what string) string {
	s, ok := v.(*StrV).concrete()
	if !ok {
		panic(x.unsupported(what + ": string argument must be concrete"))
	}
	return s
}

func (x *Exec) concInt(v Value, what string) int64 {
	t := v.(*Term)
	if !t.cst {
		panic(x.unsupported(what + ": integer argument must be concrete"))
	}
	return sext(t.val, t.sort.W)
}

func (x *Exec) nondetName(st *State, base string) string {
	n := st.nameCnt[base]
	st.nameCnt[base] = n + 1
	if n == 0 {
		return base
	}
	return fmt.Sprintf("%s#%d", base, n)
}

func (x *Exec) newNondet(st *State, base string, w int, kind string) *Term {
	name := x.nondetName(st, base)
	var t *Term
	if kind == "bool" {
		t = x.tc.Var(name, BoolSort)
	} else {
		t = x.tc.Var(name, BV(w))
	}
	st.nondet = append(st.nondet, NondetRec{Name: name, Kind: kind, Term: t})
	st.mutGen++
	return t
}

func ret1(v Value) (Value, int) { return v, 1 }

func init() {
	intrinsics = map[string]intrinsicFn{}
	intInt := func(w int, kind string) intrinsicFn {
		return func(x *Exec, st *State, fr *Frame, fn *ssa.Function, a []Value) (Value, int) {
			return ret1(x.newNondet(st, x.concStr(a[0], "nondet name"), w, kind))
		}
	}
	intrinsics[zz+"Int"] = intInt(64, "int64")
	intrinsics[zz+"Int64"] = intInt(64, "int64")
	intrinsics[zz+"Uint64"] = intInt(64, "uint64")
	intrinsics[zz+"Int32"] = intInt(32, "int32")
	intrinsics[zz+"Uint32"] = intInt(32, "uint32")
	intrinsics[zz+"Uint16"] = intInt(16, "uint16")
	intrinsics[zz+"Uint8"] = intInt(8, "uint8")
	intrinsics[zz+"Bool"] = intInt(1, "bool")
	intrinsics[zz+"Float64"] = func(x *Exec, st *State, fr *Frame, fn *ssa.Function, a []Value) (Value, int) {
		name := x.nondetName(st, x.concStr(a[0], "nondet name"))
		bits := x.tc.Var(name, BV(64))
		st.nondet = append(st.nondet, NondetRec{Name: name, Kind: "uint64", Term: bits})
		st.mutGen++
		return ret1(x.tc.App("to_fp_bits", FPSort, bits))
	}
	intrinsics[zz+"IntRange"] = func(x *Exec, st *State, fr *Frame, fn *ssa.Function, a []Value) (Value, int) {
		lo, hi := x.concInt(a[1], "IntRange"), x.concInt(a[2], "IntRange")
		if lo == hi {
			return ret1(x.tc.Const(64, uint64(lo)))
		}
		t := x.newNondet(st, x.concStr(a[0], "nondet name"), 64, "int64")
		x.assume(st, x.tc.Cmp("bvsle", x.tc.Const(64, uint64(lo)), t))
		x.assume(st, x.tc.Cmp("bvsle", t, x.tc.Const(64, uint64(hi))))
		return ret1(t)
	}
	intrinsics[zz+"Fork"] = func(x *Exec, st *State, fr *Frame, fn *ssa.Function, a []Value) (Value, int) {
		n := int(x.concInt(a[1], "Fork"))
		if n <= 1 {
			return ret1(x.tc.Const(64, 0))
		}
		// a symbolic variable records the decision for replay; choice forks
		base := x.concStr(a[0], "nondet name")
		cnt := st.nameCnt[base]
		name := base
		if cnt > 0 {
			name = fmt.Sprintf("%s#%d", base, cnt)
		}
		t := x.tc.Var(name, BV(64))
		conds := make([]*Term, n)
		for i := range conds {
			conds[i] = x.tc.Eq(t, x.tc.Const(64, uint64(i)))
		}
		i := x.choose(st, conds, "Fork "+name)
		st.nameCnt[base] = cnt + 1
		st.nondet = append(st.nondet, NondetRec{Name: name, Kind: "int64", Term: t})
		st.mutGen++
		return ret1(x.tc.Const(64, uint64(i)))
	}
	intrinsics[zz+"Str"] = func(x *Exec, st *State, fr *Frame, fn *ssa.Function, a []Value) (Value, int) {
		base := x.concStr(a[0], "nondet name")
		maxLen := int(x.concInt(a[1], "Str"))
		name := x.nondetName(st, base)
		ln := x.tc.Var(name+".len", BV(64))
		x.assume(st, x.tc.Cmp("bvule", ln, x.tc.Const(64, uint64(maxLen))))
		bytes := make([]*Term, maxLen)
		for i := range bytes {
			bytes[i] = x.tc.Var(fmt.Sprintf("%s[%d]", name, i), BV(8))
		}
		var alts []StrAlt
		for l := 0; l <= maxLen; l++ {
			alts = append(alts, StrAlt{g: x.tc.Eq(ln, x.tc.Const(64, uint64(l))), b: bytes[:l]})
		}
		s := &StrV{alts: alts}
		st.nondet = append(st.nondet, NondetRec{Name: name, Kind: "str", Str: s, Max: maxLen, Term: ln})
		st.mutGen++
		return ret1(s)
	}
	intrinsics[zz+"OneOf"] = func(x *Exec, st *State, fr *Frame, fn *ssa.Function, a []Value) (Value, int) {
		base := x.concStr(a[0], "nondet name")
		opts := a[1].(SliceV)
		if opts.len == 0 {
			return ret1(x.strConst(""))
		}
		name := x.nondetName(st, base)
		idx := x.tc.Var(name, BV(64))
		x.assume(st, x.tc.Cmp("bvult", idx, x.tc.Const(64, uint64(opts.len))))
		var alts []StrAlt
		for k := 0; k < opts.len; k++ {
			o := x.load(st, x.sliceElemPtr(opts, k)).(*StrV)
			for _, oa := range o.alts {
				alts = append(alts, StrAlt{g: x.tc.And(x.tc.Eq(idx, x.tc.Const(64, uint64(k))), oa.g), b: oa.b})
			}
		}
		st.nondet = append(st.nondet, NondetRec{Name: name, Kind: "int64", Term: idx})
		st.mutGen++
		return ret1(x.strNormalize(alts))
	}
	intrinsics[zz+"Assume"] = func(x *Exec, st *State, fr *Frame, fn *ssa.Function, a []Value) (Value, int) {
		c := a[0].(*Term)
		if c.IsFalse() {
			panic(pathEnd{"assume false"})
		}
		if !c.IsTrue() {
			if !x.feasible(st, c) {
				panic(pathEnd{"assume infeasible"})
			}
			x.assume(st, c)
		}
		return nil, 1
	}
	intrinsics[zz+"Assert"] = func(x *Exec, st *State, fr *Frame, fn *ssa.Function, a []Value) (Value, int) {
		x.doAssert(st, fr, a[0].(*Term), x.concStr(a[1], "Assert message"))
		return nil, 1
	}
	intrinsics[zz+"And"] = func(x *Exec, st *State, fr *Frame, fn *ssa.Function, a []Value) (Value, int) {
		sl := a[0].(SliceV)
		var ts []*Term
		for k := 0; k < sl.len; k++ {
			ts = append(ts, x.load(st, x.sliceElemPtr(sl, k)).(*Term))
		}
		return ret1(x.tc.And(ts...))
	}
	intrinsics[zz+"Or"] = func(x *Exec, st *State, fr *Frame, fn *ssa.Function, a []Value) (Value, int) {
		sl := a[0].(SliceV)
		var ts []*Term
		for k := 0; k < sl.len; k++ {
			ts = append(ts, x.load(st, x.sliceElemPtr(sl, k)).(*Term))
		}
		return ret1(x.tc.Or(ts...))
	}
	intrinsics[zz+"Implies"] = func(x *Exec, st *State, fr *Frame, fn *ssa.Function, a []Value) (Value, int) {
		return ret1(x.tc.Implies(a[0].(*Term), a[1].(*Term)))
	}
	intrinsics[zz+"IteInt"] = func(x *Exec, st *State, fr *Frame, fn *ssa.Function, a []Value) (Value, int) {
		return ret1(x.tc.Ite(a[0].(*Term), a[1].(*Term), a[2].(*Term)))
	}
	intrinsics[zz+"IteStr"] = func(x *Exec, st *State, fr *Frame, fn *ssa.Function, a []Value) (Value, int) {
		return ret1(x.strIte(a[0].(*Term), a[1].(*StrV), a[2].(*StrV)))
	}
	intrinsics[zz+"Unreachable"] = func(x *Exec, st *State, fr *Frame, fn *ssa.Function, a []Value) (Value, int) {
		x.doAssert(st, fr, x.tc.False, x.concStr(a[0], "Unreachable message"))
		return nil, 1
	}
	intrinsics[zz+"Reach"] = func(x *Exec, st *State, fr *Frame, fn *ssa.Function, a []Value) (Value, int) {
		x.ReachTags[x.concStr(a[0], "Reach")]++
		return nil, 1
	}
	intrinsics[zz+"Tier"] = func(x *Exec, st *State, fr *Frame, fn *ssa.Function, a []Value) (Value, int) {
		return ret1(x.tc.Const(64, uint64(x.cfg.Tier)))
	}
	intrinsics[zz+"Shard"] = func(x *Exec, st *State, fr *Frame, fn *ssa.Function, a []Value) (Value, int) {
		n := int(x.concInt(a[0], "Shard"))
		if n != x.nshards && !(x.nshards == 0 && n <= 1) {
			panic(x.unsupported(fmt.Sprintf("Shard(%d) does not match the statically detected shard count %d", n, x.nshards)))
		}
		return ret1(x.tc.Const(64, uint64(x.shard)))
	}
	intrinsics[zz+"AllowPanic"] = func(x *Exec, st *State, fr *Frame, fn *ssa.Function, a []Value) (Value, int) {
		st.allowPanic = true
		return nil, 1
	}
	intrinsics[zz+"FixedMapOrder"] = func(x *Exec, st *State, fr *Frame, fn *ssa.Function, a []Value) (Value, int) {
		on := a[0].(*Term)
		if on.IsTrue() {
			st.ghost["$fixedMapOrder"] = x.tc.True
		} else {
			delete(st.ghost, "$fixedMapOrder")
		}
		st.mutGen++
		return nil, 1
	}
	intrinsics[zz+"Concrete"] = func(x *Exec, st *State, fr *Frame, fn *ssa.Function, a []Value) (Value, int) {
		// Concrete(v, lo, hi): fork over the feasible values of v
		lo, hi := x.concInt(a[1], "Concrete"), x.concInt(a[2], "Concrete")
		k := x.concretize(st, a[0].(*Term), lo, hi, "Concrete")
		if k > hi {
			panic(pathEnd{"Concrete: out of range"})
		}
		return ret1(x.tc.Const(64, uint64(k)))
	}
	intrinsics[zz+"IsEngine"] = func(x *Exec, st *State, fr *Frame, fn *ssa.Function, a []Value) (Value, int) {
		return ret1(x.tc.True)
	}
	intrinsics[zz+"Spawned"] = func(x *Exec, st *State, fr *Frame, fn *ssa.Function, a []Value) (Value, int) {
		return ret1(x.tc.Const(64, uint64(len(st.spawned))))
	}
	intrinsics[zz+"RunSpawned"] = func(x *Exec, st *State, fr *Frame, fn *ssa.Function, a []Value) (Value, int) {
		i := int(x.concInt(a[0], "RunSpawned"))
		if i < 0 || i >= len(st.spawned) {
			panic(x.unsupported("RunSpawned index out of range"))
		}
		sp := st.spawned[i]
		x.redirArgs = sp.args
		return sp.fn, 3
	}
	intrinsics[zz+"NoReceiver"] = func(x *Exec, st *State, fr *Frame, fn *ssa.Function, a []Value) (Value, int) {
		c, ok := a[0].(IfaceV).val.(ChanV)
		if !ok || c.obj == 0 {
			panic(x.unsupported("NoReceiver of a non-channel"))
		}
		n := *x.chanObj(st, c)
		n.noRecv = true
		st.heap[c.obj] = &n
		st.mutGen++
		return nil, 1
	}
	intrinsics[zz+"LockState"] = func(x *Exec, st *State, fr *Frame, fn *ssa.Function, a []Value) (Value, int) {
		iv := a[0].(IfaceV)
		p, ok := iv.val.(PtrV)
		if !ok {
			panic(x.unsupported("LockState of non-pointer"))
		}
		return ret1(x.tc.Const(64, uint64(st.locks[p.String()])))
	}
	hook := func(kind string) intrinsicFn {
		return func(x *Exec, st *State, fr *Frame, fn *ssa.Function, a []Value) (Value, int) {
			iv := a[0].(IfaceV)
			p, ok := iv.val.(PtrV)
			if !ok {
				panic(x.unsupported("lock hook on non-pointer"))
			}
			f := a[1].(*FuncV)
			if f == nil {
				delete(st.ghost, kind+p.String())
			} else {
				st.ghost[kind+p.String()] = f
			}
			st.mutGen++
			return nil, 1
		}
	}
	intrinsics[zz+"Override"] = func(x *Exec, st *State, fr *Frame, fn *ssa.Function, a []Value) (Value, int) {
		name := x.concStr(a[0], "Override name")
		iv := a[1].(IfaceV)
		if iv.typ == nil {
			delete(st.ghost, "$override:"+name)
		} else {
			f, ok := iv.val.(*FuncV)
			if !ok || f == nil {
				panic(x.unsupported("Override needs a function value"))
			}
			st.ghost["$override:"+name] = f
		}
		st.mutGen++
		return nil, 1
	}
	intrinsics[zz+"OnYield"] = func(x *Exec, st *State, fr *Frame, fn *ssa.Function, a []Value) (Value, int) {
		f := a[0].(*FuncV)
		if f == nil {
			delete(st.ghost, "$onyield")
		} else {
			st.ghost["$onyield"] = f
		}
		st.mutGen++
		return nil, 1
	}
	intrinsics[zz+"Yield"] = func(x *Exec, st *State, fr *Frame, fn *ssa.Function, a []Value) (Value, int) {
		if h, ok := st.ghost["$onyield"]; ok {
			x.redirArgs = nil
			return h, 3
		}
		return nil, 1
	}
	intrinsics[zz+"OnLock"] = hook("$onlock:")
	intrinsics[zz+"OnUnlock"] = hook("$onunlock:")
	intrinsics[zz+"SwapElems"] = func(x *Exec, st *State, fr *Frame, fn *ssa.Function, a []Value) (Value, int) {
		s := a[0].(IfaceV).val.(SliceV)
		i, j := int(x.concInt(a[1], "SwapElems")), int(x.concInt(a[2], "SwapElems"))
		vi, vj := x.load(st, x.sliceElemPtr(s, i)), x.load(st, x.sliceElemPtr(s, j))
		x.store(st, x.sliceElemPtr(s, i), vj)
		x.store(st, x.sliceElemPtr(s, j), vi)
		return nil, 1
	}
	intrinsics[zz+"LenOf"] = func(x *Exec, st *State, fr *Frame, fn *ssa.Function, a []Value) (Value, int) {
		s := a[0].(IfaceV).val.(SliceV)
		return ret1(x.tc.Const(64, uint64(s.len)))
	}
	intrinsics[zz+"AsAssign"] = func(x *Exec, st *State, fr *Frame, fn *ssa.Function, a []Value) (Value, int) {
		// AsAssign(err error, target any) bool: one step of errors.As
		e := a[0].(IfaceV)
		tg := a[1].(IfaceV)
		pt, ok := tg.typ.Underlying().(*types.Pointer)
		if !ok {
			panic(goPanic{"errors: target must be a non-nil pointer"})
		}
		tt := pt.Elem()
		if e.typ == nil {
			return ret1(x.tc.False)
		}
		if types.IsInterface(tt) {
			if types.Implements(e.typ, tt.Underlying().(*types.Interface)) {
				x.store(st, tg.val.(PtrV), e)
				return ret1(x.tc.True)
			}
			return ret1(x.tc.False)
		}
		if types.Identical(e.typ, tt) {
			x.store(st, tg.val.(PtrV), e.val)
			return ret1(x.tc.True)
		}
		return ret1(x.tc.False)
	}
	intrinsics[zz+"Log"] = func(x *Exec, st *State, fr *Frame, fn *ssa.Function, a []Value) (Value, int) {
		if x.cfg.Verbose {
			fmt.Printf("  [log] %s\n", x.show(a[0], 0))
		}
		return nil, 1
	}

	// ----- sync -----
	lockKey := func(v Value) string { return v.(PtrV).String() }
	intrinsics["(*sync.Mutex).Lock"] = func(x *Exec, st *State, fr *Frame, fn *ssa.Function, a []Value) (Value, int) {
		k := lockKey(a[0])
		if st.locks[k] != 0 {
			panic(goPanic{"zzverif: Lock of a mutex that is already held (self-deadlock) " + k})
		}
		st.locks[k] = -1
		st.mutGen++
		if h, ok := st.ghost["$onlock:"+k]; ok {
			x.redirArgs = nil
			return h, 3
		}
		return nil, 1
	}
	intrinsics["(*sync.Mutex).TryLock"] = func(x *Exec, st *State, fr *Frame, fn *ssa.Function, a []Value) (Value, int) {
		k := lockKey(a[0])
		if st.locks[k] != 0 {
			return ret1(x.tc.False)
		}
		st.locks[k] = -1
		st.mutGen++
		return ret1(x.tc.True)
	}
	intrinsics["(*sync.Mutex).Unlock"] = func(x *Exec, st *State, fr *Frame, fn *ssa.Function, a []Value) (Value, int) {
		k := lockKey(a[0])
		if st.locks[k] != -1 {
			panic(goPanic{"fatal error: sync: unlock of unlocked mutex " + k})
		}
		st.locks[k] = 0
		st.mutGen++
		if h, ok := st.ghost["$onunlock:"+k]; ok {
			x.redirArgs = nil
			return h, 3
		}
		return nil, 1
	}
	intrinsics["(*sync.RWMutex).Lock"] = intrinsics["(*sync.Mutex).Lock"]
	intrinsics["(*sync.RWMutex).Unlock"] = intrinsics["(*sync.Mutex).Unlock"]
	intrinsics["(*sync.RWMutex).RLock"] = func(x *Exec, st *State, fr *Frame, fn *ssa.Function, a []Value) (Value, int) {
		k := lockKey(a[0])
		if st.locks[k] < 0 {
			panic(goPanic{"zzverif: RLock of a write-held RWMutex (self-deadlock) " + k})
		}
		st.locks[k]++
		st.mutGen++
		return nil, 1
	}
	intrinsics["(*sync.RWMutex).RUnlock"] = func(x *Exec, st *State, fr *Frame, fn *ssa.Function, a []Value) (Value, int) {
		k := lockKey(a[0])
		if st.locks[k] <= 0 {
			panic(goPanic{"fatal error: sync: RUnlock of unlocked RWMutex " + k})
		}
		st.locks[k]--
		st.mutGen++
		return nil, 1
	}
	intrinsics["(*sync.RWMutex).RLocker"] = nil
	delete(intrinsics, "(*sync.RWMutex).RLocker")
	intrinsics["(*sync.Cond).Broadcast"] = func(x *Exec, st *State, fr *Frame, fn *ssa.Function, a []Value) (Value, int) {
		st.calllog = append(st.calllog, "cond.Broadcast")
		return nil, 1
	}
	intrinsics["(*sync.Cond).Signal"] = intrinsics["(*sync.Cond).Broadcast"]
	intrinsics["sync.NewCond"] = func(x *Exec, st *State, fr *Frame, fn *ssa.Function, a []Value) (Value, int) {
		ct := fn.Signature.Results().At(0).Type().(*types.Pointer).Elem()
		cv := x.zero(ct).(*StructV)
		// field L
		stt := ct.Underlying().(*types.Struct)
		for i := 0; i < stt.NumFields(); i++ {
			if stt.Field(i).Name() == "L" {
				nf := append([]Value(nil), cv.f...)
				nf[i] = a[0]
				cv = &StructV{f: nf}
			}
		}
		return ret1(st.alloc(cv))
	}
	intrinsics["(*sync.WaitGroup).Add"] = func(x *Exec, st *State, fr *Frame, fn *ssa.Function, a []Value) (Value, int) { return nil, 1 }
	intrinsics["(*sync.WaitGroup).Done"] = intrinsics["(*sync.WaitGroup).Add"]
	intrinsics["(*sync.WaitGroup).Wait"] = intrinsics["(*sync.WaitGroup).Add"]
	intrinsics["(*sync.Once).Do"] = func(x *Exec, st *State, fr *Frame, fn *ssa.Function, a []Value) (Value, int) {
		k := "once:" + lockKey(a[0])
		if st.locks[k] != 0 {
			return nil, 1
		}
		st.locks[k] = 1
		st.mutGen++
		x.redirArgs = nil
		return a[1], 3
	}

	// sync.Map modelled exactly, keyed by object
	smap := func(x *Exec, st *State, recv Value) MapV {
		k := "syncmap:" + lockKey(recv)
		if m, ok := st.ghost[k]; ok {
			return m.(MapV)
		}
		p := st.alloc(&MapObj{})
		m := MapV{obj: p.obj}
		st.ghost[k] = m
		return m
	}
	intrinsics["(*sync.Map).Load"] = func(x *Exec, st *State, fr *Frame, fn *ssa.Function, a []Value) (Value, int) {
		mo := smapPeek(x, st, a[0])
		idx := x.mapFind(st, mo, a[1])
		if idx < 0 {
			return ret1(TupleV{IfaceV{}, x.tc.False})
		}
		return ret1(TupleV{mo.entries[idx].val, x.tc.True})
	}
	intrinsics["(*sync.Map).Store"] = func(x *Exec, st *State, fr *Frame, fn *ssa.Function, a []Value) (Value, int) {
		mo := smapPeek(x, st, a[0])
		_ = x.mapFind(st, mo, a[1]) // decide before mutation
		m := smap(x, st, a[0])
		x.mapSet(st, m, a[1], a[2])
		return nil, 1
	}
	intrinsics["(*sync.Map).LoadOrStore"] = func(x *Exec, st *State, fr *Frame, fn *ssa.Function, a []Value) (Value, int) {
		mo := smapPeek(x, st, a[0])
		idx := x.mapFind(st, mo, a[1])
		if idx >= 0 {
			return ret1(TupleV{mo.entries[idx].val, x.tc.True})
		}
		m := smap(x, st, a[0])
		x.mapSet(st, m, a[1], a[2])
		return ret1(TupleV{a[2], x.tc.False})
	}
	intrinsics["(*sync.Map).Delete"] = func(x *Exec, st *State, fr *Frame, fn *ssa.Function, a []Value) (Value, int) {
		mo := smapPeek(x, st, a[0])
		_ = x.mapFind(st, mo, a[1])
		m := smap(x, st, a[0])
		x.execBuiltin(st, fr, "delete", []Value{m, a[1]}, nil)
		return nil, 1
	}
	intrinsics["(*sync.Map).LoadAndDelete"] = func(x *Exec, st *State, fr *Frame, fn *ssa.Function, a []Value) (Value, int) {
		mo := smapPeek(x, st, a[0])
		idx := x.mapFind(st, mo, a[1])
		if idx < 0 {
			return ret1(TupleV{IfaceV{}, x.tc.False})
		}
		v := mo.entries[idx].val
		m := smap(x, st, a[0])
		x.execBuiltin(st, fr, "delete", []Value{m, a[1]}, nil)
		return ret1(TupleV{v, x.tc.True})
	}

	// ----- sync/atomic (sequentially consistent, single thread) -----
	for _, w := range []string{"Int32", "Uint32", "Int64", "Uint64", "Uintptr", "Pointer"} {
		intrinsics["sync/atomic.Load"+w] = func(x *Exec, st *State, fr *Frame, fn *ssa.Function, a []Value) (Value, int) {
			return ret1(x.load(st, a[0].(PtrV)))
		}
		intrinsics["sync/atomic.Store"+w] = func(x *Exec, st *State, fr *Frame, fn *ssa.Function, a []Value) (Value, int) {
			x.store(st, a[0].(PtrV), a[1])
			return nil, 1
		}
		intrinsics["sync/atomic.Add"+w] = func(x *Exec, st *State, fr *Frame, fn *ssa.Function, a []Value) (Value, int) {
			v := x.tc.BinBV("bvadd", x.load(st, a[0].(PtrV)).(*Term), a[1].(*Term))
			x.store(st, a[0].(PtrV), v)
			return ret1(v)
		}
		intrinsics["sync/atomic.Swap"+w] = func(x *Exec, st *State, fr *Frame, fn *ssa.Function, a []Value) (Value, int) {
			old := x.load(st, a[0].(PtrV))
			x.store(st, a[0].(PtrV), a[1])
			return ret1(old)
		}
		intrinsics["sync/atomic.CompareAndSwap"+w] = func(x *Exec, st *State, fr *Frame, fn *ssa.Function, a []Value) (Value, int) {
			old := x.load(st, a[0].(PtrV))
			eq := x.valEq(old, a[1])
			if x.branch(st, eq, "CAS") {
				x.store(st, a[0].(PtrV), a[2])
				return ret1(x.tc.True)
			}
			return ret1(x.tc.False)
		}
	}

	// ----- time -----
	intrinsics["time.Now"] = func(x *Exec, st *State, fr *Frame, fn *ssa.Function, a []Value) (Value, int) {
		return ret1(x.symTime(st, "time.Now", fn.Signature.Results().At(0).Type(), true))
	}
	intrinsics[zz+"Time"] = func(x *Exec, st *State, fr *Frame, fn *ssa.Function, a []Value) (Value, int) {
		return ret1(x.symTime(st, x.concStr(a[0], "Time"), fn.Signature.Results().At(0).Type(), false))
	}
	intrinsics["time.Sleep"] = func(x *Exec, st *State, fr *Frame, fn *ssa.Function, a []Value) (Value, int) { return nil, 1 }
	intrinsics["time.Since"] = func(x *Exec, st *State, fr *Frame, fn *ssa.Function, a []Value) (Value, int) {
		// arbitrary non-negative duration bounded to keep arithmetic sane
		d := x.newNondet(st, "time.Since", 64, "int64")
		x.assume(st, x.tc.Cmp("bvsle", x.tc.Const(64, 0), d))
		return ret1(d)
	}

	// ----- fmt / errors -----
	intrinsics["fmt.Sprintf"] = func(x *Exec, st *State, fr *Frame, fn *ssa.Function, a []Value) (Value, int) {
		s, _ := x.sprintf(st, a[0].(*StrV), a[1].(SliceV))
		return ret1(s)
	}
	intrinsics["fmt.Sprint"] = func(x *Exec, st *State, fr *Frame, fn *ssa.Function, a []Value) (Value, int) {
		sl := a[0].(SliceV)
		var out *StrV = x.strConst("")
		for k := 0; k < sl.len; k++ {
			out = x.strConcat(out, x.fmtValue(st, x.load(st, x.sliceElemPtr(sl, k)), 'v'))
		}
		return ret1(out)
	}
	intrinsics["fmt.Sprintln"] = intrinsics["fmt.Sprint"]
	intrinsics["fmt.Errorf"] = func(x *Exec, st *State, fr *Frame, fn *ssa.Function, a []Value) (Value, int) {
		s, wrapped := x.sprintf(st, a[0].(*StrV), a[1].(SliceV))
		return ret1(x.mkError(st, s, wrapped))
	}
	for _, n := range []string{"fmt.Printf", "fmt.Println", "fmt.Print", "fmt.Fprintf", "fmt.Fprintln", "fmt.Fprint"} {
		intrinsics[n] = func(x *Exec, st *State, fr *Frame, fn *ssa.Function, a []Value) (Value, int) {
			return ret1(TupleV{x.tc.Const(64, 0), IfaceV{}})
		}
	}

	// ----- strconv / strings on concrete arguments -----
	intrinsics["strconv.Itoa"] = func(x *Exec, st *State, fr *Frame, fn *ssa.Function, a []Value) (Value, int) {
		t := a[0].(*Term)
		if t.cst {
			return ret1(x.strConst(strconv.FormatInt(sext(t.val, 64), 10)))
		}
		return ret1(x.itoaSym(st, t))
	}
	intrinsics["strconv.FormatInt"] = func(x *Exec, st *State, fr *Frame, fn *ssa.Function, a []Value) (Value, int) {
		t := a[0].(*Term)
		if t.cst && a[1].(*Term).cst {
			return ret1(x.strConst(strconv.FormatInt(sext(t.val, 64), int(a[1].(*Term).val))))
		}
		return ret1(x.itoaSym(st, t))
	}
	intrinsics["strconv.Atoi"] = func(x *Exec, st *State, fr *Frame, fn *ssa.Function, a []Value) (Value, int) {
		s := a[0].(*StrV)
		if cs, ok := s.concrete(); ok {
			v, err := strconv.Atoi(cs)
			if err != nil {
				return ret1(TupleV{x.tc.Const(64, 0), x.mkError(st, x.strConst(err.Error()), nil)})
			}
			return ret1(TupleV{x.tc.Const(64, uint64(v)), IfaceV{}})
		}
		x.redirArgs = a
		return &FuncV{fn: x.modelFn("M_strconv_Atoi")}, 3
	}
	intrinsics["unique.Make"] = func(x *Exec, st *State, fr *Frame, fn *ssa.Function, a []Value) (Value, int) {
		// canonical object per distinct (concrete) value
		k := "unique:" + fn.String() + ":" + x.show(a[0], 0)
		var p PtrV
		if v, ok := st.ghost[k]; ok {
			p = v.(PtrV)
		} else {
			p = st.alloc(a[0])
			st.ghost[k] = p
		}
		return ret1(&StructV{f: []Value{p}})
	}
	intrinsics["(unique.Handle).Value"] = func(x *Exec, st *State, fr *Frame, fn *ssa.Function, a []Value) (Value, int) {
		h := a[0].(*StructV)
		return ret1(x.load(st, h.f[0].(PtrV)))
	}
	ident := func(x *Exec, st *State, fr *Frame, fn *ssa.Function, a []Value) (Value, int) { return ret1(a[0]) }
	intrinsics["internal/stringslite.Clone"] = ident
	intrinsics["strings.Clone"] = ident
	intrinsics["strconv.cloneString"] = ident
	intrinsics["runtime.KeepAlive"] = func(x *Exec, st *State, fr *Frame, fn *ssa.Function, a []Value) (Value, int) { return nil, 1 }
	intrinsics["runtime.Gosched"] = func(x *Exec, st *State, fr *Frame, fn *ssa.Function, a []Value) (Value, int) { return nil, 1 }
	intrinsics["reflect.DeepEqual"] = func(x *Exec, st *State, fr *Frame, fn *ssa.Function, a []Value) (Value, int) {
		return ret1(x.deepEq(st, a[0], a[1], 0))
	}
	intrinsics["k8s.io/apimachinery/pkg/api/equality.(*Equalities).DeepEqual"] = nil
	delete(intrinsics, "k8s.io/apimachinery/pkg/api/equality.(*Equalities).DeepEqual")
	registerMoreIntrinsics()
}

func smapPeek(x *Exec, st *State, recv Value) *MapObj {
	k := "syncmap:" + recv.(PtrV).String()
	if m, ok := st.ghost[k]; ok {
		return st.heap[m.(MapV).obj].(*MapObj)
	}
	// not yet created: behave as an empty map without mutating
	return &MapObj{}
}

// doAssert records an assertion on the current path.  Assertions made under
// the same path condition are decided together by one solver query
// (flushAsserts) before the path condition changes or the path ends.
func (x *Exec) doAssert(st *State, fr *Frame, c *Term, msg string) {
	pos := x.pos(x.curInstr)
	site := pos + ": " + msg
	x.AssertSites[site]++
	x.Obligations++
	if len(st.pc) > 0 || !c.IsTrue() {
		x.NontrivPaths[fmt.Sprintf("%s|%d", site, pcHash(st.pc))] = true
	}
	if c.IsTrue() {
		x.Discharged++
		x.Trivial++
		return
	}
	st.asserts = append(st.asserts, pendAssert{c: c, site: site, msg: msg, pos: pos, stack: x.stack(st)})
}

func (x *Exec) flushAsserts(st *State) {
	if len(st.asserts) == 0 {
		return
	}
	batch := st.asserts
	st.asserts = nil
	var negs []*Term
	for _, a := range batch {
		negs = append(negs, x.tc.Not(a.c))
	}
	any := x.tc.Or(negs...)
	r := x.sol.Check(st.pc, any)
	if r == Unsat {
		x.Discharged += len(batch)
		if len(x.Samples) < 3 {
			q := append(append([]*Term(nil), st.pc...), any)
			scr := x.sol.Script(q)
			if len(scr) < 6000 {
				x.Samples = append(x.Samples, fmt.Sprintf("; obligation(s) %s (+%d more under the same path condition; expect unsat)\n%s", batch[0].site, len(batch)-1, scr))
			}
		}
		return
	}
	// some assertion can fail (or unknown): decide each one
	for _, a := range batch {
		neg := x.tc.Not(a.c)
		r := x.sol.Check(st.pc, neg)
		switch r {
		case Unsat:
			x.Discharged++
		case Sat:
			x.violSite[a.site]++
			if x.violSite[a.site] > 3 {
				continue
			}
			q := append(append([]*Term(nil), st.pc...), neg)
			m, ok := x.sol.Model(q)
			if !ok {
				x.inconclusive("assertion sat but no model: " + a.site)
				continue
			}
			x.Violations = append(x.Violations, Violation{Harness: x.harness, Msg: a.msg, Pos: a.pos, Model: m,
				Nondet: append([]NondetRec(nil), st.nondet...), Trace: append([]string(nil), st.trace...), Kind: "assert", Stack: a.stack})
		default:
			x.inconclusive("solver unknown on assertion " + a.site)
		}
	}
}

func pcHash(pc []*Term) uint64 {
	var h uint64 = 1469598103934665603
	for _, t := range pc {
		h ^= uint64(t.id)
		h *= 1099511628211
	}
	return h
}

// symTime builds a time.Time with symbolic whole seconds.
func (x *Exec) symTime(st *State, name string, tt types.Type, monotone bool) Value {
	sec := x.newNondet(st, name, 64, "int64")
	// keep within [year 1970, year 2262] in seconds since year 1
	lo := uint64(62135596800)
	hi := lo + uint64(9214646400)
	x.assume(st, x.tc.Cmp("bvsle", x.tc.Const(64, lo), sec))
	x.assume(st, x.tc.Cmp("bvsle", sec, x.tc.Const(64, hi)))
	if monotone {
		if prev, ok := st.ghost["$lastNow"]; ok {
			x.assume(st, x.tc.Cmp("bvsle", prev.(*Term), sec))
		}
		st.ghost["$lastNow"] = sec
	}
	tv := x.zero(tt).(*StructV)
	nf := append([]Value(nil), tv.f...)
	nf[0] = x.tc.Const(64, 0) // wall
	nf[1] = sec               // ext
	return &StructV{f: nf}
}

// mkError builds an error value: *fmt.wrapError when wrapping, else *errors.errorString.
func (x *Exec) mkError(st *State, msg *StrV, wrapped Value) Value {
	if wrapped != nil {
		if w, ok := wrapped.(IfaceV); ok && w.typ != nil {
			fp := x.prog.ImportedPackage("fmt")
			if fp != nil {
				if tn := fp.Type("wrapError"); tn != nil {
					p := st.alloc(&StructV{f: []Value{msg, w}})
					return IfaceV{typ: types.NewPointer(tn.Type()), val: p}
				}
			}
		}
	}
	ep := x.prog.ImportedPackage("errors")
	if ep == nil {
		panic(x.unsupported("package errors not loaded"))
	}
	tn := ep.Type("errorString")
	p := st.alloc(&StructV{f: []Value{msg}})
	return IfaceV{typ: types.NewPointer(tn.Type()), val: p}
}

// sprintf interprets a (concrete) format string.
func (x *Exec) sprintf(st *State, format *StrV, args SliceV) (*StrV, Value) {
	f, ok := format.concrete()
	if !ok {
		return x.strConst("<fmt>"), nil
	}
	out := x.strConst("")
	var wrapped Value
	ai := 0
	i := 0
	for i < len(f) {
		j := strings.IndexByte(f[i:], '%')
		if j < 0 {
			out = x.strConcat(out, x.strConst(f[i:]))
			break
		}
		out = x.strConcat(out, x.strConst(f[i:i+j]))
		i += j + 1
		// flags/width
		for i < len(f) && strings.IndexByte("+-# 0123456789.", f[i]) >= 0 {
			i++
		}
		if i >= len(f) {
			break
		}
		verb := f[i]
		i++
		if verb == '%' {
			out = x.strConcat(out, x.strConst("%"))
			continue
		}
		if ai >= args.len {
			out = x.strConcat(out, x.strConst("%!"+string(verb)+"(MISSING)"))
			continue
		}
		av := x.load(st, x.sliceElemPtr(args, ai))
		ai++
		if verb == 'w' {
			wrapped = av
		}
		out = x.strConcat(out, x.fmtValue(st, av, verb))
	}
	return out, wrapped
}

func (x *Exec) fmtValue(st *State, v Value, verb byte) *StrV {
	if iv, ok := v.(IfaceV); ok {
		if iv.typ == nil {
			return x.strConst("<nil>")
		}
		// error / Stringer values: do not run methods, print a placeholder
		switch u := iv.val.(type) {
		case *StrV:
			if verb == 'q' {
				return x.strConcat(x.strConcat(x.strConst("\""), u), x.strConst("\""))
			}
			return u
		case *Term:
			if u.cst && u.sort.K == SBV {
				if isSigned(iv.typ) {
					return x.strConst(strconv.FormatInt(sext(u.val, u.sort.W), 10))
				}
				return x.strConst(strconv.FormatUint(u.val, 10))
			}
			if u.cst && u.sort.K == SBool {
				return x.strConst(strconv.FormatBool(u.val == 1))
			}
			if u.sort.K == SBV && u.sort.W == 64 {
				return x.itoaSym(st, u)
			}
			return x.strConst("<sym>")
		case PtrV:
			// *errorString etc.: try msg field
			if !u.isNil() {
				if sv, ok := st.heap[u.obj].(*StructV); ok && len(u.path) == 0 && len(sv.f) > 0 {
					if s, ok := sv.f[0].(*StrV); ok && (strings.HasSuffix(iv.typ.String(), "errorString") || strings.HasSuffix(iv.typ.String(), "wrapError")) {
						return s
					}
				}
			}
			return x.strConst("<ptr>")
		}
		return x.strConst("<" + iv.typ.String() + ">")
	}
	return x.strConst("<v>")
}

// itoaSym renders a symbolic integer as a string by case analysis when the
// range is small, else as an opaque placeholder with symbolic digits.
func (x *Exec) itoaSym(st *State, t *Term) *StrV {
	// enumerate feasible values up to a small limit
	var alts []StrAlt
	for v := int64(-2); v <= 40; v++ {
		c := x.tc.Eq(t, x.tc.Const(64, uint64(v)))
		if c.IsFalse() {
			continue
		}
		alts = append(alts, StrAlt{g: c, b: x.strConst(strconv.FormatInt(v, 10)).alts[0].b})
	}
	var gs []*Term
	for _, a := range alts {
		gs = append(gs, a.g)
	}
	rest := x.tc.Not(x.tc.Or(gs...))
	if x.feasible(st, rest) {
		alts = append(alts, StrAlt{g: rest, b: x.strConst("<int>").alts[0].b})
	}
	return x.strNormalize(alts)
}

// deepEq: structural equality following pointers, slices and maps.
func (x *Exec) deepEq(st *State, a, b Value, d int) *Term {
	if d > 12 {
		panic(x.unsupported("deepEq depth"))
	}
	switch av := a.(type) {
	case IfaceV:
		bv, ok := b.(IfaceV)
		if !ok {
			return x.tc.False
		}
		if av.typ == nil || bv.typ == nil {
			return x.tc.Bool(av.typ == nil && bv.typ == nil)
		}
		if !types.Identical(av.typ, bv.typ) {
			return x.tc.False
		}
		return x.deepEq(st, av.val, bv.val, d+1)
	case PtrV:
		bv := b.(PtrV)
		if av.isNil() || bv.isNil() {
			return x.tc.Bool(av.isNil() && bv.isNil())
		}
		if ptrEq(av, bv) {
			return x.tc.True
		}
		return x.deepEq(st, x.load(st, av), x.load(st, bv), d+1)
	case *StructV:
		bv := b.(*StructV)
		var cs []*Term
		for i := range av.f {
			cs = append(cs, x.deepEq(st, av.f[i], bv.f[i], d+1))
		}
		return x.tc.And(cs...)
	case *ArrayV:
		bv := b.(*ArrayV)
		var cs []*Term
		for i := range av.e {
			cs = append(cs, x.deepEq(st, av.e[i], bv.e[i], d+1))
		}
		return x.tc.And(cs...)
	case SliceV:
		bv := b.(SliceV)
		if av.base.isNil() != bv.base.isNil() || av.len != bv.len {
			return x.tc.False
		}
		var cs []*Term
		for k := 0; k < av.len; k++ {
			cs = append(cs, x.deepEq(st, x.load(st, x.sliceElemPtr(av, k)), x.load(st, x.sliceElemPtr(bv, k)), d+1))
		}
		return x.tc.And(cs...)
	case MapV:
		bv := b.(MapV)
		if (av.obj == 0) != (bv.obj == 0) {
			return x.tc.False
		}
		if av.obj == 0 || av.obj == bv.obj {
			return x.tc.True
		}
		ma, mb := st.heap[av.obj].(*MapObj), st.heap[bv.obj].(*MapObj)
		if len(ma.entries) != len(mb.entries) {
			// with symbolic keys sizes could still coincide; we require syntactic sizes
			return x.tc.False
		}
		var cs []*Term
		for _, ea := range ma.entries {
			var ors []*Term
			for _, eb := range mb.entries {
				ors = append(ors, x.tc.And(x.valEq(ea.key, eb.key), x.deepEq(st, ea.val, eb.val, d+1)))
			}
			cs = append(cs, x.tc.Or(ors...))
		}
		return x.tc.And(cs...)
	}
	return x.valEq(a, b)
}
