package main

import (
	"fmt"
	"go/types"
	"strings"

	"golang.org/x/tools/go/ssa"
)

// big.Int contents are kept in a side table keyed by the *big.Int pointer:
// TupleV{neg Bool, w0, w1, w2 BV64} = sign and 192-bit magnitude (little endian words).
const bigWords = 3

func (x *Exec) bigGet(st *State, p Value) TupleV {
	k := "big:" + p.(PtrV).String()
	if v, ok := st.ghost[k]; ok {
		return v.(TupleV)
	}
	z := x.tc.Const(64, 0)
	return TupleV{x.tc.False, z, z, z}
}

func (x *Exec) bigSet(st *State, p Value, v TupleV) {
	st.ghost["big:"+p.(PtrV).String()] = v
	st.mutGen++
}

// two's complement of sign-magnitude
func (x *Exec) bigToTC(v TupleV) []*Term {
	neg := v[0].(*Term)
	w := []*Term{v[1].(*Term), v[2].(*Term), v[3].(*Term)}
	n := x.mwNeg(w)
	out := make([]*Term, bigWords)
	for i := range out {
		out[i] = x.tc.Ite(neg, n[i], w[i])
	}
	return out
}

func (x *Exec) mwNeg(w []*Term) []*Term {
	out := make([]*Term, len(w))
	carry := x.tc.True
	for i := range w {
		nw := x.tc.BVNot(w[i])
		s := x.tc.BinBV("bvadd", nw, x.tc.Ite(carry, x.tc.Const(64, 1), x.tc.Const(64, 0)))
		// carry out iff carry in and nw == all ones
		carry = x.tc.And(carry, x.tc.Eq(nw, x.tc.Const(64, ^uint64(0))))
		out[i] = s
	}
	return out
}

func (x *Exec) mwAdd(a, b []*Term) []*Term {
	out := make([]*Term, len(a))
	carry := x.tc.False
	for i := range a {
		s1 := x.tc.BinBV("bvadd", a[i], b[i])
		c1 := x.tc.Cmp("bvult", s1, a[i])
		s2 := x.tc.BinBV("bvadd", s1, x.tc.Ite(carry, x.tc.Const(64, 1), x.tc.Const(64, 0)))
		c2 := x.tc.And(carry, x.tc.Eq(s1, x.tc.Const(64, ^uint64(0))))
		out[i] = s2
		carry = x.tc.Or(c1, c2)
	}
	return out
}

func (x *Exec) bigFromTC(w []*Term) TupleV {
	neg := x.tc.Cmp("bvslt", w[bigWords-1], x.tc.Const(64, 0))
	n := x.mwNeg(w)
	out := TupleV{neg}
	for i := range w {
		out = append(out, x.tc.Ite(neg, n[i], w[i]))
	}
	return out
}

func registerMoreIntrinsics() {
	intrinsics["(*strings.Replacer).Replace"] = func(x *Exec, st *State, fr *Frame, fn *ssa.Function, a []Value) (Value, int) {
		s := a[1].(*StrV)
		for _, alt := range s.alts {
			c, ok := altConcrete(alt)
			if !ok || strings.ContainsAny(c, "~") {
				panic(x.unsupported("strings.Replacer.Replace on a string that may contain an escape"))
			}
		}
		return ret1(s) // gabs' dot-path replacer only rewrites ~0 / ~1 escapes
	}
	// textual renderings of times / durations feed log messages only
	for _, n := range []string{"(time.Time).String", "(time.Time).Format", "(time.Time).GoString", "(time.Duration).String", "(time.Time).AppendFormat"} {
		nn := n
		intrinsics[nn] = func(x *Exec, st *State, fr *Frame, fn *ssa.Function, a []Value) (Value, int) {
			if nn == "(time.Time).AppendFormat" {
				return ret1(a[1])
			}
			return ret1(x.strConst("<" + nn + ">"))
		}
	}
	intrinsics["k8s.io/apimachinery/pkg/util/wait.Jitter"] = func(x *Exec, st *State, fr *Frame, fn *ssa.Function, a []Value) (Value, int) {
		return ret1(a[0]) // any duration in [d, d+f*d): the lower end is taken; durations only feed timers outside the checks
	}
	intrinsics["math/rand.Intn"] = func(x *Exec, st *State, fr *Frame, fn *ssa.Function, a []Value) (Value, int) {
		n := a[0].(*Term)
		v := x.newNondet(st, "rand.Intn", 64, "int64")
		x.assume(st, x.tc.Cmp("bvsle", x.tc.Const(64, 0), v))
		x.assume(st, x.tc.Cmp("bvslt", v, n))
		return ret1(v)
	}
	intrinsics["math/rand.Int63"] = func(x *Exec, st *State, fr *Frame, fn *ssa.Function, a []Value) (Value, int) {
		v := x.newNondet(st, "rand.Int63", 64, "int64")
		x.assume(st, x.tc.Cmp("bvsle", x.tc.Const(64, 0), v))
		return ret1(v)
	}
	intrinsics["math/rand.Float64"] = func(x *Exec, st *State, fr *Frame, fn *ssa.Function, a []Value) (Value, int) {
		return ret1(x.tc.ConstF(0.5))
	}
	intrinsics["os.Getenv"] = func(x *Exec, st *State, fr *Frame, fn *ssa.Function, a []Value) (Value, int) {
		k := x.concStr(a[0], "os.Getenv key")
		if v, ok := st.ghost["$env:"+k]; ok {
			return ret1(v)
		}
		return ret1(x.strConst(""))
	}
	intrinsics["os.LookupEnv"] = func(x *Exec, st *State, fr *Frame, fn *ssa.Function, a []Value) (Value, int) {
		k := x.concStr(a[0], "os.LookupEnv key")
		if v, ok := st.ghost["$env:"+k]; ok {
			return ret1(TupleV{v, x.tc.True})
		}
		return ret1(TupleV{x.strConst(""), x.tc.False})
	}
	intrinsics[zz+"Setenv"] = func(x *Exec, st *State, fr *Frame, fn *ssa.Function, a []Value) (Value, int) {
		st.ghost["$env:"+x.concStr(a[0], "Setenv key")] = a[1]
		st.mutGen++
		return nil, 1
	}
	intrinsics["github.com/pkg/errors.callers"] = func(x *Exec, st *State, fr *Frame, fn *ssa.Function, a []Value) (Value, int) {
		return ret1(PtrV{})
	}
	intrinsics["context.WithValue"] = func(x *Exec, st *State, fr *Frame, fn *ssa.Function, a []Value) (Value, int) {
		cp := x.prog.ImportedPackage("context")
		tn := cp.Type("valueCtx")
		p := st.alloc(&StructV{f: []Value{a[0], a[1], a[2]}})
		return ret1(IfaceV{typ: types.NewPointer(tn.Type()), val: p})
	}
	redirects["k8s.io/apimachinery/pkg/util/wait.PollUntilContextTimeout"] = "M_wait_PollUntilContextTimeout"
	redirects["k8s.io/apimachinery/pkg/util/wait.ExponentialBackoffWithContext"] = "M_wait_ExponentialBackoffWithContext"
	redirects["context.WithCancel"] = "M_ctx_WithCancel"
	redirects["context.WithTimeout"] = "M_ctx_WithTimeout"
	redirects["context.WithDeadline"] = "M_ctx_WithDeadline"
	redirects["context.WithCancelCause"] = "M_ctx_WithCancelCause"
	registerSnapshotIntrinsics()
	intrinsics["math/big.NewInt"] = func(x *Exec, st *State, fr *Frame, fn *ssa.Function, a []Value) (Value, int) {
		v := a[0].(*Term)
		p := st.alloc(x.zero(typeOfPtrElem(fn.Signature.Results().At(0).Type())))
		neg := x.tc.Cmp("bvslt", v, x.tc.Const(64, 0))
		mag := x.tc.Ite(neg, x.tc.BVNeg(v), v)
		z := x.tc.Const(64, 0)
		x.bigSet(st, p, TupleV{neg, mag, z, z})
		return ret1(p)
	}
	intrinsics["(*math/big.Int).SetBytes"] = func(x *Exec, st *State, fr *Frame, fn *ssa.Function, a []Value) (Value, int) {
		s := a[1].(SliceV)
		if s.len > 16 {
			panic(x.unsupported("big.Int.SetBytes with more than 16 bytes"))
		}
		ws := []*Term{x.tc.Const(64, 0), x.tc.Const(64, 0), x.tc.Const(64, 0)}
		for k := 0; k < s.len; k++ {
			b := x.load(st, x.sliceElemPtr(s, s.len-1-k)).(*Term) // k-th least significant byte
			wi := k / 8
			sh := uint64(8 * (k % 8))
			ws[wi] = x.tc.BinBV("bvor", ws[wi], x.tc.BinBV("bvshl", x.tc.ZExt(b, 64), x.tc.Const(64, sh)))
		}
		x.bigSet(st, a[0], TupleV{x.tc.False, ws[0], ws[1], ws[2]})
		return ret1(a[0])
	}
	intrinsics["(*math/big.Int).Add"] = func(x *Exec, st *State, fr *Frame, fn *ssa.Function, a []Value) (Value, int) {
		xs := x.bigToTC(x.bigGet(st, a[1]))
		ys := x.bigToTC(x.bigGet(st, a[2]))
		x.bigSet(st, a[0], x.bigFromTC(x.mwAdd(xs, ys)))
		return ret1(a[0])
	}
	intrinsics["(*math/big.Int).Sign"] = func(x *Exec, st *State, fr *Frame, fn *ssa.Function, a []Value) (Value, int) {
		v := x.bigGet(st, a[0])
		zero := x.tc.And(x.tc.Eq(v[1].(*Term), x.tc.Const(64, 0)), x.tc.Eq(v[2].(*Term), x.tc.Const(64, 0)), x.tc.Eq(v[3].(*Term), x.tc.Const(64, 0)))
		return ret1(x.tc.Ite(zero, x.tc.Const(64, 0), x.tc.Ite(v[0].(*Term), x.tc.Const(64, ^uint64(0)), x.tc.Const(64, 1))))
	}
	intrinsics["(*math/big.Int).Bytes"] = func(x *Exec, st *State, fr *Frame, fn *ssa.Function, a []Value) (Value, int) {
		v := x.bigGet(st, a[0])
		// big-endian bytes of the magnitude with leading zero bytes dropped
		nb := bigWords * 8
		bytes := make([]*Term, nb)
		for k := 0; k < nb; k++ { // k-th least significant
			w := v[1+k/8].(*Term)
			bytes[nb-1-k] = x.tc.Extract(8*(k%8)+7, 8*(k%8), w)
		}
		// number of leading zero bytes
		conds := make([]*Term, nb+1)
		var zeros []*Term
		for k := 0; k <= nb; k++ {
			if k < nb {
				nz := x.tc.Not(x.tc.Eq(bytes[k], x.tc.Const(8, 0)))
				conds[k] = x.tc.And(append(append([]*Term(nil), zeros...), nz)...)
				zeros = append(zeros, x.tc.Eq(bytes[k], x.tc.Const(8, 0)))
			} else {
				conds[k] = x.tc.And(zeros...)
			}
		}
		lead := x.choose(st, conds, "big.Int.Bytes leading zeros")
		n := nb - lead
		arr := &ArrayV{e: make([]Value, n)}
		for k := 0; k < n; k++ {
			arr.e[k] = bytes[lead+k]
		}
		if n == 0 {
			return ret1(SliceV{base: st.alloc(arr), off: 0, len: 0, cap: 0})
		}
		p := st.alloc(arr)
		return ret1(SliceV{base: p, off: 0, len: n, cap: n})
	}

	// hashes: functional + injective (already on the first 5 output bytes = 40 bits) abstraction
	intrinsics[zz+"HashBytes"] = func(x *Exec, st *State, fr *Frame, fn *ssa.Function, a []Value) (Value, int) {
		kind := x.concInt(a[0], "HashBytes kind")
		in := a[1].(SliceV)
		n := int(x.concInt(a[2], "HashBytes size"))
		inb := make([]*Term, in.len)
		for k := range inb {
			inb[k] = x.load(st, x.sliceElemPtr(in, k)).(*Term)
		}
		cnt := 0
		if c, ok := st.ghost["$hashcount"]; ok {
			cnt = int(c.(*Term).val)
		}
		out := make([]*Term, n)
		for k := range out {
			out[k] = x.tc.Var(fmt.Sprintf("hash%d.%d[%d]", kind, cnt, k), BV(8))
		}
		// relate to earlier applications of the same hash on this path
		for j := 0; j < cnt; j++ {
			pk := st.ghost[fmt.Sprintf("$hash:%d:kind", j)].(*Term)
			if int64(pk.val) != kind {
				continue
			}
			pin := st.ghost[fmt.Sprintf("$hash:%d:in", j)].(TupleV)
			pout := st.ghost[fmt.Sprintf("$hash:%d:out", j)].(TupleV)
			sameIn := x.tc.False
			if len(pin) == len(inb) {
				var cs []*Term
				for k := range inb {
					cs = append(cs, x.tc.Eq(inb[k], pin[k].(*Term)))
				}
				sameIn = x.tc.And(cs...)
			}
			var allEq, prefEq []*Term
			for k := range out {
				e := x.tc.Eq(out[k], pout[k].(*Term))
				allEq = append(allEq, e)
				if k < 5 {
					prefEq = append(prefEq, e)
				}
			}
			x.assume(st, x.tc.Implies(sameIn, x.tc.And(allEq...)))          // function
			x.assume(st, x.tc.Implies(x.tc.And(prefEq...), sameIn))           // no collision (assumed)
		}
		tin := make(TupleV, len(inb))
		for k := range inb {
			tin[k] = inb[k]
		}
		tout := make(TupleV, n)
		for k := range out {
			tout[k] = out[k]
		}
		st.ghost[fmt.Sprintf("$hash:%d:kind", cnt)] = x.tc.Const(64, uint64(kind))
		st.ghost[fmt.Sprintf("$hash:%d:in", cnt)] = tin
		st.ghost[fmt.Sprintf("$hash:%d:out", cnt)] = tout
		st.ghost["$hashcount"] = x.tc.Const(64, uint64(cnt+1))
		arr := &ArrayV{e: make([]Value, n)}
		for k := range out {
			arr.e[k] = out[k]
		}
		p := st.alloc(arr)
		return ret1(SliceV{base: p, off: 0, len: n, cap: n})
	}
	// k8s.io/apimachinery/pkg/util/cache.LRUExpireCache: exact map; with
	// zz.CacheExpiry(true) a present entry may additionally be reported missing
	// (= its TTL elapsed) at any Get.
	const lru = "k8s.io/apimachinery/pkg/util/cache."
	lruObj := func(x *Exec, st *State, recv Value) *MapObj {
		k := "lru:" + recv.(PtrV).String()
		if m, ok := st.ghost[k]; ok {
			return st.heap[m.(MapV).obj].(*MapObj)
		}
		return &MapObj{}
	}
	lruMap := func(x *Exec, st *State, recv Value) MapV {
		k := "lru:" + recv.(PtrV).String()
		if m, ok := st.ghost[k]; ok {
			return m.(MapV)
		}
		p := st.alloc(&MapObj{})
		m := MapV{obj: p.obj}
		st.ghost[k] = m
		return m
	}
	newLRU := func(x *Exec, st *State, fr *Frame, fn *ssa.Function, a []Value) (Value, int) {
		return ret1(st.alloc(x.zero(typeOfPtrElem(fn.Signature.Results().At(0).Type()))))
	}
	intrinsics[lru+"NewLRUExpireCache"] = newLRU
	intrinsics[lru+"NewLRUExpireCacheWithClock"] = newLRU
	intrinsics["("+"*"+lru+"LRUExpireCache).Get"] = func(x *Exec, st *State, fr *Frame, fn *ssa.Function, a []Value) (Value, int) {
		mo := lruObj(x, st, a[0])
		idx := x.mapFind(st, mo, a[1])
		if idx < 0 {
			return ret1(TupleV{IfaceV{}, x.tc.False})
		}
		if _, ok := st.ghost["$cacheExpiry"]; ok {
			if x.chooseN(st, 2, "cache expiry") == 1 {
				st.trace = append(st.trace, "cache-entry-expired@"+x.pos(x.curInstr))
				m := lruMap(x, st, a[0])
				x.execBuiltin(st, fr, "delete", []Value{m, a[1]}, nil)
				return ret1(TupleV{IfaceV{}, x.tc.False})
			}
		}
		return ret1(TupleV{mo.entries[idx].val, x.tc.True})
	}
	intrinsics["("+"*"+lru+"LRUExpireCache).Add"] = func(x *Exec, st *State, fr *Frame, fn *ssa.Function, a []Value) (Value, int) {
		mo := lruObj(x, st, a[0])
		_ = x.mapFind(st, mo, a[1])
		x.mapSet(st, lruMap(x, st, a[0]), a[1], a[2])
		return nil, 1
	}
	intrinsics["("+"*"+lru+"LRUExpireCache).Remove"] = func(x *Exec, st *State, fr *Frame, fn *ssa.Function, a []Value) (Value, int) {
		mo := lruObj(x, st, a[0])
		_ = x.mapFind(st, mo, a[1])
		x.execBuiltin(st, fr, "delete", []Value{lruMap(x, st, a[0]), a[1]}, nil)
		return nil, 1
	}
	intrinsics["("+"*"+lru+"LRUExpireCache).Keys"] = func(x *Exec, st *State, fr *Frame, fn *ssa.Function, a []Value) (Value, int) {
		mo := lruObj(x, st, a[0])
		arr := &ArrayV{e: make([]Value, len(mo.entries))}
		for k, e := range mo.entries {
			arr.e[k] = e.key
		}
		if len(arr.e) == 0 {
			return ret1(SliceV{})
		}
		p := st.alloc(arr)
		return ret1(SliceV{base: p, len: len(arr.e), cap: len(arr.e)})
	}
	intrinsics["(*golang.org/x/time/rate.Limiter).Wait"] = func(x *Exec, st *State, fr *Frame, fn *ssa.Function, a []Value) (Value, int) {
		return ret1(IfaceV{})
	}
	redirects["(*sync.Cond).Wait"] = "M_cond_Wait"
	intrinsics[zz+"CacheExpiry"] = func(x *Exec, st *State, fr *Frame, fn *ssa.Function, a []Value) (Value, int) {
		if a[0].(*Term).IsTrue() {
			st.ghost["$cacheExpiry"] = x.tc.True
		} else {
			delete(st.ghost, "$cacheExpiry")
		}
		st.mutGen++
		return nil, 1
	}
	redirects["(*golang.org/x/sync/singleflight.Group).Do"] = "M_singleflight_Do"
	redirects["crypto/sha1.New"] = "M_sha1_New"
	redirects["crypto/md5.New"] = "M_md5_New"
	redirects["crypto/md5.Sum"] = "M_md5_Sum"
	redirects["crypto/sha1.Sum"] = "M_sha1_Sum"
}
