package main

func registerMoreIntrinsics() {
}
