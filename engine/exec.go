package main

import (
	"fmt"
	"go/constant"
	"go/token"
	"go/types"
	"math"
	"sort"
	"strings"
	"time"

	"golang.org/x/tools/go/ssa"
)

// control-flow signals raised with panic() inside instruction handlers
type goPanic struct{ msg string }
type goPanicVal struct{ val Value }
type forkRequest struct {
	alts  []int
	conds []*Term
	tag   string
}
type pathEnd struct{ reason string } // silently end path (assume false, blocked)
type needGlobalInit struct{ g *ssa.Global }
type unsupportedErr struct{ msg string }

func (x *Exec) unsupported(msg string) unsupportedErr {
	return unsupportedErr{msg: msg}
}

type Violation struct {
	Harness string
	Msg     string
	Pos     string
	Model   map[string]uint64
	Nondet  []NondetRec
	Trace   []string
	Kind    string // assert | panic
	Stack   []string
}

var repoRoot = "/repo"

type Config struct {
	MaxPaths     int
	MaxSteps     int
	LoopBound    int
	Deadline     time.Time
	Tier         int
	Verbose      bool
	PanicIsViolation bool
}

type Exec struct {
	prog   *ssa.Program
	tc     *TermCtx
	sol    *Solver
	cfg    Config
	fninfo map[*ssa.Function]*FnInfo
	harness string

	work []*State

	// results
	Paths        int
	PathsDone    int
	Violations   []Violation
	Inconclusive []string
	Obligations  int
	Discharged   int
	Trivial      int
	AssertSites  map[string]int // pos -> feasible hits
	ReachTags    map[string]int
	FnsEncoded   map[string]bool
	StubsHit     map[string]int
	MaxLoop      int
	NontrivPaths map[string]bool
	Samples      []string
	stateSeq     int
	writeHook    func(st *State, p PtrV)
	unsupportedSeen map[string]int
	staticID     int
	Steps        int
	curInstr     ssa.Instruction
	modelPkg     *ssa.Package
	zzPath       string
	shard        int
	redirArgs    []Value
	violSite     map[string]int
	built        map[*ssa.Function]bool
	nshards      int
}

func NewExec(prog *ssa.Program, cfg Config, solverBin []string, timeoutMs int) (*Exec, error) {
	x := &Exec{prog: prog, tc: NewTermCtx(), cfg: cfg, fninfo: map[*ssa.Function]*FnInfo{},
		AssertSites: map[string]int{}, ReachTags: map[string]int{}, FnsEncoded: map[string]bool{},
		violSite: map[string]int{}, built: map[*ssa.Function]bool{}, StubsHit: map[string]int{}, NontrivPaths: map[string]bool{}, unsupportedSeen: map[string]int{}}
	s, err := NewSolver(x.tc, solverBin, timeoutMs)
	if err != nil {
		return nil, err
	}
	x.sol = s
	return x, nil
}

func (x *Exec) pos(in ssa.Instruction) string {
	if in == nil {
		return "?"
	}
	p := x.prog.Fset.Position(in.Pos())
	if !p.IsValid() {
		if in.Parent() != nil {
			return in.Parent().String()
		}
		return "?"
	}
	f := p.Filename
	f = strings.TrimPrefix(f, repoRoot+"/")
	return fmt.Sprintf("%s:%d", f, p.Line)
}

func (x *Exec) stack(st *State) []string {
	var out []string
	for i := len(st.frames) - 1; i >= 0 && len(out) < 12; i-- {
		fr := st.frames[i]
		where := ""
		if fr.block != nil && fr.pc < len(fr.block.Instrs) {
			where = x.pos(fr.block.Instrs[fr.pc])
		}
		out = append(out, fr.fn.String()+" @ "+where)
	}
	return out
}

// RunHarness explores all paths of fn.
func (x *Exec) RunHarness(fn *ssa.Function) {
	x.harness = fn.Name()
	st := &State{heap: map[int]Value{}, nameCnt: map[string]int{}, locks: map[string]int{}, ghost: map[string]Value{}, globalsInit: map[*ssa.Global]bool{}}
	st.frames = []*Frame{x.newFrame(fn, nil, nil)}
	x.work = []*State{st}
	for len(x.work) > 0 {
		if x.cfg.MaxPaths > 0 && x.Paths >= x.cfg.MaxPaths {
			x.inconclusive(fmt.Sprintf("path budget %d exhausted (%d pending)", x.cfg.MaxPaths, len(x.work)))
			break
		}
		if !x.cfg.Deadline.IsZero() && time.Now().After(x.cfg.Deadline) {
			x.inconclusive(fmt.Sprintf("time budget exhausted (%d pending states)", len(x.work)))
			break
		}
		s := x.work[len(x.work)-1]
		x.work = x.work[:len(x.work)-1]
		x.runPath(s)
	}
	x.sol.Close()
}

func (x *Exec) inconclusive(msg string) {
	for _, m := range x.Inconclusive {
		if m == msg {
			return
		}
	}
	if len(x.Inconclusive) < 50 {
		x.Inconclusive = append(x.Inconclusive, msg)
	}
}

// runPath runs one state until its path ends (forks are pushed on x.work).
func (x *Exec) runPath(st *State) {
	x.Paths++
	for {
		done := x.stepGuard(st)
		if done {
			x.flushAsserts(st)
			x.PathsDone++
			return
		}
	}
}

func (x *Exec) stepGuard(st *State) (done bool) {
	genAtStart := st.mutGen
	defer func() {
		r := recover()
		if r == nil {
			return
		}
		switch e := r.(type) {
		case goPanic:
			x.raisePanic(st, IfaceV{typ: types.Typ[types.String], val: x.strConst(e.msg)}, e.msg)
			done = false
		case goPanicVal:
			x.raisePanic(st, e.val, x.show(e.val, 0))
			done = false
		case forkRequest:
			if st.mutGen != genAtStart {
				x.inconclusive("engine: fork after mutation at " + x.pos(x.curInstr) + " tag " + e.tag)
				done = true
				return
			}
			prefix := append([]int(nil), st.pending...)
			for k := len(e.alts) - 1; k >= 0; k-- {
				c := st.clone()
				c.pending = append(append([]int(nil), prefix...), e.alts[k])
				c.decided = 0
				x.work = append(x.work, c)
			}
			x.Paths-- // the forked children replace this path
			x.PathsDone--
			done = true
		case pathEnd:
			done = true
		case needGlobalInit:
			if st.mutGen != genAtStart {
				x.inconclusive("engine: global init after mutation at " + x.pos(x.curInstr))
				done = true
				return
			}
			x.ensureGlobal(st, nil, e.g)
			done = false
		case unsupportedErr:
			// inside a package-variable initialiser an unsupported library call
			// (reflection, regexp compilation, ...) yields an opaque zero value
			// instead of ending the path: the variable is still usable as an
			// object, only that part of its content is unknown
			if x.skipInitCall(st, e.msg) {
				done = false
				return
			}
			key := e.msg
			x.unsupportedSeen[key]++
			x.inconclusive("unsupported: " + e.msg + " at " + x.pos(x.curInstr) + " in " + strings.Join(x.stack(st), " <- "))
			done = true
		default:
			panic(r)
		}
	}()
	return x.step(st)
}

func (x *Exec) skipInitCall(st *State, why string) bool {
	k := -1
	for i := len(st.frames) - 1; i >= 0; i-- {
		if st.frames[i].script != nil {
			k = i
			break
		}
	}
	if k < 0 || k == len(st.frames)-1 {
		return false
	}
	fr := st.frames[k]
	if fr.pc >= len(fr.script) {
		return false
	}
	call, ok := fr.script[fr.pc].(*ssa.Call)
	if !ok {
		return false
	}
	st.frames = st.frames[:k+1]
	x.set(st, fr, call, x.zeroOf(call.Call.Signature().Results()))
	fr.pc++
	st.pending = nil
	st.decided = 0
	x.StubsHit["opaque-init:"+call.Call.Value.String()+" ("+why+")"]++
	return true
}

func (x *Exec) raisePanic(st *State, val Value, msg string) {
	st.panic = &PanicInfo{val: val, msg: msg, pos: x.pos(x.curInstr) + " [" + strings.Join(x.stack(st), " <- ") + "]"}
	st.pending = nil
	st.decided = 0
}

// step executes one instruction (or one unwinding step). Returns true when the path ended.
func (x *Exec) step(st *State) bool {
	if len(st.frames) == 0 {
		x.endPath(st)
		return true
	}
	if st.panic != nil {
		return x.unwind(st)
	}
	fr := st.top()
	st.steps++
	x.Steps++
	if x.cfg.MaxSteps > 0 && st.steps > x.cfg.MaxSteps {
		x.inconclusive(fmt.Sprintf("step budget %d exhausted on a path", x.cfg.MaxSteps))
		return true
	}
	var in ssa.Instruction
	if fr.script != nil {
		if fr.pc >= len(fr.script) {
			st.frames = st.frames[:len(st.frames)-1]
			if fr.onReturn != nil {
				fr.onReturn(st, nil)
			}
			return false
		}
		in = fr.script[fr.pc]
	} else {
		in = fr.block.Instrs[fr.pc]
	}
	x.curInstr = in
	x.execInstr(st, fr, in)
	// pending decisions are consumed by exactly one instruction
	st.pending = nil
	st.decided = 0
	return false
}

func (x *Exec) endPath(st *State) {
	// normal termination of harness
	if st.panic != nil {
		return
	}
}

// ---------- decisions ----------

// choose picks one of the alternatives whose conditions are given; the
// chosen condition is added to the path condition.  Must be called before the
// handler mutates the state.
func (x *Exec) choose(st *State, conds []*Term, tag string) int {
	x.flushAsserts(st)
	if st.decided < len(st.pending) {
		i := st.pending[st.decided]
		st.decided++
		x.assume(st, conds[i])
		return i
	}
	var feas []int
	if len(conds) == 2 && conds[1] == x.tc.Not(conds[0]) && !conds[0].cst {
		// complementary pair: if one side is infeasible the other is feasible
		// because the path condition itself is satisfiable
		r := x.sol.Check(st.pc, conds[0])
		if r == Unsat {
			x.assume(st, conds[1])
			st.pending = append(st.pending, 1)
			st.decided = len(st.pending)
			return 1
		}
		if r == Unknown {
			st.unknownBranch = true
		}
		r2 := x.sol.Check(st.pc, conds[1])
		if r2 == Unsat {
			x.assume(st, conds[0])
			st.pending = append(st.pending, 0)
			st.decided = len(st.pending)
			return 0
		}
		if r2 == Unknown {
			st.unknownBranch = true
		}
		panic(forkRequest{alts: []int{0, 1}, conds: conds, tag: tag})
	}
	for i, c := range conds {
		if c.IsFalse() {
			continue
		}
		if c.IsTrue() {
			feas = append(feas, i)
			continue
		}
		r := x.sol.Check(st.pc, c)
		if r == Unknown {
			st.unknownBranch = true
		}
		if r != Unsat {
			feas = append(feas, i)
		}
	}
	if len(feas) == 0 {
		panic(pathEnd{"no feasible alternative: " + tag})
	}
	if len(feas) == 1 {
		x.assume(st, conds[feas[0]])
		// record as decided so that re-execution is not needed
		st.pending = append(st.pending, feas[0])
		st.decided = len(st.pending)
		return feas[0]
	}
	panic(forkRequest{alts: feas, conds: conds, tag: tag})
}

// chooseN is a free n-way nondeterministic choice.
func (x *Exec) chooseN(st *State, n int, tag string) int {
	conds := make([]*Term, n)
	for i := range conds {
		conds[i] = x.tc.True
	}
	return x.choose(st, conds, tag)
}

func (x *Exec) assume(st *State, c *Term) {
	if c.IsTrue() {
		return
	}
	x.flushAsserts(st)
	st.pc = append(st.pc, c)
}

func (x *Exec) feasible(st *State, c *Term) bool {
	if c.IsTrue() {
		return true
	}
	if c.IsFalse() {
		return false
	}
	r := x.sol.Check(st.pc, c)
	if r == Unknown {
		st.unknownBranch = true
	}
	return r != Unsat
}

// branch decides a boolean condition, forking when both sides are feasible.
func (x *Exec) branch(st *State, c *Term, tag string) bool {
	if c.IsTrue() {
		return true
	}
	if c.IsFalse() {
		return false
	}
	i := x.choose(st, []*Term{c, x.tc.Not(c)}, tag)
	return i == 0
}

// concretize returns a concrete value of an integer term, forking over the
// feasible values (bounded).
func (x *Exec) concretize(st *State, t *Term, lo, hi int64, tag string) int64 {
	if t.cst {
		return sext(t.val, t.sort.W)
	}
	if hi-lo > 64 {
		panic(x.unsupported(fmt.Sprintf("concretize %s over range [%d,%d]", tag, lo, hi)))
	}
	var conds []*Term
	for v := lo; v <= hi; v++ {
		conds = append(conds, x.tc.Eq(t, x.tc.Const(t.sort.W, uint64(v))))
	}
	// out of range alternative
	conds = append(conds, x.tc.Not(x.tc.Or(conds...)))
	i := x.choose(st, conds, tag)
	if i == len(conds)-1 {
		return hi + 1 // caller treats as out of range
	}
	return lo + int64(i)
}

// ---------- value access ----------

func (x *Exec) get(st *State, fr *Frame, v ssa.Value) Value {
	switch u := v.(type) {
	case *ssa.Const:
		return x.constValue(u)
	case *ssa.Global:
		if !st.globalsInit[u] {
			panic(needGlobalInit{u})
		}
		return x.globalPtr(st, u)
	case *ssa.Function:
		return &FuncV{fn: u}
	case *ssa.Builtin:
		return &FuncV{builtin: u.Name()}
	}
	i, ok := fr.info.index[v]
	if !ok {
		panic(x.unsupported(fmt.Sprintf("unknown value %s (%T) in %s", v.Name(), v, fr.fn)))
	}
	r := fr.locals[i]
	if r == nil {
		panic(x.unsupported(fmt.Sprintf("use of unset value %s in %s", v.Name(), fr.fn)))
	}
	return r
}

func (x *Exec) set(st *State, fr *Frame, v ssa.Value, val Value) {
	fr.locals[fr.info.index[v]] = val
	st.mutGen++
}

func (x *Exec) constValue(c *ssa.Const) Value {
	t := c.Type()
	if c.Value == nil {
		return x.zero(t)
	}
	switch u := t.Underlying().(type) {
	case *types.Basic:
		switch {
		case u.Info()&types.IsBoolean != 0:
			return x.tc.Bool(constant.BoolVal(c.Value))
		case u.Info()&types.IsString != 0:
			return x.strConst(constant.StringVal(c.Value))
		case u.Info()&types.IsInteger != 0:
			w := x.width(u)
			if i, ok := constant.Int64Val(constant.ToInt(c.Value)); ok {
				return x.tc.Const(w, uint64(i))
			}
			if i, ok := constant.Uint64Val(constant.ToInt(c.Value)); ok {
				return x.tc.Const(w, i)
			}
		case u.Info()&types.IsFloat != 0:
			f, _ := constant.Float64Val(c.Value)
			if u.Kind() == types.Float32 {
				f = float64(float32(f))
			}
			return x.tc.ConstF(f)
		}
	case *types.Interface:
		// only nil
		return IfaceV{}
	}
	panic(x.unsupported("constant " + c.String()))
}

// ---------- panic unwinding ----------

func (x *Exec) unwind(st *State) bool {
	for {
		if len(st.frames) == 0 {
			// uncaught panic
			x.reportPanic(st)
			return true
		}
		fr := st.top()
		if len(fr.defers) > 0 {
			d := fr.defers[len(fr.defers)-1]
			fr.defers = fr.defers[:len(fr.defers)-1]
			saved := st.panic
			st.panic = nil // the deferred function runs normally; re-raised when it returns unless recovered
			pushed := x.callValue(st, fr, d.fn, d.args, nil, true)
			if pushed {
				top := st.top()
				top.isDefer = true
				top.savedPanic = saved
				return false
			}
			if st.panic == nil {
				st.panic = saved
			}
			continue
		}
		st.frames = st.frames[:len(st.frames)-1]
	}
}

func (x *Exec) zeroResults(fn *ssa.Function) Value {
	res := fn.Signature.Results()
	switch res.Len() {
	case 0:
		return nil
	case 1:
		return x.zero(res.At(0).Type())
	}
	tv := make(TupleV, res.Len())
	for i := range tv {
		tv[i] = x.zero(res.At(i).Type())
	}
	return tv
}

func (x *Exec) reportPanic(st *State) {
	if st.allowPanic || !x.cfg.PanicIsViolation {
		return
	}
	x.Obligations++
	site := "panic: " + st.panic.msg + " @ " + st.panic.pos
	x.violSite[site]++
	if x.violSite[site] > 3 {
		return
	}
	// the path is feasible by construction; get a model
	m, ok := x.sol.Model(st.pc)
	if !ok {
		x.inconclusive("panic on a path whose model could not be produced: " + st.panic.msg + " at " + st.panic.pos)
		return
	}
	x.Violations = append(x.Violations, Violation{Harness: x.harness, Msg: "panic: " + st.panic.msg, Pos: st.panic.pos,
		Model: m, Nondet: st.nondet, Trace: st.trace, Kind: "panic"})
}

// ---------- instruction execution ----------

func (x *Exec) execInstr(st *State, fr *Frame, in ssa.Instruction) {
	switch i := in.(type) {
	case *ssa.DebugRef:
		fr.pc++
	case *ssa.Alloc:
		p := st.alloc(x.zero(typeOfPtrElem(i.Type())))
		x.set(st, fr, i, p)
		fr.pc++
	case *ssa.Store:
		addr := x.get(st, fr, i.Addr).(PtrV)
		val := x.get(st, fr, i.Val)
		x.store(st, addr, val)
		fr.pc++
	case *ssa.UnOp:
		x.execUnOp(st, fr, i)
	case *ssa.BinOp:
		a := x.get(st, fr, i.X)
		b := x.get(st, fr, i.Y)
		r := x.binop(st, i.Op, a, b, i.X.Type(), i.Y.Type())
		x.set(st, fr, i, r)
		fr.pc++
	case *ssa.FieldAddr:
		p := x.get(st, fr, i.X).(PtrV)
		if p.isNil() {
			panic(goPanic{"runtime error: invalid memory address or nil pointer dereference"})
		}
		x.set(st, fr, i, p.child(i.Field))
		fr.pc++
	case *ssa.Field:
		s := x.get(st, fr, i.X).(*StructV)
		x.set(st, fr, i, s.f[i.Field])
		fr.pc++
	case *ssa.IndexAddr:
		x.execIndexAddr(st, fr, i)
	case *ssa.Index:
		x.execIndex(st, fr, i)
	case *ssa.Lookup:
		x.execLookup(st, fr, i)
	case *ssa.Slice:
		x.execSlice(st, fr, i)
	case *ssa.MakeSlice:
		n := x.get(st, fr, i.Len).(*Term)
		c := x.get(st, fr, i.Cap).(*Term)
		ln := x.concretize(st, n, 0, 64, "make len")
		cp := ln
		if c.cst {
			cp = sext(c.val, 64)
		} else {
			cp = x.concretize(st, c, ln, ln+64, "make cap")
		}
		if ln < 0 || cp < ln || ln > 1<<20 {
			panic(goPanic{"runtime error: makeslice: len out of range"})
		}
		et := i.Type().Underlying().(*types.Slice).Elem()
		arr := &ArrayV{e: make([]Value, cp)}
		if cp > 0 {
			z := x.zero(et)
			for k := range arr.e {
				arr.e[k] = z
			}
		}
		p := st.alloc(arr)
		x.set(st, fr, i, SliceV{base: p, off: 0, len: int(ln), cap: int(cp)})
		fr.pc++
	case *ssa.MakeMap:
		p := st.alloc(&MapObj{})
		x.set(st, fr, i, MapV{obj: p.obj})
		fr.pc++
	case *ssa.MakeChan:
		sz := x.get(st, fr, i.Size).(*Term)
		n := x.concretize(st, sz, 0, 16, "chan size")
		p := st.alloc(&ChanObj{cap: int(n)})
		x.set(st, fr, i, ChanV{obj: p.obj})
		fr.pc++
	case *ssa.MakeClosure:
		fn := i.Fn.(*ssa.Function)
		b := make([]Value, len(i.Bindings))
		for k, v := range i.Bindings {
			b[k] = x.get(st, fr, v)
		}
		x.set(st, fr, i, &FuncV{fn: fn, bindings: b})
		fr.pc++
	case *ssa.MakeInterface:
		v := x.get(st, fr, i.X)
		x.set(st, fr, i, IfaceV{typ: i.X.Type(), val: v})
		fr.pc++
	case *ssa.ChangeInterface:
		x.set(st, fr, i, x.get(st, fr, i.X))
		fr.pc++
	case *ssa.ChangeType:
		x.set(st, fr, i, x.get(st, fr, i.X))
		fr.pc++
	case *ssa.Convert:
		x.set(st, fr, i, x.convert(st, x.get(st, fr, i.X), i.X.Type(), i.Type()))
		fr.pc++
	case *ssa.MultiConvert:
		x.set(st, fr, i, x.convert(st, x.get(st, fr, i.X), i.X.Type(), i.Type()))
		fr.pc++
	case *ssa.SliceToArrayPointer:
		s := x.get(st, fr, i.X).(SliceV)
		n := int(i.Type().Underlying().(*types.Pointer).Elem().Underlying().(*types.Array).Len())
		if s.len < n {
			panic(goPanic{"runtime error: cannot convert slice to array pointer"})
		}
		if s.off != 0 || n != len(x.load(st, s.base).(*ArrayV).e) {
			// a pointer into the middle of an array cannot be expressed; when the
			// result is only dereferenced (array conversion) a copy is equivalent
			onlyLoads := true
			if refs := i.Referrers(); refs != nil {
				for _, r := range *refs {
					if u, ok := r.(*ssa.UnOp); !ok || u.Op != token.MUL {
						onlyLoads = false
					}
				}
			}
			if !onlyLoads {
				panic(x.unsupported("SliceToArrayPointer with offset whose result escapes"))
			}
			arr := &ArrayV{e: make([]Value, n)}
			for k := 0; k < n; k++ {
				arr.e[k] = x.load(st, x.sliceElemPtr(s, k))
			}
			x.set(st, fr, i, st.alloc(arr))
		} else {
			x.set(st, fr, i, s.base)
		}
		fr.pc++
	case *ssa.TypeAssert:
		x.execTypeAssert(st, fr, i)
	case *ssa.Extract:
		t := x.get(st, fr, i.Tuple).(TupleV)
		x.set(st, fr, i, t[i.Index])
		fr.pc++
	case *ssa.Phi:
		// evaluate all phis of the block simultaneously
		blk := fr.block
		idx := -1
		for k, p := range blk.Preds {
			if p == fr.prev {
				idx = k
				break
			}
		}
		if idx < 0 {
			panic(x.unsupported("phi without predecessor"))
		}
		var vals []Value
		var phis []*ssa.Phi
		for _, in2 := range blk.Instrs[fr.pc:] {
			p, ok := in2.(*ssa.Phi)
			if !ok {
				break
			}
			phis = append(phis, p)
			vals = append(vals, x.get(st, fr, p.Edges[idx]))
		}
		for k, p := range phis {
			x.set(st, fr, p, vals[k])
		}
		fr.pc += len(phis)
	case *ssa.Jump:
		x.jump(st, fr, fr.block.Succs[0])
	case *ssa.If:
		c := x.get(st, fr, i.Cond).(*Term)
		if x.branch(st, c, "if") {
			x.jump(st, fr, fr.block.Succs[0])
		} else {
			x.jump(st, fr, fr.block.Succs[1])
		}
	case *ssa.Return:
		var ret Value
		switch len(i.Results) {
		case 0:
		case 1:
			ret = x.get(st, fr, i.Results[0])
		default:
			tv := make(TupleV, len(i.Results))
			for k, r := range i.Results {
				tv[k] = x.get(st, fr, r)
			}
			ret = tv
		}
		x.doReturn(st, fr, ret)
	case *ssa.RunDefers:
		if len(fr.defers) > 0 {
			d := fr.defers[len(fr.defers)-1]
			fr.defers = fr.defers[:len(fr.defers)-1]
			st.mutGen++
			x.callValue(st, fr, d.fn, d.args, nil, true)
			return // re-execute RunDefers until no defers are left
		}
		fr.pc++
	case *ssa.Panic:
		v := x.get(st, fr, i.X)
		panic(goPanicVal{val: v})
	case *ssa.Call:
		x.execCall(st, fr, i, &i.Call, i)
	case *ssa.Defer:
		fn, args := x.resolveCall(st, fr, &i.Call)
		fr.defers = append(fr.defers, Deferred{fn: fn, args: args})
		st.mutGen++
		fr.pc++
	case *ssa.Go:
		fn, args := x.resolveCall(st, fr, &i.Call)
		st.spawned = append(st.spawned, Spawn{fn: fn.(*FuncV), args: args})
		st.mutGen++
		fr.pc++
	case *ssa.MapUpdate:
		x.execMapUpdate(st, fr, i)
	case *ssa.Range:
		x.execRange(st, fr, i)
	case *ssa.Next:
		x.execNext(st, fr, i)
	case *ssa.Send:
		x.execSend(st, fr, i)
	case *ssa.Select:
		x.execSelect(st, fr, i)
	default:
		panic(x.unsupported(fmt.Sprintf("instruction %T", in)))
	}
}

func (x *Exec) jump(st *State, fr *Frame, to *ssa.BasicBlock) {
	fr.prev = fr.block
	fr.block = to
	fr.pc = 0
	st.mutGen++
	fr.visits[to.Index]++
	if v := fr.visits[to.Index]; v > x.MaxLoop {
		x.MaxLoop = v
	}
	if x.cfg.LoopBound > 0 && fr.visits[to.Index] > x.cfg.LoopBound {
		x.inconclusive(fmt.Sprintf("unwinding bound %d exceeded in %s block %d", x.cfg.LoopBound, fr.fn, to.Index))
		panic(pathEnd{"unwind"})
	}
}

func (x *Exec) doReturn(st *State, fr *Frame, ret Value) {
	st.frames = st.frames[:len(st.frames)-1]
	st.mutGen++
	if fr.isDefer && (fr.savedPanic != nil || fr.recovered) {
		if fr.recovered {
			if len(st.frames) == 0 {
				return
			}
			f := st.top()
			if f.fn.Recover != nil {
				f.prev = f.block
				f.block = f.fn.Recover
				f.pc = 0
			} else {
				x.doReturn(st, f, x.zeroResults(f.fn))
			}
			return
		}
		st.panic = fr.savedPanic
		return
	}
	if fr.onReturn != nil {
		fr.onReturn(st, ret)
	}
	if len(st.frames) == 0 {
		return
	}
	caller := st.top()
	if fr.discard {
		return
	}
	if fr.dest != nil {
		x.set(st, caller, fr.dest, ret)
	}
	caller.pc++
}

func (x *Exec) execUnOp(st *State, fr *Frame, i *ssa.UnOp) {
	switch i.Op {
	case token.MUL: // load
		p := x.get(st, fr, i.X).(PtrV)
		x.set(st, fr, i, x.load(st, p))
	case token.NOT:
		x.set(st, fr, i, x.tc.Not(x.get(st, fr, i.X).(*Term)))
	case token.SUB:
		a := x.get(st, fr, i.X).(*Term)
		if a.sort.K == SFP {
			x.set(st, fr, i, x.tc.App("fp.neg", FPSort, a))
		} else {
			x.set(st, fr, i, x.tc.BVNeg(a))
		}
	case token.XOR:
		x.set(st, fr, i, x.tc.BVNot(x.get(st, fr, i.X).(*Term)))
	case token.ARROW:
		x.execRecv(st, fr, i)
		return
	default:
		panic(x.unsupported("unop " + i.Op.String()))
	}
	fr.pc++
}

func (x *Exec) sliceElemPtr(s SliceV, k int) PtrV {
	return s.base.child(s.off + k)
}

func (x *Exec) execIndexAddr(st *State, fr *Frame, i *ssa.IndexAddr) {
	base := x.get(st, fr, i.X)
	idx := x.get(st, fr, i.Index).(*Term)
	idx = x.toInt64(idx, i.Index.Type())
	switch b := base.(type) {
	case SliceV:
		k := x.indexIn(st, idx, b.len)
		x.set(st, fr, i, x.sliceElemPtr(b, k))
	case PtrV: // pointer to array
		if b.isNil() {
			panic(goPanic{"runtime error: invalid memory address or nil pointer dereference"})
		}
		n := int(typeOfPtrElem(i.X.Type()).Underlying().(*types.Array).Len())
		k := x.indexIn(st, idx, n)
		x.set(st, fr, i, b.child(k))
	default:
		panic(x.unsupported(fmt.Sprintf("IndexAddr on %T", base)))
	}
	fr.pc++
}

func (x *Exec) toInt64(t *Term, typ types.Type) *Term {
	if t.sort.W == 64 {
		return t
	}
	if isSigned(typ) {
		return x.tc.SExt(t, 64)
	}
	return x.tc.ZExt(t, 64)
}

// indexIn returns a concrete index in [0,n) or raises a bounds panic.
func (x *Exec) indexIn(st *State, idx *Term, n int) int {
	if idx.cst {
		k := sext(idx.val, 64)
		if k < 0 || k >= int64(n) {
			panic(goPanic{fmt.Sprintf("runtime error: index out of range [%d] with length %d", k, n)})
		}
		return int(k)
	}
	k := x.concretize(st, idx, 0, int64(n)-1, "index")
	if k >= int64(n) || k < 0 {
		panic(goPanic{fmt.Sprintf("runtime error: index out of range [sym] with length %d", n)})
	}
	return int(k)
}

func (x *Exec) execIndex(st *State, fr *Frame, i *ssa.Index) {
	base := x.get(st, fr, i.X)
	idx := x.toInt64(x.get(st, fr, i.Index).(*Term), i.Index.Type())
	switch b := base.(type) {
	case *ArrayV:
		k := x.indexIn(st, idx, len(b.e))
		x.set(st, fr, i, b.e[k])
	case *StrV:
		x.set(st, fr, i, x.strIndex(st, b, idx))
	default:
		panic(x.unsupported(fmt.Sprintf("Index on %T", base)))
	}
	fr.pc++
}

// strIndex returns s[idx] with a bounds obligation.
func (x *Exec) strIndex(st *State, s *StrV, idx *Term) *Term {
	ln := x.strLen(s)
	oob := x.tc.Not(x.tc.Cmp("bvult", idx, ln))
	if x.branch(st, oob, "string index bounds") {
		panic(goPanic{"runtime error: index out of range (string)"})
	}
	// build value
	var res *Term
	for ai := len(s.alts) - 1; ai >= 0; ai-- {
		a := s.alts[ai]
		var v *Term
		if len(a.b) == 0 {
			continue
		}
		if idx.cst {
			k := int(idx.val)
			if k < len(a.b) {
				v = a.b[k]
			} else {
				continue
			}
		} else {
			v = a.b[len(a.b)-1]
			for k := len(a.b) - 2; k >= 0; k-- {
				v = x.tc.Ite(x.tc.Eq(idx, x.tc.Const(64, uint64(k))), a.b[k], v)
			}
		}
		if res == nil {
			res = v
		} else {
			res = x.tc.Ite(a.g, v, res)
		}
	}
	if res == nil {
		panic(goPanic{"runtime error: index out of range (empty string)"})
	}
	return res
}

func (x *Exec) execSlice(st *State, fr *Frame, i *ssa.Slice) {
	base := x.get(st, fr, i.X)
	getb := func(v ssa.Value, def int64, hiBound int64) int64 {
		if v == nil {
			return def
		}
		t := x.toInt64(x.get(st, fr, v).(*Term), v.Type())
		k := x.concretize(st, t, 0, hiBound, "slice bound")
		if k > hiBound {
			return -1
		}
		return k
	}
	switch b := base.(type) {
	case *StrV:
		// need concrete length: split by alternative lengths
		b = x.strSplitLen(st, b)
		n := int64(len(b.alts[0].b))
		lo := getb(i.Low, 0, n)
		hi := getb(i.High, n, n)
		if lo < 0 || hi < 0 || lo > hi || hi > n {
			panic(goPanic{fmt.Sprintf("runtime error: slice bounds out of range [%d:%d] with length %d", lo, hi, n)})
		}
		var alts []StrAlt
		for _, a := range b.alts {
			alts = append(alts, StrAlt{g: a.g, b: a.b[lo:hi]})
		}
		x.set(st, fr, i, x.strNormalize(alts))
	case SliceV:
		lo := getb(i.Low, 0, int64(b.cap))
		hi := getb(i.High, int64(b.len), int64(b.cap))
		mx := getb(i.Max, int64(b.cap), int64(b.cap))
		if lo < 0 || hi < 0 || mx < 0 || lo > hi || hi > mx || mx > int64(b.cap) {
			panic(goPanic{fmt.Sprintf("runtime error: slice bounds out of range [%d:%d:%d] with capacity %d", lo, hi, mx, b.cap)})
		}
		if b.base.isNil() {
			x.set(st, fr, i, SliceV{})
		} else {
			x.set(st, fr, i, SliceV{base: b.base, off: b.off + int(lo), len: int(hi - lo), cap: int(mx - lo)})
		}
	case PtrV: // *array
		if b.isNil() {
			panic(goPanic{"runtime error: invalid memory address or nil pointer dereference"})
		}
		n := typeOfPtrElem(i.X.Type()).Underlying().(*types.Array).Len()
		lo := getb(i.Low, 0, n)
		hi := getb(i.High, n, n)
		mx := getb(i.Max, n, n)
		if lo < 0 || hi < 0 || mx < 0 || lo > hi || hi > mx || mx > n {
			panic(goPanic{"runtime error: slice bounds out of range (array)"})
		}
		x.set(st, fr, i, SliceV{base: b, off: int(lo), len: int(hi - lo), cap: int(mx - lo)})
	default:
		panic(x.unsupported(fmt.Sprintf("Slice on %T", base)))
	}
	fr.pc++
}

// strSplitLen forks so that all remaining alternatives have the same length.
func (x *Exec) strSplitLen(st *State, s *StrV) *StrV {
	lens := map[int][]StrAlt{}
	var order []int
	for _, a := range s.alts {
		if _, ok := lens[len(a.b)]; !ok {
			order = append(order, len(a.b))
		}
		lens[len(a.b)] = append(lens[len(a.b)], a)
	}
	if len(order) == 1 {
		return s
	}
	sort.Ints(order)
	conds := make([]*Term, len(order))
	for k, l := range order {
		var gs []*Term
		for _, a := range lens[l] {
			gs = append(gs, a.g)
		}
		conds[k] = x.tc.Or(gs...)
	}
	k := x.choose(st, conds, "string length")
	return x.strNormalize(lens[order[k]])
}

// strSplitAlt forks so that exactly one alternative remains.
func (x *Exec) strSplitAlt(st *State, s *StrV) StrAlt {
	if len(s.alts) == 1 {
		return s.alts[0]
	}
	conds := make([]*Term, len(s.alts))
	for k, a := range s.alts {
		conds[k] = a.g
	}
	k := x.choose(st, conds, "string alternative")
	return s.alts[k]
}

func (x *Exec) execTypeAssert(st *State, fr *Frame, i *ssa.TypeAssert) {
	v := x.get(st, fr, i.X).(IfaceV)
	ok := false
	var res Value
	if v.typ != nil {
		if types.IsInterface(i.AssertedType) {
			it := i.AssertedType.Underlying().(*types.Interface)
			if types.Implements(v.typ, it) {
				ok = true
				res = v
			}
		} else if types.Identical(v.typ, i.AssertedType) {
			ok = true
			res = v.val
		}
	}
	if i.CommaOk {
		if !ok {
			res = x.zero(i.AssertedType)
		}
		x.set(st, fr, i, TupleV{res, x.tc.Bool(ok)})
	} else {
		if !ok {
			from := "nil"
			if v.typ != nil {
				from = v.typ.String()
			}
			panic(goPanic{fmt.Sprintf("interface conversion: interface is %s, not %s", from, i.AssertedType)})
		}
		x.set(st, fr, i, res)
	}
	fr.pc++
}

// ---------- binary operations ----------

func (x *Exec) binop(st *State, op token.Token, a, b Value, ta, tb types.Type) Value {
	switch op {
	case token.EQL:
		return x.valEq(a, b)
	case token.NEQ:
		return x.tc.Not(x.valEq(a, b))
	}
	switch av := a.(type) {
	case *StrV:
		bv := b.(*StrV)
		switch op {
		case token.ADD:
			return x.strConcat(av, bv)
		case token.LSS:
			return x.strLess(av, bv)
		case token.GTR:
			return x.strLess(bv, av)
		case token.LEQ:
			return x.tc.Not(x.strLess(bv, av))
		case token.GEQ:
			return x.tc.Not(x.strLess(av, bv))
		}
	case *Term:
		bv := b.(*Term)
		if av.sort.K == SFP {
			return x.floatOp(st, op, av, bv)
		}
		if av.sort.K == SBool {
			switch op {
			case token.AND, token.LAND:
				return x.tc.And(av, bv)
			case token.OR, token.LOR:
				return x.tc.Or(av, bv)
			}
		}
		signed := isSigned(ta)
		switch op {
		case token.ADD:
			return x.tc.BinBV("bvadd", av, bv)
		case token.SUB:
			return x.tc.BinBV("bvsub", av, bv)
		case token.MUL:
			return x.tc.BinBV("bvmul", av, bv)
		case token.QUO, token.REM:
			z := x.tc.Eq(bv, x.tc.Const(bv.sort.W, 0))
			if x.branch(st, z, "division by zero") {
				panic(goPanic{"runtime error: integer divide by zero"})
			}
			if op == token.QUO {
				if signed {
					return x.tc.BinBV("bvsdiv", av, bv)
				}
				return x.tc.BinBV("bvudiv", av, bv)
			}
			if signed {
				return x.tc.BinBV("bvsrem", av, bv)
			}
			return x.tc.BinBV("bvurem", av, bv)
		case token.AND:
			return x.tc.BinBV("bvand", av, bv)
		case token.OR:
			return x.tc.BinBV("bvor", av, bv)
		case token.XOR:
			return x.tc.BinBV("bvxor", av, bv)
		case token.AND_NOT:
			return x.tc.BinBV("bvand", av, x.tc.BVNot(bv))
		case token.SHL, token.SHR:
			// shift count may have a different width / signedness
			w := av.sort.W
			cnt := bv
			if isSigned(tb) {
				neg := x.tc.Cmp("bvslt", cnt, x.tc.Const(cnt.sort.W, 0))
				if x.branch(st, neg, "negative shift") {
					panic(goPanic{"runtime error: negative shift amount"})
				}
			}
			// saturate count to w
			var c2 *Term
			if cnt.sort.W > w {
				big := x.tc.Cmp("bvuge", cnt, x.tc.Const(cnt.sort.W, uint64(w)))
				c2 = x.tc.Ite(big, x.tc.Const(w, uint64(w)), x.tc.Extract(w-1, 0, cnt))
			} else {
				c2 = x.tc.ZExt(cnt, w)
			}
			if op == token.SHL {
				return x.tc.BinBV("bvshl", av, c2)
			}
			if signed {
				return x.tc.BinBV("bvashr", av, c2)
			}
			return x.tc.BinBV("bvlshr", av, c2)
		case token.LSS, token.LEQ, token.GTR, token.GEQ:
			p := "bvu"
			if signed {
				p = "bvs"
			}
			sfx := map[token.Token]string{token.LSS: "lt", token.LEQ: "le", token.GTR: "gt", token.GEQ: "ge"}[op]
			return x.tc.Cmp(p+sfx, av, bv)
		}
	}
	panic(x.unsupported(fmt.Sprintf("binop %s on %T,%T", op, a, b)))
}

// intOfFP returns the integer (as BV64, signed) that the float term denotes
// when the term is an int->float conversion whose operand provably lies in
// (-2^53, 2^53) on the current path (so the conversion is exact).
func (x *Exec) intOfFP(st *State, a *Term) (*Term, bool) {
	if a.cst {
		f := math.Float64frombits(a.val)
		if f == math.Trunc(f) && math.Abs(f) < (1<<53) {
			return x.tc.Const(64, uint64(int64(f))), true
		}
		return nil, false
	}
	if a.op != "to_fp_s" && a.op != "to_fp_u" {
		return nil, false
	}
	v := a.args[0]
	if v.sort.W <= 53 {
		if a.op == "to_fp_s" {
			return x.tc.SExt(v, 64), true
		}
		return x.tc.ZExt(v, 64), true
	}
	if v.sort.W != 64 {
		return nil, false
	}
	lim := x.tc.Const(64, 1<<53)
	var out *Term
	if a.op == "to_fp_s" {
		out = x.tc.Or(x.tc.Cmp("bvsge", v, lim), x.tc.Cmp("bvsle", v, x.tc.BVNeg(lim)))
	} else {
		out = x.tc.Cmp("bvuge", v, lim)
	}
	if x.sol.Check(st.pc, out) == Unsat {
		return v, true
	}
	return nil, false
}

func (x *Exec) floatOp(st *State, op token.Token, a, b *Term) Value {
	// exact integer reasoning where both operands are exactly-converted integers
	if !(a.cst && b.cst) {
		if va, ok := x.intOfFP(st, a); ok {
			if vb, ok := x.intOfFP(st, b); ok {
				switch op {
				case token.LSS:
					return x.tc.Cmp("bvslt", va, vb)
				case token.LEQ:
					return x.tc.Cmp("bvsle", va, vb)
				case token.GTR:
					return x.tc.Cmp("bvsgt", va, vb)
				case token.GEQ:
					return x.tc.Cmp("bvsge", va, vb)
				case token.MUL:
					// exact if the product stays below 2^53 in magnitude
					var sym, cst *Term
					if vb.cst {
						sym, cst = va, vb
					} else if va.cst {
						sym, cst = vb, va
					}
					if cst != nil && cst.val != 0 && sext(cst.val, 64) > 0 {
						c := sext(cst.val, 64)
						bound := x.tc.Const(64, uint64((int64(1)<<53)/c))
						out := x.tc.Or(x.tc.Cmp("bvsge", sym, bound), x.tc.Cmp("bvsle", sym, x.tc.BVNeg(bound)))
						if x.sol.Check(st.pc, out) == Unsat {
							return x.tc.App("to_fp_s", FPSort, x.tc.BinBV("bvmul", sym, cst))
						}
					}
				}
			}
		}
	}
	if a.cst && b.cst {
		fa, fb := math.Float64frombits(a.val), math.Float64frombits(b.val)
		switch op {
		case token.ADD:
			return x.tc.ConstF(fa + fb)
		case token.SUB:
			return x.tc.ConstF(fa - fb)
		case token.MUL:
			return x.tc.ConstF(fa * fb)
		case token.QUO:
			return x.tc.ConstF(fa / fb)
		case token.LSS:
			return x.tc.Bool(fa < fb)
		case token.LEQ:
			return x.tc.Bool(fa <= fb)
		case token.GTR:
			return x.tc.Bool(fa > fb)
		case token.GEQ:
			return x.tc.Bool(fa >= fb)
		}
	}
	switch op {
	case token.ADD:
		return x.tc.App("fp.add", FPSort, a, b)
	case token.SUB:
		return x.tc.App("fp.sub", FPSort, a, b)
	case token.MUL:
		// x * 1.0 == x
		if b.cst && math.Float64frombits(b.val) == 1.0 {
			return a
		}
		if a.cst && math.Float64frombits(a.val) == 1.0 {
			return b
		}
		return x.tc.App("fp.mul", FPSort, a, b)
	case token.QUO:
		return x.tc.App("fp.div", FPSort, a, b)
	case token.LSS:
		return x.tc.App("fp.lt", BoolSort, a, b)
	case token.LEQ:
		return x.tc.App("fp.leq", BoolSort, a, b)
	case token.GTR:
		return x.tc.App("fp.gt", BoolSort, a, b)
	case token.GEQ:
		return x.tc.App("fp.geq", BoolSort, a, b)
	}
	panic(x.unsupported("float op " + op.String()))
}

// valEq builds the equality formula of two values of the same static type.
func (x *Exec) valEq(a, b Value) *Term {
	switch av := a.(type) {
	case *Term:
		bv, ok := b.(*Term)
		if !ok {
			break
		}
		return x.tc.Eq(av, bv)
	case *StrV:
		return x.strEq(av, b.(*StrV))
	case PtrV:
		switch bv := b.(type) {
		case PtrV:
			return x.tc.Bool(ptrEq(av, bv))
		}
	case *StructV:
		bv := b.(*StructV)
		cs := make([]*Term, 0, len(av.f))
		for i := range av.f {
			cs = append(cs, x.valEq(av.f[i], bv.f[i]))
		}
		return x.tc.And(cs...)
	case *ArrayV:
		bv := b.(*ArrayV)
		cs := make([]*Term, 0, len(av.e))
		for i := range av.e {
			cs = append(cs, x.valEq(av.e[i], bv.e[i]))
		}
		return x.tc.And(cs...)
	case IfaceV:
		bv, ok := b.(IfaceV)
		if !ok {
			break
		}
		if av.typ == nil || bv.typ == nil {
			return x.tc.Bool(av.typ == nil && bv.typ == nil)
		}
		if !types.Identical(av.typ, bv.typ) {
			return x.tc.False
		}
		return x.valEq(av.val, bv.val)
	case MapV:
		return x.tc.Bool(av.obj == b.(MapV).obj)
	case ChanV:
		return x.tc.Bool(av.obj == b.(ChanV).obj)
	case SliceV:
		// only comparison with nil is legal
		bv := b.(SliceV)
		return x.tc.Bool(av.base.isNil() && bv.base.isNil())
	case *FuncV:
		bv, _ := b.(*FuncV)
		return x.tc.Bool(av == nil && bv == nil)
	case OpaqueV:
		if bv, ok := b.(OpaqueV); ok {
			return x.tc.Bool(av.tag == bv.tag)
		}
	case TupleV:
	}
	panic(x.unsupported(fmt.Sprintf("equality of %T and %T", a, b)))
}

// ---------- conversions ----------

func (x *Exec) convert(st *State, v Value, from, to types.Type) Value {
	fu, tu := from.Underlying(), to.Underlying()
	switch t := tu.(type) {
	case *types.Basic:
		switch {
		case t.Info()&types.IsInteger != 0:
			w := x.width(t)
			if isInteger(from) {
				a := v.(*Term)
				if a.sort.W >= w {
					return x.tc.Extract(w-1, 0, a)
				}
				if isSigned(from) {
					return x.tc.SExt(a, w)
				}
				return x.tc.ZExt(a, w)
			}
			if isFloat(from) {
				a := v.(*Term)
				// int(float64(y)) is the identity when the conversion was exact
				if !a.cst {
					if iv, ok := x.intOfFP(st, a); ok {
						if !isSigned(to) {
							// negative values: Go's result is implementation specific; only rewrite when non-negative
							if x.sol.Check(st.pc, x.tc.Cmp("bvslt", iv, x.tc.Const(64, 0))) == Unsat {
								return x.tc.Extract(w-1, 0, iv)
							}
						} else {
							return x.tc.Extract(w-1, 0, iv)
						}
					}
				}
				if a.cst {
					f := math.Float64frombits(a.val)
					if isSigned(to) {
						return x.tc.Const(w, uint64(int64(f)))
					}
					return x.tc.Const(w, uint64(f))
				}
				if isSigned(to) {
					return x.tc.AppP("fp.to_sbv", BV(w), w, 0, a)
				}
				return x.tc.AppP("fp.to_ubv", BV(w), w, 0, a)
			}
			if fu == types.Typ[types.UnsafePointer] {
				panic(x.unsupported("unsafe pointer to integer"))
			}
		case t.Info()&types.IsFloat != 0:
			if isFloat(from) {
				return v
			}
			if isInteger(from) {
				a := v.(*Term)
				if a.cst {
					if isSigned(from) {
						return x.tc.ConstF(float64(sext(a.val, a.sort.W)))
					}
					return x.tc.ConstF(float64(a.val))
				}
				if isSigned(from) {
					return x.tc.App("to_fp_s", FPSort, a)
				}
				return x.tc.App("to_fp_u", FPSort, a)
			}
		case t.Info()&types.IsString != 0:
			if isString(from) {
				return v
			}
			if sl, ok := fu.(*types.Slice); ok {
				if b, ok := sl.Elem().Underlying().(*types.Basic); ok && b.Kind() == types.Uint8 {
					s := v.(SliceV)
					bs := make([]*Term, s.len)
					for k := 0; k < s.len; k++ {
						bs[k] = x.load(st, x.sliceElemPtr(s, k)).(*Term)
					}
					return &StrV{alts: []StrAlt{{g: x.tc.True, b: bs}}}
				}
				if b, ok := sl.Elem().Underlying().(*types.Basic); ok && b.Kind() == types.Int32 {
					s := v.(SliceV)
					bs := make([]*Term, s.len)
					for k := 0; k < s.len; k++ {
						r := x.load(st, x.sliceElemPtr(s, k)).(*Term)
						if r.cst && r.val >= 0x80 {
							panic(x.unsupported("non-ASCII rune to string"))
						}
						bs[k] = x.tc.Extract(7, 0, r)
					}
					return &StrV{alts: []StrAlt{{g: x.tc.True, b: bs}}}
				}
			}
			if isInteger(from) {
				a := v.(*Term)
				if a.cst && a.val < 0x80 {
					return x.strConst(string(rune(a.val)))
				}
				// symbolic rune: assume ASCII
				return &StrV{alts: []StrAlt{{g: x.tc.True, b: []*Term{x.tc.Extract(7, 0, a)}}}}
			}
		case t.Kind() == types.UnsafePointer:
			return v
		}
	case *types.Slice:
		if isString(from) {
			s := x.strSplitLen(st, v.(*StrV))
			n := len(s.alts[0].b)
			eb, _ := t.Elem().Underlying().(*types.Basic)
			arr := &ArrayV{e: make([]Value, n)}
			for k := 0; k < n; k++ {
				var bt *Term
				for ai := len(s.alts) - 1; ai >= 0; ai-- {
					if bt == nil {
						bt = s.alts[ai].b[k]
					} else {
						bt = x.tc.Ite(s.alts[ai].g, s.alts[ai].b[k], bt)
					}
				}
				if eb != nil && eb.Kind() == types.Int32 {
					bt = x.tc.ZExt(bt, 32)
				}
				arr.e[k] = bt
			}
			p := st.alloc(arr)
			return SliceV{base: p, off: 0, len: n, cap: n}
		}
		return v
	case *types.Pointer:
		return v
	}
	if types.Identical(fu, tu) {
		return v
	}
	panic(x.unsupported(fmt.Sprintf("convert %s -> %s", from, to)))
}
