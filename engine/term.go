package main

// SMT term DAG with hash-consing and constant folding.
// Sorts: Bool, (_ BitVec n) for n<=64, Float64.

import (
	"fmt"
	"math"
	"math/bits"
	"sort"
	"strconv"
	"strings"
)

type SortKind uint8

const (
	SBool SortKind = iota
	SBV
	SFP
)

type Sort struct {
	K SortKind
	W int
}

func (s Sort) String() string {
	switch s.K {
	case SBool:
		return "Bool"
	case SBV:
		return fmt.Sprintf("(_ BitVec %d)", s.W)
	case SFP:
		return "(_ FloatingPoint 11 53)"
	}
	return "?"
}

var BoolSort = Sort{K: SBool}

func BV(w int) Sort { return Sort{K: SBV, W: w} }

var FPSort = Sort{K: SFP, W: 64}

type Term struct {
	id    int
	op    string
	args  []*Term
	sort  Sort
	cst   bool   // constant
	val   uint64 // value for BV const (masked), 0/1 for Bool, bits for FP
	name  string // for "var"
	p1    int    // extract hi / extend amount
	p2    int    // extract lo
	depth int
}

func (t *Term) IsConst() bool { return t.cst }
func (t *Term) IsTrue() bool  { return t.cst && t.sort.K == SBool && t.val == 1 }
func (t *Term) IsFalse() bool { return t.cst && t.sort.K == SBool && t.val == 0 }

type TermCtx struct {
	tab   map[string]*Term
	next  int
	vars  []*Term
	vseen map[string]int
	True  *Term
	False *Term
}

func NewTermCtx() *TermCtx {
	c := &TermCtx{tab: map[string]*Term{}, vseen: map[string]int{}}
	c.True = c.mk(&Term{op: "const", sort: BoolSort, cst: true, val: 1})
	c.False = c.mk(&Term{op: "const", sort: BoolSort, cst: true, val: 0})
	return c
}

func mask(w int) uint64 {
	if w >= 64 {
		return ^uint64(0)
	}
	return (uint64(1) << uint(w)) - 1
}

func (c *TermCtx) key(t *Term) string {
	var sb strings.Builder
	sb.WriteString(t.op)
	sb.WriteByte('|')
	sb.WriteString(strconv.Itoa(int(t.sort.K)))
	sb.WriteByte(':')
	sb.WriteString(strconv.Itoa(t.sort.W))
	if t.cst {
		sb.WriteByte('#')
		sb.WriteString(strconv.FormatUint(t.val, 16))
	}
	if t.name != "" {
		sb.WriteByte('$')
		sb.WriteString(t.name)
	}
	if t.p1 != 0 || t.p2 != 0 {
		sb.WriteString(fmt.Sprintf("[%d,%d]", t.p1, t.p2))
	}
	for _, a := range t.args {
		sb.WriteByte(',')
		sb.WriteString(strconv.Itoa(a.id))
	}
	return sb.String()
}

func (c *TermCtx) mk(t *Term) *Term {
	k := c.key(t)
	if e, ok := c.tab[k]; ok {
		return e
	}
	c.next++
	t.id = c.next
	d := 0
	for _, a := range t.args {
		if a.depth > d {
			d = a.depth
		}
	}
	t.depth = d + 1
	c.tab[k] = t
	return t
}

func (c *TermCtx) Bool(b bool) *Term {
	if b {
		return c.True
	}
	return c.False
}

func (c *TermCtx) Const(w int, v uint64) *Term {
	return c.mk(&Term{op: "const", sort: BV(w), cst: true, val: v & mask(w)})
}

func (c *TermCtx) ConstF(f float64) *Term {
	return c.mk(&Term{op: "const", sort: FPSort, cst: true, val: math.Float64bits(f)})
}

// Var declares (or returns) a named symbolic constant.
func (c *TermCtx) Var(name string, s Sort) *Term {
	t := &Term{op: "var", sort: s, name: name}
	k := c.key(t)
	if e, ok := c.tab[k]; ok {
		return e
	}
	t = c.mk(t)
	c.vars = append(c.vars, t)
	return t
}

// FreshVar makes a new variable with a unique suffix.
func (c *TermCtx) FreshVar(base string, s Sort) *Term {
	n := c.vseen[base]
	c.vseen[base] = n + 1
	name := base
	if n > 0 {
		name = fmt.Sprintf("%s#%d", base, n)
	}
	return c.Var(name, s)
}

func sext(v uint64, w int) int64 {
	if w >= 64 {
		return int64(v)
	}
	sh := uint(64 - w)
	return int64(v<<sh) >> sh
}

func (c *TermCtx) Not(a *Term) *Term {
	if a.cst {
		return c.Bool(a.val == 0)
	}
	if a.op == "not" {
		return a.args[0]
	}
	return c.mk(&Term{op: "not", args: []*Term{a}, sort: BoolSort})
}

func (c *TermCtx) nary(op string, unit bool, xs []*Term) *Term {
	// and: unit=true; or: unit=false
	var out []*Term
	seen := map[int]bool{}
	for _, x := range xs {
		if x.cst {
			if (x.val == 1) == unit {
				continue
			}
			return c.Bool(!unit)
		}
		if x.op == op {
			for _, y := range x.args {
				if !seen[y.id] {
					seen[y.id] = true
					out = append(out, y)
				}
			}
			continue
		}
		if !seen[x.id] {
			seen[x.id] = true
			out = append(out, x)
		}
	}
	// complementary literals
	for _, x := range out {
		if x.op == "not" && seen[x.args[0].id] {
			return c.Bool(!unit)
		}
	}
	if len(out) == 0 {
		return c.Bool(unit)
	}
	if len(out) == 1 {
		return out[0]
	}
	sort.Slice(out, func(i, j int) bool { return out[i].id < out[j].id })
	return c.mk(&Term{op: op, args: out, sort: BoolSort})
}

func (c *TermCtx) And(xs ...*Term) *Term { return c.nary("and", true, xs) }
func (c *TermCtx) Or(xs ...*Term) *Term  { return c.nary("or", false, xs) }
func (c *TermCtx) Implies(a, b *Term) *Term {
	return c.Or(c.Not(a), b)
}

func (c *TermCtx) Ite(g, a, b *Term) *Term {
	if g.cst {
		if g.val == 1 {
			return a
		}
		return b
	}
	if a == b {
		return a
	}
	if a.sort != b.sort {
		panic(fmt.Sprintf("ite sort mismatch %v %v", a.sort, b.sort))
	}
	if a.sort.K == SBool {
		if a.cst && b.cst {
			if a.val == 1 {
				return g
			}
			return c.Not(g)
		}
		if a.cst {
			if a.val == 1 {
				return c.Or(g, b)
			}
			return c.And(c.Not(g), b)
		}
		if b.cst {
			if b.val == 1 {
				return c.Or(c.Not(g), a)
			}
			return c.And(g, a)
		}
	}
	return c.mk(&Term{op: "ite", args: []*Term{g, a, b}, sort: a.sort})
}

func (c *TermCtx) Eq(a, b *Term) *Term {
	if a == b {
		return c.True
	}
	if a.sort != b.sort {
		panic(fmt.Sprintf("eq sort mismatch %v %v (%s, %s)", a.sort, b.sort, a.op, b.op))
	}
	if a.cst && b.cst {
		return c.Bool(a.val == b.val)
	}
	if a.sort.K == SBool {
		if a.cst {
			if a.val == 1 {
				return b
			}
			return c.Not(b)
		}
		if b.cst {
			if b.val == 1 {
				return a
			}
			return c.Not(a)
		}
	}
	// ite(g,c1,c2) == c3 simplification
	if b.cst && a.op == "ite" && a.args[1].cst && a.args[2].cst {
		return c.Ite(a.args[0], c.Bool(a.args[1].val == b.val), c.Bool(a.args[2].val == b.val))
	}
	if a.cst && b.op == "ite" && b.args[1].cst && b.args[2].cst {
		return c.Ite(b.args[0], c.Bool(b.args[1].val == a.val), c.Bool(b.args[2].val == a.val))
	}
	if b.cst && a.op == "ite" {
		// push equality through nested ite chains with constant leaves
		if allConstLeaves(a, 0) {
			return c.Ite(a.args[0], c.Eq(a.args[1], b), c.Eq(a.args[2], b))
		}
	}
	if a.cst && b.op == "ite" && allConstLeaves(b, 0) {
		return c.Ite(b.args[0], c.Eq(b.args[1], a), c.Eq(b.args[2], a))
	}
	if a.id > b.id {
		a, b = b, a
	}
	if a.sort.K == SFP {
		return c.mk(&Term{op: "fp.eq", args: []*Term{a, b}, sort: BoolSort})
	}
	return c.mk(&Term{op: "=", args: []*Term{a, b}, sort: BoolSort})
}

func allConstLeaves(t *Term, d int) bool {
	if d > 24 {
		return false
	}
	if t.cst {
		return true
	}
	if t.op == "ite" {
		return allConstLeaves(t.args[1], d+1) && allConstLeaves(t.args[2], d+1)
	}
	return false
}

// BinBV builds a bit-vector binary operation with folding. signed is used
// only by the ops that care (the op name already encodes it).
func (c *TermCtx) BinBV(op string, a, b *Term) *Term {
	if a.sort != b.sort {
		panic(fmt.Sprintf("bv sort mismatch %s %v %v", op, a.sort, b.sort))
	}
	w := a.sort.W
	m := mask(w)
	if a.cst && b.cst {
		x, y := a.val, b.val
		switch op {
		case "bvadd":
			return c.Const(w, x+y)
		case "bvsub":
			return c.Const(w, x-y)
		case "bvmul":
			return c.Const(w, x*y)
		case "bvand":
			return c.Const(w, x&y)
		case "bvor":
			return c.Const(w, x|y)
		case "bvxor":
			return c.Const(w, x^y)
		case "bvshl":
			if y >= uint64(w) {
				return c.Const(w, 0)
			}
			return c.Const(w, x<<y)
		case "bvlshr":
			if y >= uint64(w) {
				return c.Const(w, 0)
			}
			return c.Const(w, x>>y)
		case "bvashr":
			sx := sext(x, w)
			if y >= uint64(w) {
				if sx < 0 {
					return c.Const(w, m)
				}
				return c.Const(w, 0)
			}
			return c.Const(w, uint64(sx>>y))
		case "bvudiv":
			if y != 0 {
				return c.Const(w, x/y)
			}
		case "bvurem":
			if y != 0 {
				return c.Const(w, x%y)
			}
		case "bvsdiv":
			if y != 0 {
				sx, sy := sext(x, w), sext(y, w)
				if sy == -1 {
					return c.Const(w, uint64(-sx))
				}
				return c.Const(w, uint64(sx/sy))
			}
		case "bvsrem":
			if y != 0 {
				sx, sy := sext(x, w), sext(y, w)
				if sy == -1 {
					return c.Const(w, 0)
				}
				return c.Const(w, uint64(sx%sy))
			}
		}
	}
	// identities
	switch op {
	case "bvadd":
		if a.cst && a.val == 0 {
			return b
		}
		if b.cst && b.val == 0 {
			return a
		}
		// (x + c1) + c2
		if b.cst && a.op == "bvadd" && a.args[1].cst {
			return c.BinBV("bvadd", a.args[0], c.Const(w, a.args[1].val+b.val))
		}
	case "bvsub":
		if b.cst && b.val == 0 {
			return a
		}
		if a == b {
			return c.Const(w, 0)
		}
		if b.cst {
			return c.BinBV("bvadd", a, c.Const(w, -b.val))
		}
	case "bvmul":
		if (a.cst && a.val == 0) || (b.cst && b.val == 0) {
			return c.Const(w, 0)
		}
		if a.cst && a.val == 1 {
			return b
		}
		if b.cst && b.val == 1 {
			return a
		}
	case "bvand":
		if (a.cst && a.val == 0) || (b.cst && b.val == 0) {
			return c.Const(w, 0)
		}
		if a.cst && a.val == m {
			return b
		}
		if b.cst && b.val == m {
			return a
		}
		if a == b {
			return a
		}
	case "bvor":
		if a.cst && a.val == 0 {
			return b
		}
		if b.cst && b.val == 0 {
			return a
		}
		if (a.cst && a.val == m) || (b.cst && b.val == m) {
			return c.Const(w, m)
		}
		if a == b {
			return a
		}
	case "bvxor":
		if a.cst && a.val == 0 {
			return b
		}
		if b.cst && b.val == 0 {
			return a
		}
		if a == b {
			return c.Const(w, 0)
		}
	case "bvshl", "bvlshr", "bvashr":
		if b.cst && b.val == 0 {
			return a
		}
		if a.cst && a.val == 0 {
			return a
		}
		if b.cst && b.val >= uint64(w) && op != "bvashr" {
			return c.Const(w, 0)
		}
	}
	// commutative ordering: constant last
	switch op {
	case "bvadd", "bvmul", "bvand", "bvor", "bvxor":
		if a.cst && !b.cst {
			a, b = b, a
		} else if !a.cst && !b.cst && a.id > b.id {
			a, b = b, a
		}
	}
	// distribute op with constant over ite with constant leaves (keeps
	// loop counters and guarded lengths foldable)
	if b.cst && a.op == "ite" && allConstLeaves(a, 0) && a.depth < 12 {
		return c.Ite(a.args[0], c.BinBV(op, a.args[1], b), c.BinBV(op, a.args[2], b))
	}
	return c.mk(&Term{op: op, args: []*Term{a, b}, sort: a.sort})
}

func (c *TermCtx) Cmp(op string, a, b *Term) *Term {
	if a.sort != b.sort {
		panic(fmt.Sprintf("cmp sort mismatch %s %v %v", op, a.sort, b.sort))
	}
	w := a.sort.W
	if a.cst && b.cst {
		x, y := a.val, b.val
		sx, sy := sext(x, w), sext(y, w)
		switch op {
		case "bvult":
			return c.Bool(x < y)
		case "bvule":
			return c.Bool(x <= y)
		case "bvugt":
			return c.Bool(x > y)
		case "bvuge":
			return c.Bool(x >= y)
		case "bvslt":
			return c.Bool(sx < sy)
		case "bvsle":
			return c.Bool(sx <= sy)
		case "bvsgt":
			return c.Bool(sx > sy)
		case "bvsge":
			return c.Bool(sx >= sy)
		}
	}
	if a == b {
		switch op {
		case "bvult", "bvugt", "bvslt", "bvsgt":
			return c.False
		default:
			return c.True
		}
	}
	if b.cst && a.op == "ite" && allConstLeaves(a, 0) {
		return c.Ite(a.args[0], c.Cmp(op, a.args[1], b), c.Cmp(op, a.args[2], b))
	}
	if a.cst && b.op == "ite" && allConstLeaves(b, 0) {
		return c.Ite(b.args[0], c.Cmp(op, a, b.args[1]), c.Cmp(op, a, b.args[2]))
	}
	// unsigned compare against 0
	if op == "bvult" && b.cst && b.val == 0 {
		return c.False
	}
	if op == "bvuge" && b.cst && b.val == 0 {
		return c.True
	}
	return c.mk(&Term{op: op, args: []*Term{a, b}, sort: BoolSort})
}

func (c *TermCtx) BVNot(a *Term) *Term {
	if a.cst {
		return c.Const(a.sort.W, ^a.val)
	}
	if a.op == "bvnot" {
		return a.args[0]
	}
	return c.mk(&Term{op: "bvnot", args: []*Term{a}, sort: a.sort})
}

func (c *TermCtx) BVNeg(a *Term) *Term {
	if a.cst {
		return c.Const(a.sort.W, -a.val)
	}
	return c.mk(&Term{op: "bvneg", args: []*Term{a}, sort: a.sort})
}

func (c *TermCtx) Extract(hi, lo int, a *Term) *Term {
	w := hi - lo + 1
	if lo == 0 && w == a.sort.W {
		return a
	}
	if a.cst {
		return c.Const(w, a.val>>uint(lo))
	}
	if a.op == "zext" || a.op == "sext" {
		inner := a.args[0]
		if hi < inner.sort.W {
			return c.Extract(hi, lo, inner)
		}
		if a.op == "zext" && lo >= inner.sort.W {
			return c.Const(w, 0)
		}
	}
	if a.op == "concat" {
		lw := a.args[1].sort.W
		if hi < lw {
			return c.Extract(hi, lo, a.args[1])
		}
		if lo >= lw {
			return c.Extract(hi-lw, lo-lw, a.args[0])
		}
	}
	if a.op == "ite" && allConstLeaves(a, 0) {
		return c.Ite(a.args[0], c.Extract(hi, lo, a.args[1]), c.Extract(hi, lo, a.args[2]))
	}
	return c.mk(&Term{op: "extract", args: []*Term{a}, sort: BV(w), p1: hi, p2: lo})
}

func (c *TermCtx) ZExt(a *Term, to int) *Term {
	if to == a.sort.W {
		return a
	}
	if to < a.sort.W {
		return c.Extract(to-1, 0, a)
	}
	if a.cst {
		return c.Const(to, a.val)
	}
	if a.op == "ite" && allConstLeaves(a, 0) {
		return c.Ite(a.args[0], c.ZExt(a.args[1], to), c.ZExt(a.args[2], to))
	}
	if a.op == "zext" {
		return c.ZExt(a.args[0], to)
	}
	return c.mk(&Term{op: "zext", args: []*Term{a}, sort: BV(to), p1: to - a.sort.W})
}

func (c *TermCtx) SExt(a *Term, to int) *Term {
	if to == a.sort.W {
		return a
	}
	if to < a.sort.W {
		return c.Extract(to-1, 0, a)
	}
	if a.cst {
		return c.Const(to, uint64(sext(a.val, a.sort.W)))
	}
	if a.op == "ite" && allConstLeaves(a, 0) {
		return c.Ite(a.args[0], c.SExt(a.args[1], to), c.SExt(a.args[2], to))
	}
	return c.mk(&Term{op: "sext", args: []*Term{a}, sort: BV(to), p1: to - a.sort.W})
}

func (c *TermCtx) Concat(hi, lo *Term) *Term {
	w := hi.sort.W + lo.sort.W
	if hi.cst && lo.cst && w <= 64 {
		return c.Const(w, hi.val<<uint(lo.sort.W)|lo.val)
	}
	return c.mk(&Term{op: "concat", args: []*Term{hi, lo}, sort: BV(w)})
}

// generic op (floats etc.)
func (c *TermCtx) App(op string, s Sort, args ...*Term) *Term {
	return c.mk(&Term{op: op, args: args, sort: s})
}

func (c *TermCtx) AppP(op string, s Sort, p1, p2 int, args ...*Term) *Term {
	return c.mk(&Term{op: op, args: args, sort: s, p1: p1, p2: p2})
}

// ---------- printing ----------

func smtName(n string) string {
	return "|" + strings.NewReplacer("|", "_", "\\", "_").Replace(n) + "|"
}

func (t *Term) leaf() string {
	switch t.op {
	case "const":
		switch t.sort.K {
		case SBool:
			if t.val == 1 {
				return "true"
			}
			return "false"
		case SBV:
			if t.sort.W%4 == 0 {
				return fmt.Sprintf("#x%0*x", t.sort.W/4, t.val)
			}
			return fmt.Sprintf("#b%0*b", t.sort.W, t.val)
		case SFP:
			return fmt.Sprintf("((_ to_fp 11 53) #x%016x)", t.val)
		}
	case "var":
		return smtName(t.name)
	}
	return ""
}

func (t *Term) ref() string {
	if l := t.leaf(); l != "" {
		return l
	}
	return "t" + strconv.Itoa(t.id)
}

// body prints the node in terms of refs to its args.
func (t *Term) body() string {
	var sb strings.Builder
	switch t.op {
	case "extract":
		fmt.Fprintf(&sb, "((_ extract %d %d) %s)", t.p1, t.p2, t.args[0].ref())
		return sb.String()
	case "zext":
		fmt.Fprintf(&sb, "((_ zero_extend %d) %s)", t.p1, t.args[0].ref())
		return sb.String()
	case "sext":
		fmt.Fprintf(&sb, "((_ sign_extend %d) %s)", t.p1, t.args[0].ref())
		return sb.String()
	case "fp.to_sbv", "fp.to_ubv":
		fmt.Fprintf(&sb, "((_ %s %d) RTZ %s)", t.op, t.p1, t.args[0].ref())
		return sb.String()
	case "to_fp_bits":
		fmt.Fprintf(&sb, "((_ to_fp 11 53) %s)", t.args[0].ref())
		return sb.String()
	case "to_fp_s":
		fmt.Fprintf(&sb, "((_ to_fp 11 53) RNE %s)", t.args[0].ref())
		return sb.String()
	case "to_fp_u":
		fmt.Fprintf(&sb, "((_ to_fp_unsigned 11 53) RNE %s)", t.args[0].ref())
		return sb.String()
	case "fp.add", "fp.sub", "fp.mul", "fp.div":
		fmt.Fprintf(&sb, "(%s RNE %s %s)", t.op, t.args[0].ref(), t.args[1].ref())
		return sb.String()
	}
	sb.WriteByte('(')
	sb.WriteString(t.op)
	for _, a := range t.args {
		sb.WriteByte(' ')
		sb.WriteString(a.ref())
	}
	sb.WriteByte(')')
	return sb.String()
}

// String renders a (small) term fully, for diagnostics and samples.
func (t *Term) String() string {
	return t.render(0)
}

func (t *Term) render(d int) string {
	if l := t.leaf(); l != "" {
		return l
	}
	if d > 6 {
		return "…"
	}
	var sb strings.Builder
	sb.WriteByte('(')
	switch t.op {
	case "extract":
		fmt.Fprintf(&sb, "(_ extract %d %d)", t.p1, t.p2)
	case "zext":
		fmt.Fprintf(&sb, "(_ zero_extend %d)", t.p1)
	case "sext":
		fmt.Fprintf(&sb, "(_ sign_extend %d)", t.p1)
	default:
		sb.WriteString(t.op)
	}
	for _, a := range t.args {
		sb.WriteByte(' ')
		sb.WriteString(a.render(d + 1))
	}
	sb.WriteByte(')')
	return sb.String()
}

var _ = bits.Len
