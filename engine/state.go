package main

import (
	"fmt"
	"go/types"

	"golang.org/x/tools/go/ssa"
)

type Deferred struct {
	fn   Value // *FuncV or invoke target resolved
	args []Value
	call *ssa.CallCommon
}

type Frame struct {
	fn       *ssa.Function
	info     *FnInfo
	block    *ssa.BasicBlock
	prev     *ssa.BasicBlock
	pc       int
	locals   []Value
	defers   []Deferred
	script   []ssa.Instruction // synthetic instruction list (global init slices)
	dest     ssa.Value         // caller value receiving the result (nil: discard)
	discard  bool
	visits   map[int]int // block index -> visits
	isDefer  bool        // frame is a deferred call being run
	savedPanic *PanicInfo // panic in flight while this deferred call runs
	recovered bool
	onReturn func(st *State, ret Value) // engine callback when frame returns
}

type PanicInfo struct {
	val Value
	msg string
	pos string
}

type NondetRec struct {
	Name string
	Kind string // int8..int64,bool,str
	Term *Term
	Str  *StrV
	Max  int
}

type Spawn struct {
	fn   *FuncV
	args []Value
	inv  *ssa.CallCommon
}

type State struct {
	heap     map[int]Value
	nextObj  int
	frames   []*Frame
	pc       []*Term
	pending  []int // predetermined decisions for the instruction being (re-)executed
	decided  int   // how many of pending have been consumed
	mutGen   int
	nondet   []NondetRec
	nameCnt  map[string]int
	trace    []string // decisions (map order, forks) for replay diagnostics
	locks    map[string]int
	spawned  []Spawn
	panic    *PanicInfo
	allowPanic bool
	ghost    map[string]Value
	steps    int
	unknownBranch bool
	calllog  []string
	globalsInit map[*ssa.Global]bool
	id       int
	asserts  []pendAssert
}

type pendAssert struct {
	c     *Term
	site  string
	msg   string
	pos   string
	stack []string
}

func (st *State) clone() *State {
	n := &State{
		heap:    make(map[int]Value, len(st.heap)+8),
		nextObj: st.nextObj,
		frames:  make([]*Frame, len(st.frames)),
		pc:      append([]*Term(nil), st.pc...),
		mutGen:  st.mutGen,
		nondet:  append([]NondetRec(nil), st.nondet...),
		nameCnt: make(map[string]int, len(st.nameCnt)),
		trace:   append([]string(nil), st.trace...),
		locks:   make(map[string]int, len(st.locks)),
		spawned: append([]Spawn(nil), st.spawned...),
		panic:   st.panic,
		allowPanic: st.allowPanic,
		ghost:   make(map[string]Value, len(st.ghost)),
		steps:   st.steps,
		unknownBranch: st.unknownBranch,
		calllog: append([]string(nil), st.calllog...),
		globalsInit: make(map[*ssa.Global]bool, len(st.globalsInit)),
		asserts: append([]pendAssert(nil), st.asserts...),
	}
	for k, v := range st.heap {
		n.heap[k] = v
	}
	for k, v := range st.nameCnt {
		n.nameCnt[k] = v
	}
	for k, v := range st.locks {
		n.locks[k] = v
	}
	for k, v := range st.ghost {
		n.ghost[k] = v
	}
	for k, v := range st.globalsInit {
		n.globalsInit[k] = v
	}
	for i, f := range st.frames {
		nf := *f
		nf.locals = append([]Value(nil), f.locals...)
		nf.defers = append([]Deferred(nil), f.defers...)
		nf.visits = make(map[int]int, len(f.visits))
		for k, v := range f.visits {
			nf.visits[k] = v
		}
		n.frames[i] = &nf
	}
	return n
}

func (st *State) top() *Frame { return st.frames[len(st.frames)-1] }

func (st *State) alloc(v Value) PtrV {
	st.nextObj++
	st.heap[st.nextObj] = v
	st.mutGen++
	return PtrV{obj: st.nextObj}
}

func (x *Exec) load(st *State, p PtrV) Value {
	if p.obj == 0 {
		panic(goPanic{"runtime error: invalid memory address or nil pointer dereference"})
	}
	v, ok := st.heap[p.obj]
	if !ok {
		panic(x.unsupported(fmt.Sprintf("dangling object o%d", p.obj)))
	}
	for _, i := range p.path {
		switch u := v.(type) {
		case *StructV:
			v = u.f[i]
		case *ArrayV:
			if i >= len(u.e) {
				panic(x.unsupported(fmt.Sprintf("load path index %d beyond array %d", i, len(u.e))))
			}
			v = u.e[i]
		default:
			panic(x.unsupported(fmt.Sprintf("load path through %T", v)))
		}
	}
	return v
}

func updatePath(v Value, path []int, nv Value) Value {
	if len(path) == 0 {
		return nv
	}
	i := path[0]
	switch u := v.(type) {
	case *StructV:
		nf := make([]Value, len(u.f))
		copy(nf, u.f)
		nf[i] = updatePath(u.f[i], path[1:], nv)
		return &StructV{f: nf}
	case *ArrayV:
		ne := make([]Value, len(u.e))
		copy(ne, u.e)
		ne[i] = updatePath(u.e[i], path[1:], nv)
		return &ArrayV{e: ne}
	}
	panic(fmt.Sprintf("store path through %T", v))
}

func (x *Exec) store(st *State, p PtrV, nv Value) {
	if p.obj == 0 {
		panic(goPanic{"runtime error: invalid memory address or nil pointer dereference"})
	}
	root, ok := st.heap[p.obj]
	if !ok {
		panic(x.unsupported(fmt.Sprintf("dangling object o%d", p.obj)))
	}
	st.heap[p.obj] = updatePath(root, p.path, nv)
	st.mutGen++
	if x.writeHook != nil {
		x.writeHook(st, p)
	}
}

// FnInfo caches a numbering of the values of a function.
type FnInfo struct {
	index map[ssa.Value]int
	n     int
}

func (x *Exec) fnInfo(fn *ssa.Function) *FnInfo {
	if fi, ok := x.fninfo[fn]; ok {
		return fi
	}
	fi := &FnInfo{index: map[ssa.Value]int{}}
	for _, p := range fn.Params {
		fi.index[p] = fi.n
		fi.n++
	}
	for _, p := range fn.FreeVars {
		fi.index[p] = fi.n
		fi.n++
	}
	for _, b := range fn.Blocks {
		for _, in := range b.Instrs {
			if v, ok := in.(ssa.Value); ok {
				fi.index[v] = fi.n
				fi.n++
			}
		}
	}
	x.fninfo[fn] = fi
	return fi
}

func (x *Exec) newFrame(fn *ssa.Function, args []Value, bindings []Value) *Frame {
	fi := x.fnInfo(fn)
	fr := &Frame{fn: fn, info: fi, locals: make([]Value, fi.n), visits: map[int]int{}}
	if len(fn.Blocks) > 0 {
		fr.block = fn.Blocks[0]
	}
	if len(args) != len(fn.Params) {
		panic(x.unsupported(fmt.Sprintf("call %s with %d args, want %d", fn, len(args), len(fn.Params))))
	}
	for i, p := range fn.Params {
		fr.locals[fi.index[p]] = args[i]
	}
	for i, p := range fn.FreeVars {
		fr.locals[fi.index[p]] = bindings[i]
	}
	return fr
}

func typeOfPtrElem(t types.Type) types.Type {
	if p, ok := t.Underlying().(*types.Pointer); ok {
		return p.Elem()
	}
	return nil
}
