package main

import (
	"fmt"
	"go/types"
	"reflect"
	"sort"
	"strings"

	"golang.org/x/tools/go/ssa"
)

// A JSON-visible snapshot of a value: the sequence of leaves encoding/json
// would look at (exported fields, honouring `json:"-"` and names only for
// ordering of maps), with structure markers so that different shapes never
// compare equal.  Leaves are *Term / *StrV; markers are strings.
type snapLeaf struct {
	mark string
	t    *Term
	s    *StrV
}

func (x *Exec) snapshot(st *State, v Value, t types.Type, out *[]snapLeaf, depth int) {
	if depth > 24 {
		panic(x.unsupported("snapshot depth"))
	}
	add := func(m string) { *out = append(*out, snapLeaf{mark: m}) }
	switch u := t.Underlying().(type) {
	case *types.Basic:
		switch vv := v.(type) {
		case *Term:
			*out = append(*out, snapLeaf{t: vv})
		case *StrV:
			*out = append(*out, snapLeaf{s: vv})
		default:
			add(fmt.Sprintf("<%T>", v))
		}
	case *types.Pointer:
		p := v.(PtrV)
		if p.isNil() {
			add("null")
			return
		}
		add("&")
		x.snapshot(st, x.load(st, p), u.Elem(), out, depth+1)
	case *types.Struct:
		sv := v.(*StructV)
		add("{")
		for i := 0; i < u.NumFields(); i++ {
			f := u.Field(i)
			tag := reflect.StructTag(u.Tag(i)).Get("json")
			if tag == "-" {
				continue
			}
			if !f.Exported() && !f.Embedded() {
				continue
			}
			if !f.Exported() && f.Embedded() {
				// embedded unexported: only (pointer to) struct types contribute promoted fields
				ft := f.Type()
				if p, ok := ft.Underlying().(*types.Pointer); ok {
					ft = p.Elem()
				}
				if _, ok := ft.Underlying().(*types.Struct); !ok {
					continue
				}
			}
			add(f.Name() + ":")
			x.snapshot(st, sv.f[i], f.Type(), out, depth+1)
		}
		add("}")
	case *types.Array:
		av := v.(*ArrayV)
		add("[")
		for _, e := range av.e {
			x.snapshot(st, e, u.Elem(), out, depth+1)
		}
		add("]")
	case *types.Slice:
		s := v.(SliceV)
		if s.base.isNil() {
			add("null")
			return
		}
		add(fmt.Sprintf("[%d", s.len))
		for k := 0; k < s.len; k++ {
			x.snapshot(st, x.load(st, x.sliceElemPtr(s, k)), u.Elem(), out, depth+1)
		}
		add("]")
	case *types.Map:
		m := v.(MapV)
		if m.obj == 0 {
			add("null")
			return
		}
		mo := st.heap[m.obj].(*MapObj)
		type kv struct {
			k string
			e MapEntry
		}
		var es []kv
		for _, e := range mo.entries {
			ks, ok := e.key.(*StrV)
			if !ok {
				panic(x.unsupported("snapshot of map with non-string key"))
			}
			c, ok := ks.concrete()
			if !ok {
				panic(x.unsupported("snapshot of map with symbolic key"))
			}
			es = append(es, kv{c, e})
		}
		sort.Slice(es, func(i, j int) bool { return es[i].k < es[j].k })
		add(fmt.Sprintf("map%d{", len(es)))
		for _, e := range es {
			add(e.k + "=")
			x.snapshot(st, e.e.val, u.Elem(), out, depth+1)
		}
		add("}")
	case *types.Interface:
		iv := v.(IfaceV)
		if iv.typ == nil {
			add("null")
			return
		}
		add("(" + iv.typ.String() + ")")
		x.snapshot(st, iv.val, iv.typ, out, depth+1)
	default:
		add("<" + t.String() + ">")
	}
}

// snapEq: formula "the two snapshots are equal".
func (x *Exec) snapEq(a, b []snapLeaf) *Term {
	if len(a) != len(b) {
		return x.tc.False
	}
	var cs []*Term
	for i := range a {
		switch {
		case a[i].t != nil && b[i].t != nil:
			if a[i].t.sort != b[i].t.sort {
				return x.tc.False
			}
			cs = append(cs, x.tc.Eq(a[i].t, b[i].t))
		case a[i].s != nil && b[i].s != nil:
			cs = append(cs, x.strEq(a[i].s, b[i].s))
		case a[i].t == nil && a[i].s == nil && b[i].t == nil && b[i].s == nil:
			if a[i].mark != b[i].mark {
				return x.tc.False
			}
		default:
			return x.tc.False
		}
	}
	return x.tc.And(cs...)
}

// digestOf returns an abstract digest string for a snapshot: the digest is a
// function of the snapshot and injective (collisions are outside the claim).
// The k-th digest taken on a path is "digest#j" for the first earlier snapshot
// j it equals, else "digest#k".
func (x *Exec) digestOf(st *State, kind string, snap []snapLeaf) *StrV {
	key := "$digests:" + kind
	var prev []([]snapLeaf)
	if v, ok := st.ghost[key]; ok {
		prev = v.(snapList).l
	}
	k := len(prev)
	var alts []StrAlt
	var nots []*Term
	for j, p := range prev {
		eq := x.snapEq(p, snap)
		g := x.tc.And(append(append([]*Term(nil), nots...), eq)...)
		if !g.IsFalse() {
			alts = append(alts, StrAlt{g: g, b: x.strConst(fmt.Sprintf("%s#%d", kind, j)).alts[0].b})
		}
		nots = append(nots, x.tc.Not(eq))
	}
	g := x.tc.And(nots...)
	if !g.IsFalse() {
		alts = append(alts, StrAlt{g: g, b: x.strConst(fmt.Sprintf("%s#%d", kind, k)).alts[0].b})
	}
	np := append(append([]([]snapLeaf)(nil), prev...), snap)
	st.ghost[key] = snapList{l: np}
	st.mutGen++
	return x.strNormalize(alts)
}

type snapList struct{ l []([]snapLeaf) }

func init() {
	// registered lazily from registerMoreIntrinsics via registerSnapshotIntrinsics
}

// deepCopy copies a value following pointers, slices and maps (aliasing inside
// the copied graph is preserved).
func (x *Exec) deepCopy(st *State, v Value, seen map[int]int, depth int) Value {
	if depth > 40 {
		panic(x.unsupported("deepCopy depth"))
	}
	switch u := v.(type) {
	case PtrV:
		if u.isNil() {
			return u
		}
		if n, ok := seen[u.obj]; ok {
			return PtrV{obj: n, path: u.path}
		}
		np := st.alloc(nil)
		seen[u.obj] = np.obj
		st.heap[np.obj] = x.deepCopy(st, st.heap[u.obj], seen, depth+1)
		return PtrV{obj: np.obj, path: u.path}
	case *StructV:
		f := make([]Value, len(u.f))
		for i := range f {
			f[i] = x.deepCopy(st, u.f[i], seen, depth+1)
		}
		return &StructV{f: f}
	case *ArrayV:
		e := make([]Value, len(u.e))
		for i := range e {
			e[i] = x.deepCopy(st, u.e[i], seen, depth+1)
		}
		return &ArrayV{e: e}
	case SliceV:
		if u.base.isNil() {
			return u
		}
		nb := x.deepCopy(st, u.base, seen, depth+1).(PtrV)
		return SliceV{base: nb, off: u.off, len: u.len, cap: u.cap}
	case MapV:
		if u.obj == 0 {
			return u
		}
		if n, ok := seen[u.obj]; ok {
			return MapV{obj: n}
		}
		mo := st.heap[u.obj].(*MapObj)
		np := st.alloc(nil)
		seen[u.obj] = np.obj
		ne := make([]MapEntry, len(mo.entries))
		for i, e := range mo.entries {
			ne[i] = MapEntry{id: e.id, key: x.deepCopy(st, e.key, seen, depth+1), val: x.deepCopy(st, e.val, seen, depth+1)}
		}
		st.heap[np.obj] = &MapObj{entries: ne, nextID: mo.nextID}
		return MapV{obj: np.obj}
	case IfaceV:
		if u.typ == nil {
			return u
		}
		return IfaceV{typ: u.typ, val: x.deepCopy(st, u.val, seen, depth+1)}
	}
	return v
}

// ---------- encoding/json decode semantics over snapshots ----------
//
// Unmarshal(Marshal(v)) into an existing target follows encoding/json: struct
// fields are matched by JSON name, a field missing from the document (no
// source field of that name, or an omitempty source field holding its zero
// value) keeps the target's old value, null sets pointers / maps / slices to
// nil, an existing non-nil map is reused and entries are added to it, an
// existing non-nil pointer is decoded through, slices are rebuilt.

func jsonFieldName(f *types.Var, tag string) (name string, omitempty, skip bool) {
	name = f.Name()
	if !f.Exported() {
		return "", false, true
	}
	jt, ok := reflectTagLookup(tag, "json")
	if !ok {
		return name, false, false
	}
	if jt == "-" {
		return "", false, true
	}
	parts := strings.Split(jt, ",")
	if parts[0] != "" {
		name = parts[0]
	}
	for _, o := range parts[1:] {
		if o == "omitempty" {
			omitempty = true
		}
	}
	return name, omitempty, false
}

// reflectTagLookup is reflect.StructTag.Lookup on a raw tag string.
func reflectTagLookup(tag, key string) (string, bool) {
	for tag != "" {
		i := 0
		for i < len(tag) && tag[i] == ' ' {
			i++
		}
		tag = tag[i:]
		if tag == "" {
			break
		}
		i = 0
		for i < len(tag) && tag[i] > ' ' && tag[i] != ':' && tag[i] != '"' && tag[i] != 0x7f {
			i++
		}
		if i == 0 || i+1 >= len(tag) || tag[i] != ':' || tag[i+1] != '"' {
			break
		}
		name := tag[:i]
		tag = tag[i+1:]
		i = 1
		for i < len(tag) && tag[i] != '"' {
			if tag[i] == '\\' {
				i++
			}
			i++
		}
		if i >= len(tag) {
			break
		}
		q := tag[:i+1]
		tag = tag[i+1:]
		if key == name {
			if len(q) >= 2 {
				return q[1 : len(q)-1], true
			}
			return "", true
		}
	}
	return "", false
}

// jsonCompatible: can a document produced from a value of type src be decoded into type tgt by this model?
func (x *Exec) jsonCompatible(tgt, src types.Type, depth int) bool {
	if depth > 12 || types.Identical(tgt, src) {
		return true
	}
	switch t := tgt.Underlying().(type) {
	case *types.Struct:
		s, ok := src.Underlying().(*types.Struct)
		if !ok {
			return false
		}
		for i := 0; i < t.NumFields(); i++ {
			tn, _, skip := jsonFieldName(t.Field(i), t.Tag(i))
			if skip {
				continue
			}
			for j := 0; j < s.NumFields(); j++ {
				sn, _, sskip := jsonFieldName(s.Field(j), s.Tag(j))
				if !sskip && sn == tn && !x.jsonCompatible(t.Field(i).Type(), s.Field(j).Type(), depth+1) {
					return false
				}
			}
		}
		return true
	case *types.Pointer:
		s, ok := src.Underlying().(*types.Pointer)
		return ok && x.jsonCompatible(t.Elem(), s.Elem(), depth+1)
	case *types.Map:
		s, ok := src.Underlying().(*types.Map)
		return ok && types.Identical(t.Key(), s.Key()) && x.jsonCompatible(t.Elem(), s.Elem(), depth+1)
	case *types.Slice:
		s, ok := src.Underlying().(*types.Slice)
		return ok && x.jsonCompatible(t.Elem(), s.Elem(), depth+1)
	case *types.Basic:
		s, ok := src.Underlying().(*types.Basic)
		return ok && s.Kind() == t.Kind()
	}
	return false
}

// jsonZero: is v the "empty value" of omitempty?  Returns (concrete, term): a concrete answer or a condition.
func (x *Exec) jsonZero(st *State, v Value) *Term {
	switch u := v.(type) {
	case *Term:
		if u.sort == BoolSort {
			return x.tc.Not(u)
		}
		if u.sort == FPSort {
			return x.tc.False // floats: treated as present (no harness relies on omitempty floats)
		}
		return x.tc.Eq(u, x.tc.Const(u.sort.W, 0))
	case *StrV:
		return x.strEq(u, x.strConst(""))
	case PtrV:
		return x.tc.Bool(u.isNil())
	case MapV:
		return x.tc.Bool(u.obj == 0 || len(st.heap[u.obj].(*MapObj).entries) == 0)
	case SliceV:
		return x.tc.Bool(u.len == 0)
	case IfaceV:
		return x.tc.Bool(u.typ == nil)
	}
	return x.tc.False
}

func (x *Exec) jsonDecodeInto(st *State, old, nw Value, tgt, src types.Type, depth int) Value {
	if depth > 40 {
		panic(x.unsupported("json decode depth"))
	}
	switch t := tgt.Underlying().(type) {
	case *types.Struct:
		s := src.Underlying().(*types.Struct)
		ov, nv := old.(*StructV), nw.(*StructV)
		f := append([]Value(nil), ov.f...)
		for i := 0; i < t.NumFields(); i++ {
			tn, _, skip := jsonFieldName(t.Field(i), t.Tag(i))
			if skip {
				continue
			}
			for j := 0; j < s.NumFields(); j++ {
				sn, omit, sskip := jsonFieldName(s.Field(j), s.Tag(j))
				if sskip || sn != tn {
					continue
				}
				dec := x.jsonDecodeInto(st, ov.f[i], nv.f[j], t.Field(i).Type(), s.Field(j).Type(), depth+1)
				if omit {
					z := x.jsonZero(st, nv.f[j])
					switch {
					case z.IsTrue():
						dec = ov.f[i]
					case z.IsFalse():
					default:
						switch d := dec.(type) {
						case *Term:
							dec = x.tc.Ite(z, ov.f[i].(*Term), d)
						case *StrV:
							dec = x.strIte(z, ov.f[i].(*StrV), d)
						}
					}
				}
				f[i] = dec
				break
			}
		}
		return &StructV{f: f}
	case *types.Pointer:
		np := nw.(PtrV)
		if np.isNil() {
			return PtrV{}
		}
		se := src.Underlying().(*types.Pointer).Elem()
		if op, ok := old.(PtrV); ok && !op.isNil() {
			x.store(st, op, x.jsonDecodeInto(st, x.load(st, op), x.load(st, np), t.Elem(), se, depth+1))
			return op
		}
		return st.alloc(x.jsonDecodeInto(st, x.zero(t.Elem()), x.load(st, np), t.Elem(), se, depth+1))
	case *types.Map:
		nm := nw.(MapV)
		if nm.obj == 0 {
			return MapV{}
		}
		se := src.Underlying().(*types.Map).Elem()
		m, _ := old.(MapV)
		if m.obj == 0 {
			p := st.alloc(nil)
			st.heap[p.obj] = &MapObj{}
			m = MapV{obj: p.obj}
		}
		for _, e := range st.heap[nm.obj].(*MapObj).entries {
			x.mapSet(st, m, x.deepCopy(st, e.key, map[int]int{}, 0), x.jsonDecodeInto(st, x.zero(t.Elem()), e.val, t.Elem(), se, depth+1))
		}
		return m
	case *types.Slice:
		ns := nw.(SliceV)
		if ns.base.isNil() {
			return SliceV{}
		}
		se := src.Underlying().(*types.Slice).Elem()
		arr := &ArrayV{e: make([]Value, ns.len)}
		for k := 0; k < ns.len; k++ {
			arr.e[k] = x.jsonDecodeInto(st, x.zero(t.Elem()), x.load(st, x.sliceElemPtr(ns, k)), t.Elem(), se, depth+1)
		}
		return SliceV{base: st.alloc(arr), len: ns.len, cap: ns.len}
	}
	return x.deepCopy(st, nw, map[int]int{}, 0)
}

// trySnapshot computes the JSON-visible leaves of a value; false when the value has a shape the
// snapshot does not cover (the document then simply never compares equal to another one).
func (x *Exec) trySnapshot(st *State, iv IfaceV) (leaves []snapLeaf, ok bool) {
	defer func() {
		if r := recover(); r != nil {
			if _, isUns := r.(unsupportedErr); isUns {
				leaves, ok = nil, false
				return
			}
			panic(r)
		}
	}()
	if iv.typ == nil {
		return []snapLeaf{{mark: "null"}}, true
	}
	var out []snapLeaf
	out = append(out, snapLeaf{mark: "type:" + iv.typ.String()})
	x.snapshot(st, iv.val, iv.typ, &out, 0)
	return out, true
}

func registerSnapshotIntrinsics() {
	// encoding/json abstraction: Marshal(v) keeps a deep snapshot of v and
	// returns the bytes "json#<k>"; Unmarshal of such bytes into a pointer of
	// the same type yields a deep copy of the snapshot (decode(encode(v)) = v);
	// Unmarshal of any other bytes yields an arbitrary outcome: an error, or
	// success leaving the target untouched.  JSON syntax itself is not explored.
	intrinsics["encoding/json.Marshal"] = func(x *Exec, st *State, fr *Frame, fn *ssa.Function, a []Value) (Value, int) {
		iv := a[0].(IfaceV)
		n := 0
		if c, ok := st.ghost["$jsoncount"]; ok {
			n = int(c.(*Term).val)
		}
		// Marshal is a function of the JSON-visible content: a value equal to one marshalled
		// earlier on this path yields the same bytes (decided concretely where possible, else
		// the path forks on the equality).  All choices are made before any mutation.
		id := n
		leaves, okSnap := x.trySnapshot(st, iv)
		if okSnap {
			var prev [][]snapLeaf
			if v, ok := st.ghost["$jsonleaves"]; ok {
				prev = v.(snapList).l
			}
			var conds []*Term
			var nots []*Term
			for _, p := range prev {
				eq := x.tc.False
				if p != nil {
					eq = x.snapEq(p, leaves)
				}
				conds = append(conds, x.tc.And(append(append([]*Term(nil), nots...), eq)...))
				nots = append(nots, x.tc.Not(eq))
			}
			conds = append(conds, x.tc.And(nots...))
			allConst := true
			for _, c := range conds {
				if !c.cst {
					allConst = false
				}
			}
			k := len(prev)
			if allConst {
				for j, c := range conds {
					if c.IsTrue() {
						k = j
						break
					}
				}
			} else {
				k = x.choose(st, conds, "json.Marshal equal to an earlier document")
			}
			if k < len(prev) {
				id = k
			}
		}
		if id != n {
			bs := x.strConst(fmt.Sprintf("json#%d", id)).alts[0].b
			arr := &ArrayV{e: make([]Value, len(bs))}
			for k, b := range bs {
				arr.e[k] = b
			}
			p := st.alloc(arr)
			return ret1(TupleV{SliceV{base: p, len: len(bs), cap: len(bs)}, IfaceV{}})
		}
		st.ghost["$jsoncount"] = x.tc.Const(64, uint64(n+1))
		{
			var prev [][]snapLeaf
			if v, ok := st.ghost["$jsonleaves"]; ok {
				prev = v.(snapList).l
			}
			np := append([][]snapLeaf(nil), prev...)
			for len(np) < n {
				np = append(np, nil)
			}
			if okSnap {
				np = append(np, leaves)
			} else {
				np = append(np, nil)
			}
			st.ghost["$jsonleaves"] = snapList{l: np}
		}
		var snap Value = iv
		if iv.typ != nil {
			snap = IfaceV{typ: iv.typ, val: x.deepCopy(st, iv.val, map[int]int{}, 0)}
		}
		st.ghost[fmt.Sprintf("$json:%d", n)] = snap
		bs := x.strConst(fmt.Sprintf("json#%d", n)).alts[0].b
		arr := &ArrayV{e: make([]Value, len(bs))}
		for k, b := range bs {
			arr.e[k] = b
		}
		p := st.alloc(arr)
		return ret1(TupleV{SliceV{base: p, len: len(bs), cap: len(bs)}, IfaceV{}})
	}
	intrinsics["encoding/json.Unmarshal"] = func(x *Exec, st *State, fr *Frame, fn *ssa.Function, a []Value) (Value, int) {
		data := a[0].(SliceV)
		tgt := a[1].(IfaceV)
		var sb strings.Builder
		concrete := true
		for k := 0; k < data.len; k++ {
			b := x.load(st, x.sliceElemPtr(data, k)).(*Term)
			if !b.cst {
				concrete = false
				break
			}
			sb.WriteByte(byte(b.val))
		}
		txt := sb.String()
		if concrete && strings.HasPrefix(txt, "json#") {
			if snap, ok := st.ghost["$json:"+txt[5:]]; ok {
				siv := snap.(IfaceV)
				pt, isPtr := tgt.typ.Underlying().(*types.Pointer)
				if isPtr && siv.typ != nil && !tgt.val.(PtrV).isNil() {
					srcT, srcV := siv.typ, siv.val
					if sp, ok := srcT.Underlying().(*types.Pointer); ok {
						if _, tgtIsPtr := pt.Elem().Underlying().(*types.Pointer); !tgtIsPtr {
							if src := srcV.(PtrV); !src.isNil() {
								srcT, srcV = sp.Elem(), x.load(st, src)
							}
						}
					}
					if x.jsonCompatible(pt.Elem(), srcT, 0) {
						tp := tgt.val.(PtrV)
						x.store(st, tp, x.jsonDecodeInto(st, x.load(st, tp), srcV, pt.Elem(), srcT, 0))
						return ret1(IfaceV{})
					}
				}
			}
		}
		// the literal document null (exact encoding/json semantics): no error; a target of
		// pointer / map / slice / interface type is set to nil, any other target is left alone
		if concrete && strings.Trim(txt, " \t\r\n") == "null" {
			if pt, isPtr := tgt.typ.Underlying().(*types.Pointer); isPtr && !tgt.val.(PtrV).isNil() {
				switch pt.Elem().Underlying().(type) {
				case *types.Pointer, *types.Map, *types.Slice, *types.Interface:
					x.store(st, tgt.val.(PtrV), x.zero(pt.Elem()))
				}
				return ret1(IfaceV{})
			}
		}
		// unknown document: error or (abstractly) success without effect
		if x.chooseN(st, 2, "json.Unmarshal outcome") == 0 {
			return ret1(x.mkError(st, x.strConst("json: cannot unmarshal (abstract)"), nil))
		}
		return ret1(IfaceV{})
	}

	intrinsics["k8s.io/apimachinery/pkg/util/json.Marshal"] = intrinsics["encoding/json.Marshal"]
	intrinsics["k8s.io/apimachinery/pkg/util/json.Unmarshal"] = intrinsics["encoding/json.Unmarshal"]
	intrinsics["github.com/AliyunContainerService/terway/pkg/aliyun/client.md5Hash"] = func(x *Exec, st *State, fr *Frame, fn *ssa.Function, a []Value) (Value, int) {
		iv := a[0].(IfaceV)
		var snap []snapLeaf
		if iv.typ == nil {
			snap = []snapLeaf{{mark: "null"}}
		} else {
			x.snapshot(st, iv.val, iv.typ, &snap, 0)
		}
		return ret1(x.digestOf(st, "md5", snap))
	}
	intrinsics["github.com/google/uuid.NewString"] = func(x *Exec, st *State, fr *Frame, fn *ssa.Function, a []Value) (Value, int) {
		n := 0
		if c, ok := st.ghost["$uuid"]; ok {
			n = int(c.(*Term).val)
		}
		st.ghost["$uuid"] = x.tc.Const(64, uint64(n+1))
		st.mutGen++
		return ret1(x.strConst(fmt.Sprintf("uuid-%04d", n)))
	}
	intrinsics["github.com/google/uuid.New"] = nil
	delete(intrinsics, "github.com/google/uuid.New")
	_ = strings.TrimSpace
}
