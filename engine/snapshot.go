package main

import (
	"fmt"
	"go/types"
	"reflect"
	"sort"
	"strings"

	"golang.org/x/tools/go/ssa"
)

// A JSON-visible snapshot of a value: the sequence of leaves encoding/json
// would look at (exported fields, honouring `json:"-"` and names only for
// ordering of maps), with structure markers so that different shapes never
// compare equal.  Leaves are *Term / *StrV; markers are strings.
type snapLeaf struct {
	mark string
	t    *Term
	s    *StrV
}

func (x *Exec) snapshot(st *State, v Value, t types.Type, out *[]snapLeaf, depth int) {
	if depth > 24 {
		panic(x.unsupported("snapshot depth"))
	}
	add := func(m string) { *out = append(*out, snapLeaf{mark: m}) }
	switch u := t.Underlying().(type) {
	case *types.Basic:
		switch vv := v.(type) {
		case *Term:
			*out = append(*out, snapLeaf{t: vv})
		case *StrV:
			*out = append(*out, snapLeaf{s: vv})
		default:
			add(fmt.Sprintf("<%T>", v))
		}
	case *types.Pointer:
		p := v.(PtrV)
		if p.isNil() {
			add("null")
			return
		}
		add("&")
		x.snapshot(st, x.load(st, p), u.Elem(), out, depth+1)
	case *types.Struct:
		sv := v.(*StructV)
		add("{")
		for i := 0; i < u.NumFields(); i++ {
			f := u.Field(i)
			tag := reflect.StructTag(u.Tag(i)).Get("json")
			if tag == "-" {
				continue
			}
			if !f.Exported() && !f.Embedded() {
				continue
			}
			if !f.Exported() && f.Embedded() {
				// embedded unexported: only (pointer to) struct types contribute promoted fields
				ft := f.Type()
				if p, ok := ft.Underlying().(*types.Pointer); ok {
					ft = p.Elem()
				}
				if _, ok := ft.Underlying().(*types.Struct); !ok {
					continue
				}
			}
			add(f.Name() + ":")
			x.snapshot(st, sv.f[i], f.Type(), out, depth+1)
		}
		add("}")
	case *types.Array:
		av := v.(*ArrayV)
		add("[")
		for _, e := range av.e {
			x.snapshot(st, e, u.Elem(), out, depth+1)
		}
		add("]")
	case *types.Slice:
		s := v.(SliceV)
		if s.base.isNil() {
			add("null")
			return
		}
		add(fmt.Sprintf("[%d", s.len))
		for k := 0; k < s.len; k++ {
			x.snapshot(st, x.load(st, x.sliceElemPtr(s, k)), u.Elem(), out, depth+1)
		}
		add("]")
	case *types.Map:
		m := v.(MapV)
		if m.obj == 0 {
			add("null")
			return
		}
		mo := st.heap[m.obj].(*MapObj)
		type kv struct {
			k string
			e MapEntry
		}
		var es []kv
		for _, e := range mo.entries {
			ks, ok := e.key.(*StrV)
			if !ok {
				panic(x.unsupported("snapshot of map with non-string key"))
			}
			c, ok := ks.concrete()
			if !ok {
				panic(x.unsupported("snapshot of map with symbolic key"))
			}
			es = append(es, kv{c, e})
		}
		sort.Slice(es, func(i, j int) bool { return es[i].k < es[j].k })
		add(fmt.Sprintf("map%d{", len(es)))
		for _, e := range es {
			add(e.k + "=")
			x.snapshot(st, e.e.val, u.Elem(), out, depth+1)
		}
		add("}")
	case *types.Interface:
		iv := v.(IfaceV)
		if iv.typ == nil {
			add("null")
			return
		}
		add("(" + iv.typ.String() + ")")
		x.snapshot(st, iv.val, iv.typ, out, depth+1)
	default:
		add("<" + t.String() + ">")
	}
}

// snapEq: formula "the two snapshots are equal".
func (x *Exec) snapEq(a, b []snapLeaf) *Term {
	if len(a) != len(b) {
		return x.tc.False
	}
	var cs []*Term
	for i := range a {
		switch {
		case a[i].t != nil && b[i].t != nil:
			if a[i].t.sort != b[i].t.sort {
				return x.tc.False
			}
			cs = append(cs, x.tc.Eq(a[i].t, b[i].t))
		case a[i].s != nil && b[i].s != nil:
			cs = append(cs, x.strEq(a[i].s, b[i].s))
		case a[i].t == nil && a[i].s == nil && b[i].t == nil && b[i].s == nil:
			if a[i].mark != b[i].mark {
				return x.tc.False
			}
		default:
			return x.tc.False
		}
	}
	return x.tc.And(cs...)
}

// digestOf returns an abstract digest string for a snapshot: the digest is a
// function of the snapshot and injective (collisions are outside the claim).
// The k-th digest taken on a path is "digest#j" for the first earlier snapshot
// j it equals, else "digest#k".
func (x *Exec) digestOf(st *State, kind string, snap []snapLeaf) *StrV {
	key := "$digests:" + kind
	var prev []([]snapLeaf)
	if v, ok := st.ghost[key]; ok {
		prev = v.(snapList).l
	}
	k := len(prev)
	var alts []StrAlt
	var nots []*Term
	for j, p := range prev {
		eq := x.snapEq(p, snap)
		g := x.tc.And(append(append([]*Term(nil), nots...), eq)...)
		if !g.IsFalse() {
			alts = append(alts, StrAlt{g: g, b: x.strConst(fmt.Sprintf("%s#%d", kind, j)).alts[0].b})
		}
		nots = append(nots, x.tc.Not(eq))
	}
	g := x.tc.And(nots...)
	if !g.IsFalse() {
		alts = append(alts, StrAlt{g: g, b: x.strConst(fmt.Sprintf("%s#%d", kind, k)).alts[0].b})
	}
	np := append(append([]([]snapLeaf)(nil), prev...), snap)
	st.ghost[key] = snapList{l: np}
	st.mutGen++
	return x.strNormalize(alts)
}

type snapList struct{ l []([]snapLeaf) }

func init() {
	// registered lazily from registerMoreIntrinsics via registerSnapshotIntrinsics
}

func registerSnapshotIntrinsics() {
	intrinsics["github.com/AliyunContainerService/terway/pkg/aliyun/client.md5Hash"] = func(x *Exec, st *State, fr *Frame, fn *ssa.Function, a []Value) (Value, int) {
		iv := a[0].(IfaceV)
		var snap []snapLeaf
		if iv.typ == nil {
			snap = []snapLeaf{{mark: "null"}}
		} else {
			x.snapshot(st, iv.val, iv.typ, &snap, 0)
		}
		return ret1(x.digestOf(st, "md5", snap))
	}
	intrinsics["github.com/google/uuid.NewString"] = func(x *Exec, st *State, fr *Frame, fn *ssa.Function, a []Value) (Value, int) {
		n := 0
		if c, ok := st.ghost["$uuid"]; ok {
			n = int(c.(*Term).val)
		}
		st.ghost["$uuid"] = x.tc.Const(64, uint64(n+1))
		st.mutGen++
		return ret1(x.strConst(fmt.Sprintf("uuid-%04d", n)))
	}
	intrinsics["github.com/google/uuid.New"] = nil
	delete(intrinsics, "github.com/google/uuid.New")
	_ = strings.TrimSpace
}
