package main

// One long-lived solver process per executor.  All term nodes are sent once
// as global define-fun macros; queries use check-sat-assuming over the names
// of boolean nodes so nothing is ever popped.  A query that comes back
// unknown is retried once in a fresh process with plain assertions.

import (
	"os"
	"bufio"
	"fmt"
	"io"
	"os/exec"
	"strconv"
	"strings"
	"time"
)

type Result int

const (
	Unsat Result = iota
	Sat
	Unknown
)

func (r Result) String() string { return [...]string{"unsat", "sat", "unknown"}[r] }

type Solver struct {
	bin       []string
	cmd       *exec.Cmd
	in        io.WriteCloser
	out       *bufio.Reader
	sent      map[int]bool
	declared  map[int]bool
	ctx       *TermCtx
	timeoutMs int
	Queries   int
	SatN      int
	UnsatN    int
	UnknownN  int
	Time      time.Duration
	Errors    []string
	cache     map[string]Result
	log       io.Writer
	defsSent  int
	stack     []*Term // asserted path-condition literals, one push level each
	levelDefs [][]int // term ids defined/declared at each level (0 = base)
}

func NewSolver(ctx *TermCtx, bin []string, timeoutMs int) (*Solver, error) {
	s := &Solver{bin: bin, ctx: ctx, timeoutMs: timeoutMs, cache: map[string]Result{}}
	if err := s.start(); err != nil {
		return nil, err
	}
	return s, nil
}

func (s *Solver) start() error {
	s.cmd = exec.Command(s.bin[0], s.bin[1:]...)
	in, err := s.cmd.StdinPipe()
	if err != nil {
		return err
	}
	out, err := s.cmd.StdoutPipe()
	if err != nil {
		return err
	}
	s.cmd.Stderr = nil
	if err := s.cmd.Start(); err != nil {
		return err
	}
	s.in = in
	s.out = bufio.NewReaderSize(out, 1<<16)
	s.sent = map[int]bool{}
	s.declared = map[int]bool{}
	s.stack = nil
	s.levelDefs = [][]int{nil}
	s.send("(set-option :print-success false)")
	if strings.Contains(s.bin[0], "z3") {
		s.send(fmt.Sprintf("(set-option :timeout %d)", s.timeoutMs))
	} else {
		s.send("(set-logic ALL)")
	}
	return nil
}

func (s *Solver) Close() {
	if s.cmd != nil {
		s.in.Close()
		s.cmd.Process.Kill()
		s.cmd.Wait()
		s.cmd = nil
	}
}

func (s *Solver) restart() {
	s.Close()
	if err := s.start(); err != nil {
		panic(err)
	}
}

func (s *Solver) send(line string) {
	if s.log != nil {
		fmt.Fprintln(s.log, line)
	}
	io.WriteString(s.in, line)
	io.WriteString(s.in, "\n")
}

func (s *Solver) readLine() string {
	l, err := s.out.ReadString('\n')
	if err != nil {
		return "(error \"solver died: " + err.Error() + "\")"
	}
	return strings.TrimSpace(l)
}

// define sends the definitions of t and its sub-terms (post-order, iterative).
func (s *Solver) define(t *Term) {
	if s.sent[t.id] {
		return
	}
	type fr struct {
		t *Term
		i int
	}
	stack := []fr{{t, 0}}
	for len(stack) > 0 {
		f := &stack[len(stack)-1]
		if s.sent[f.t.id] {
			stack = stack[:len(stack)-1]
			continue
		}
		if f.i < len(f.t.args) {
			a := f.t.args[f.i]
			f.i++
			if !s.sent[a.id] {
				stack = append(stack, fr{a, 0})
			}
			continue
		}
		n := f.t
		stack = stack[:len(stack)-1]
		s.sent[n.id] = true
		lv := len(s.levelDefs) - 1
		switch n.op {
		case "const":
		case "var":
			if !s.declared[n.id] {
				s.declared[n.id] = true
				s.levelDefs[lv] = append(s.levelDefs[lv], n.id)
				s.send(fmt.Sprintf("(declare-const %s %s)", smtName(n.name), n.sort))
			}
		default:
			s.levelDefs[lv] = append(s.levelDefs[lv], n.id)
			s.defsSent++
			s.send(fmt.Sprintf("(define-fun t%d () %s %s)", n.id, n.sort, n.body()))
		}
	}
}

// syncPC makes the solver's assertion stack equal to pc (pc only ever grows
// along a path; on a switch to another state the stack is popped back to the
// common prefix).
func (s *Solver) syncPC(pc []*Term) {
	k := 0
	for k < len(s.stack) && k < len(pc) && s.stack[k] == pc[k] {
		k++
	}
	if n := len(s.stack) - k; n > 0 {
		s.send(fmt.Sprintf("(pop %d)", n))
		for lv := k + 1; lv < len(s.levelDefs); lv++ {
			for _, id := range s.levelDefs[lv] {
				delete(s.sent, id)
				delete(s.declared, id)
			}
		}
		s.levelDefs = s.levelDefs[:k+1]
		s.stack = s.stack[:k]
	}
	for j := k; j < len(pc); j++ {
		s.send("(push 1)")
		s.levelDefs = append(s.levelDefs, nil)
		s.stack = append(s.stack, pc[j])
		s.define(pc[j])
		s.send("(assert " + pc[j].ref() + ")")
	}
}

// Check decides pc AND extra.  pc is kept on the solver's assertion stack.
func (s *Solver) Check(pc []*Term, extra ...*Term) Result {
	var lits []*Term
	for _, t := range extra {
		if t.IsTrue() {
			continue
		}
		if t.IsFalse() {
			return Unsat
		}
		lits = append(lits, t)
	}
	var kb strings.Builder
	for _, t := range pc {
		if t.IsFalse() {
			return Unsat
		}
		kb.WriteString(strconv.Itoa(t.id))
		kb.WriteByte(',')
	}
	kb.WriteByte('|')
	for _, t := range lits {
		kb.WriteString(strconv.Itoa(t.id))
		kb.WriteByte(',')
	}
	key := kb.String()
	if r, ok := s.cache[key]; ok {
		return r
	}
	start := time.Now()
	s.syncPC(pc)
	r := s.checkAssuming(lits)
	if r == Unknown {
		all := append(append([]*Term(nil), pc...), lits...)
		r = s.checkFresh(all)
	}
	if el := time.Since(start); el > 3*time.Second && os.Getenv("ZZ_SLOW") != "" {
		all := append(append([]*Term(nil), pc...), lits...)
		f, _ := os.CreateTemp("", "slow-*.smt2")
		f.WriteString(s.Script(all))
		f.Close()
		fmt.Fprintf(os.Stderr, "slow query %.1fs result=%v script=%s\n", el.Seconds(), r, f.Name())
	}
	s.Time += time.Since(start)
	s.Queries++
	switch r {
	case Sat:
		s.SatN++
	case Unsat:
		s.UnsatN++
	default:
		s.UnknownN++
	}
	s.cache[key] = r
	return r
}

func (s *Solver) checkAssuming(lits []*Term) Result {
	if len(lits) == 0 {
		s.send("(check-sat)")
		return s.readResult()
	}
	var sb strings.Builder
	sb.WriteString("(check-sat-assuming (")
	for _, t := range lits {
		s.define(t)
		if t.op == "not" {
			// literal form
			sb.WriteString("(not " + t.args[0].ref() + ") ")
		} else {
			sb.WriteString(t.ref() + " ")
		}
	}
	sb.WriteString("))")
	s.send(sb.String())
	return s.readResult()
}

func (s *Solver) readResult() Result {
	for {
		l := s.readLine()
		switch {
		case l == "sat":
			return Sat
		case l == "unsat":
			return Unsat
		case l == "unknown" || l == "timeout":
			return Unknown
		case strings.HasPrefix(l, "(error"):
			s.Errors = append(s.Errors, l)
			if strings.Contains(l, "solver died") {
				s.restart()
				return Unknown
			}
			// keep reading: the verdict line (if any) follows, but we report unknown
			continue
		case l == "":
			continue
		default:
			// unexpected output
			s.Errors = append(s.Errors, "unexpected: "+l)
			return Unknown
		}
	}
}

// checkFresh re-asks a query in a brand-new process with plain assertions and
// a longer timeout (the non-incremental core preprocesses much harder).
func (s *Solver) checkFresh(lits []*Term) Result {
	f, err := NewSolver(s.ctx, s.bin, s.timeoutMs*4)
	if err != nil {
		return Unknown
	}
	defer f.Close()
	for _, t := range lits {
		f.define(t)
		f.send("(assert " + t.ref() + ")")
	}
	f.send("(check-sat)")
	r := f.readResult()
	s.Errors = append(s.Errors, f.Errors...)
	return r
}

// Model returns values of all declared variables in the model of the given
// (satisfiable) conjunction.
func (s *Solver) Model(conj []*Term) (map[string]uint64, bool) {
	var lits []*Term
	for _, t := range conj {
		if t.IsTrue() {
			continue
		}
		lits = append(lits, t)
	}
	// use a fresh process so that get-value is tied to exactly this query
	f, err := NewSolver(s.ctx, s.bin, s.timeoutMs*4)
	if err != nil {
		return nil, false
	}
	defer f.Close()
	f.send("(set-option :produce-models true)")
	for _, t := range lits {
		f.define(t)
		f.send("(assert " + t.ref() + ")")
	}
	f.send("(check-sat)")
	if f.readResult() != Sat {
		return nil, false
	}
	m := map[string]uint64{}
	for _, v := range s.ctx.vars {
		if !f.declared[v.id] {
			continue
		}
		f.send(fmt.Sprintf("(get-value (%s))", smtName(v.name)))
		l := f.readLine()
		for strings.Count(l, "(") > strings.Count(l, ")") {
			l += " " + f.readLine()
		}
		// ((|name| #x..)) or ((|name| true))
		i := strings.LastIndex(l, " ")
		if i < 0 {
			continue
		}
		val := strings.TrimRight(l[i+1:], ")")
		switch {
		case val == "true":
			m[v.name] = 1
		case val == "false":
			m[v.name] = 0
		case strings.HasPrefix(val, "#x"):
			u, _ := strconv.ParseUint(val[2:], 16, 64)
			m[v.name] = u
		case strings.HasPrefix(val, "#b"):
			u, _ := strconv.ParseUint(val[2:], 2, 64)
			m[v.name] = u
		default:
			// fp or other: try to parse (fp #b. #b... #b...)
			if k := strings.Index(l, "(fp "); k >= 0 {
				parts := strings.Fields(strings.Trim(l[k+4:], "() "))
				if len(parts) >= 3 {
					bitsS := strings.TrimPrefix(parts[0], "#b") + binOf(parts[1]) + binOf(strings.TrimRight(parts[2], ")"))
					u, _ := strconv.ParseUint(bitsS, 2, 64)
					m[v.name] = u
				}
			}
		}
	}
	return m, true
}

func binOf(s string) string {
	if strings.HasPrefix(s, "#b") {
		return s[2:]
	}
	if strings.HasPrefix(s, "#x") {
		var sb strings.Builder
		for _, ch := range s[2:] {
			v, _ := strconv.ParseUint(string(ch), 16, 8)
			sb.WriteString(fmt.Sprintf("%04b", v))
		}
		return sb.String()
	}
	return s
}

// Script renders a stand-alone SMT-LIB script for a conjunction (used for
// evidence samples and cross-solver checks).
func (s *Solver) Script(conj []*Term) string {
	var sb strings.Builder
	seen := map[int]bool{}
	var walk func(t *Term)
	walk = func(t *Term) {
		if seen[t.id] {
			return
		}
		seen[t.id] = true
		for _, a := range t.args {
			walk(a)
		}
		switch t.op {
		case "const":
		case "var":
			fmt.Fprintf(&sb, "(declare-const %s %s)\n", smtName(t.name), t.sort)
		default:
			fmt.Fprintf(&sb, "(define-fun t%d () %s %s)\n", t.id, t.sort, t.body())
		}
	}
	for _, t := range conj {
		walk(t)
		fmt.Fprintf(&sb, "(assert %s)\n", t.ref())
	}
	sb.WriteString("(check-sat)\n")
	return sb.String()
}

// CrossCheck runs a stand-alone script on another solver binary.
func CrossCheck(bin []string, script string, timeout time.Duration) Result {
	cmd := exec.Command(bin[0], bin[1:]...)
	cmd.Stdin = strings.NewReader(script)
	done := make(chan struct{})
	var out []byte
	go func() {
		out, _ = cmd.Output()
		close(done)
	}()
	select {
	case <-done:
	case <-time.After(timeout):
		if cmd.Process != nil {
			cmd.Process.Kill()
		}
		<-done
		return Unknown
	}
	o := string(out)
	if strings.Contains(o, "(error") {
		return Unknown
	}
	for _, l := range strings.Split(o, "\n") {
		l = strings.TrimSpace(l)
		if l == "sat" {
			return Sat
		}
		if l == "unsat" {
			return Unsat
		}
	}
	return Unknown
}
